//! C18 defect 2: a WHERE comparison on a column that the flushed batch does not have is
//! skipped by the live filter (`if let Some(column) = batch.column_by_name(col)`), so EVERY
//! row of such a batch is delivered. Label sets differ between series, the ingester flushes
//! one batch per schema, and the engine treats an absent label as NULL (row rejected).
//!
//! Oracle: same flushed batches, delivered live vs. selected by `QueryNode::query(sql)`.
#![allow(unused_imports, dead_code)]

use arrow_array::{
    ArrayRef, DictionaryArray, Float64Array, Int64Array, RecordBatch, StringArray,
    TimestampNanosecondArray, UInt16Array, UInt64Array,
};
use arrow_schema::{Field, Schema};
use cardinalsin::ingester::{Ingester, IngesterConfig, WalConfig};
use cardinalsin::metadata::{LocalMetadataClient, MetadataClient};
use cardinalsin::query::{QueryConfig, QueryNode};
use cardinalsin::schema::MetricSchema;
use cardinalsin::StorageConfig;
use object_store::memory::InMemory;
use std::sync::Arc;
use std::time::Duration;

fn now_ns() -> i64 {
    chrono::Utc::now().timestamp_nanos_opt().unwrap()
}

fn ts(v: Vec<i64>) -> ArrayRef {
    Arc::new(TimestampNanosecondArray::from(v).with_timezone("UTC"))
}

fn batch(cols: Vec<(&str, ArrayRef)>) -> RecordBatch {
    let fields: Vec<Field> = cols
        .iter()
        .map(|(n, a)| Field::new(*n, a.data_type().clone(), true))
        .collect();
    RecordBatch::try_new(
        Arc::new(Schema::new(fields)),
        cols.into_iter().map(|(_, a)| a).collect(),
    )
    .unwrap()
}

struct Harness {
    ingester: Arc<Ingester>,
    node: QueryNode,
}

async fn harness() -> Harness {
    let store = Arc::new(InMemory::new());
    let metadata: Arc<dyn MetadataClient> = Arc::new(LocalMetadataClient::new());
    let cfg = IngesterConfig {
        flush_row_count: 1, // every write is flushed (and broadcast) at once
        wal: WalConfig {
            enabled: false,
            ..Default::default()
        },
        ..Default::default()
    };
    let ingester = Arc::new(Ingester::new(
        cfg,
        store.clone(),
        metadata.clone(),
        StorageConfig::default(),
        MetricSchema::default_metrics(),
    ));
    let mut node = QueryNode::new(
        QueryConfig::default(),
        store.clone(),
        metadata.clone(),
        StorageConfig::default(),
    )
    .await
    .unwrap();
    node.connect_broadcast(ingester.subscribe());
    Harness { ingester, node }
}

fn ids_of(batches: &[RecordBatch], min_id: i64) -> Vec<i64> {
    let mut out = Vec::new();
    for b in batches {
        let col = b
            .column_by_name("id")
            .expect("id column")
            .as_any()
            .downcast_ref::<Int64Array>()
            .expect("id is Int64");
        for i in 0..col.len() {
            if col.value(i) >= min_id {
                out.push(col.value(i));
            }
        }
    }
    out
}

/// Returns (ids delivered live, ids the engine selects from the same flushed batch).
/// Live rows must carry ids >= 1000, seed rows ids < 1000.
async fn live_vs_engine(
    h: &Harness,
    sql: &str,
    seeds: Vec<RecordBatch>,
    live: impl FnOnce() -> Vec<RecordBatch>,
) -> (Vec<i64>, Vec<i64>) {
    for s in seeds {
        h.ingester.write(s).await.unwrap();
    }
    let mut rx = h.node.query_stream(sql).await.expect("query_stream");
    // drain the historical part
    while let Ok(Some(r)) = tokio::time::timeout(Duration::from_millis(300), rx.recv()).await {
        r.expect("historical batch");
    }
    // built (timestamps = now, i.e. after the merge point) and flushed after the subscription
    for b in live() {
        h.ingester.write(b).await.unwrap();
    }
    let mut delivered = Vec::new();
    while let Ok(Some(r)) = tokio::time::timeout(Duration::from_millis(500), rx.recv()).await {
        delivered.push(r.expect("live batch"));
    }
    let live_ids = ids_of(&delivered, 1000);
    let engine = h.node.query(sql).await.expect("engine query");
    let mut engine_ids = ids_of(&engine, 1000);
    engine_ids.sort();
    (live_ids, engine_ids)
}

/// Two ingesters over the same object store and catalog, writing under the path prefixes
/// `a/...` and `z/...`. This is only there to make the ORACLE deterministic: the engine infers
/// the `metrics` table schema from the first chunk path in sorted order, so the seed chunk
/// (which has a `region` column) must sort first for `WHERE region = ...` to plan at all.
/// The stream is subscribed to the second ingester.
async fn harness2() -> (Arc<Ingester>, Harness) {
    let store = Arc::new(InMemory::new());
    let metadata: Arc<dyn MetadataClient> = Arc::new(LocalMetadataClient::new());
    let mk = |tenant: &str| {
        let cfg = IngesterConfig {
            flush_row_count: 1,
            wal: WalConfig {
                enabled: false,
                ..Default::default()
            },
            ..Default::default()
        };
        Arc::new(Ingester::new(
            cfg,
            store.clone(),
            metadata.clone(),
            StorageConfig {
                tenant_id: tenant.to_string(),
                ..Default::default()
            },
            MetricSchema::default_metrics(),
        ))
    };
    let ing_a = mk("a");
    let ing_z = mk("z");
    let mut node = QueryNode::new(
        QueryConfig::default(),
        store.clone(),
        metadata.clone(),
        StorageConfig::default(),
    )
    .await
    .unwrap();
    node.connect_broadcast(ing_z.subscribe());
    (
        ing_a,
        Harness {
            ingester: ing_z,
            node,
        },
    )
}

fn with_region(t: i64, ids: Vec<i64>, regions: Vec<&str>) -> RecordBatch {
    let n = ids.len();
    batch(vec![
        ("timestamp", ts(vec![t; n])),
        ("metric_name", Arc::new(StringArray::from(vec!["cpu"; n]))),
        ("id", Arc::new(Int64Array::from(ids))),
        ("region", Arc::new(StringArray::from(regions))),
        ("host", Arc::new(StringArray::from(vec!["hx"; n]))),
        ("value_f64", Arc::new(Float64Array::from(vec![1.0; n]))),
    ])
}

/// a series without a `region` label: the batch has no such column
fn without_region(t: i64, ids: Vec<i64>) -> RecordBatch {
    let n = ids.len();
    batch(vec![
        ("timestamp", ts(vec![t; n])),
        ("metric_name", Arc::new(StringArray::from(vec!["cpu"; n]))),
        ("id", Arc::new(Int64Array::from(ids))),
        (
            "host",
            Arc::new(StringArray::from(
                (0..n).map(|i| format!("h{i}")).collect::<Vec<_>>(),
            )),
        ),
        ("value_f64", Arc::new(Float64Array::from(vec![1.0; n]))),
    ])
}

#[tokio::test(flavor = "multi_thread", worker_threads = 2)]
async fn comparison_on_absent_label_column_delivers_every_row() {
    let (ing_a, h) = harness2().await;
    let old = now_ns() - 60_000_000_000;
    ing_a
        .write(with_region(old, vec![1, 2], vec!["us", "eu"]))
        .await
        .unwrap();
    let seeds = vec![];
    let live = || {
        vec![
            with_region(now_ns(), vec![1000, 1001], vec!["us", "eu"]),
            without_region(now_ns(), vec![1002, 1003]),
        ]
    };
    let sql = "SELECT * FROM metrics WHERE region = 'us'";
    let (live_ids, engine_ids) = live_vs_engine(&h, sql, seeds, live).await;
    println!("sql={sql}\n live tail delivered ids {live_ids:?}\n engine selects ids     {engine_ids:?}");
    assert_eq!(
        live_ids, engine_ids,
        "C18 violated: live tail delivered rows {live_ids:?} but the engine's WHERE `region = 'us'` \
         selects {engine_ids:?} from the same flushed batches (rows of the batch without a `region` \
         column do not satisfy the WHERE clause yet are all delivered)"
    );
}

#[tokio::test(flavor = "multi_thread", worker_threads = 2)]
async fn disjunction_with_absent_column_delivers_every_row() {
    let (ing_a, h) = harness2().await;
    let old = now_ns() - 60_000_000_000;
    ing_a
        .write(with_region(old, vec![1, 2], vec!["us", "eu"]))
        .await
        .unwrap();
    let seeds = vec![];
    let live = || vec![without_region(now_ns(), vec![1000, 1001])];
    let sql = "SELECT * FROM metrics WHERE region = 'us' OR host = 'h0'";
    let (live_ids, engine_ids) = live_vs_engine(&h, sql, seeds, live).await;
    println!("sql={sql}\n live tail delivered ids {live_ids:?}\n engine selects ids     {engine_ids:?}");
    assert_eq!(
        live_ids, engine_ids,
        "C18 violated: live tail delivered rows {live_ids:?} but the engine's WHERE \
         `region = 'us' OR host = 'h0'` selects {engine_ids:?} from the same flushed batch"
    );
}
