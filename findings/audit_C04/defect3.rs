//! C04 defect 3: the time window found in ONE filter of the statement is used to prune the
//! chunks behind EVERY reference to `metrics` in that statement.
//!
//! `QueryEngine::extract_time_bounds` takes the bounds of the first `Filter` it meets
//! (matching columns by bare name `timestamp`/`time`, whatever relation they belong to) and
//! only then looks at what is below that filter. The resulting single `TimeRange` selects
//! the chunk set that `query_for_tenant` registers as THE `metrics` table - the one table
//! that every scan of the statement resolves to: the other side of a self-join, a scalar /
//! IN sub-query with its own (different) window, a derived table whose window function must see
//! rows outside the outer filter. Those scans silently lose the chunks
//! outside the outer window, which can very well contribute to the answer.
//! (`extract_predicates_from_plan` was given exactly this scoping - it clears on
//! Projection / Aggregate / Join / anything else - `extract_time_bounds` was not.)

use arrow::util::pretty::pretty_format_batches;
use arrow_array::{Float64Array, Int64Array, RecordBatch, StringArray};
use arrow_schema::{DataType, Field, Schema};
use cardinalsin::ingester::{Ingester, IngesterConfig};
use cardinalsin::metadata::{LocalMetadataClient, MetadataClient};
use cardinalsin::query::{QueryConfig, QueryNode};
use cardinalsin::schema::MetricSchema;
use cardinalsin::StorageConfig;
use datafusion::datasource::MemTable;
use datafusion::prelude::SessionContext;
use object_store::memory::InMemory;
use std::sync::Arc;

fn rows(ts: Vec<i64>, values: Vec<f64>) -> RecordBatch {
    let schema = Arc::new(Schema::new(vec![
        Field::new("timestamp", DataType::Int64, false),
        Field::new("metric_name", DataType::Utf8, false),
        Field::new("value_f64", DataType::Float64, true),
    ]));
    let n = ts.len();
    RecordBatch::try_new(
        schema,
        vec![
            Arc::new(Int64Array::from(ts)),
            Arc::new(StringArray::from(vec!["requests_total"; n])),
            Arc::new(Float64Array::from(values)),
        ],
    )
    .unwrap()
}

async fn reference(all: &[RecordBatch], sql: &str) -> String {
    let ctx = SessionContext::new();
    let table = MemTable::try_new(all[0].schema(), vec![all.to_vec()]).unwrap();
    ctx.register_table("metrics", Arc::new(table)).unwrap();
    let batches = ctx.sql(sql).await.unwrap().collect().await.unwrap();
    pretty_format_batches(&batches).unwrap().to_string()
}

#[tokio::test]
async fn outer_time_window_prunes_the_chunks_of_every_other_scan_of_metrics() {
    let object_store = Arc::new(InMemory::new());
    let metadata: Arc<dyn MetadataClient> = Arc::new(LocalMetadataClient::new());
    let storage_config = StorageConfig::default();
    let mut cfg = IngesterConfig::default();
    cfg.wal.enabled = false;
    cfg.flush_row_count = 2;
    let ingester = Ingester::new(
        cfg,
        object_store.clone(),
        metadata.clone(),
        storage_config.clone(),
        MetricSchema::default_metrics(),
    );

    // a counter sampled every 10 ns; chunk 1 = [100, 110], chunk 2 = [120, 130]
    let all = vec![
        rows(vec![100, 110], vec![10.0, 11.0]),
        rows(vec![120, 130], vec![15.0, 18.0]),
    ];
    for b in &all {
        ingester.write(b.clone()).await.unwrap();
    }
    let chunks = metadata.list_chunks().await.unwrap();
    assert_eq!(chunks.len(), 2, "setup: two chunks");

    let statements = [
        // increase over the previous 20 ns: self-join, window on `a` only
        "SELECT a.timestamp, a.value_f64 - b.value_f64 AS increase \
         FROM metrics a JOIN metrics b ON b.timestamp = a.timestamp - 20 \
         WHERE a.timestamp >= 115 AND a.timestamp < 1000 ORDER BY a.timestamp",
        // compare against a baseline taken from an earlier window: scalar sub-query
        "SELECT timestamp, value_f64 - (SELECT avg(value_f64) FROM metrics \
                                        WHERE timestamp >= 0 AND timestamp < 115) AS over_baseline \
         FROM metrics WHERE timestamp >= 115 AND timestamp < 1000 ORDER BY timestamp",
        // rows of the window whose metric was already reported in an earlier window: IN sub-query
        "SELECT count(*) AS n FROM metrics WHERE timestamp >= 115 AND timestamp < 1000 \
         AND metric_name IN (SELECT metric_name FROM metrics WHERE timestamp >= 0 AND timestamp < 115)",
        // per-sample delta via lag(), then cut to the window
        "SELECT * FROM (SELECT timestamp, value_f64 - lag(value_f64) OVER (ORDER BY timestamp) AS delta \
                        FROM metrics) \
         WHERE timestamp >= 115 AND timestamp < 1000 ORDER BY timestamp",
    ];

    let mut violations = Vec::new();
    for sql in statements {
        let node = QueryNode::new(
            QueryConfig::default(),
            object_store.clone(),
            metadata.clone(),
            storage_config.clone(),
        )
        .await
        .unwrap();
        let expected = reference(&all, sql).await;
        let actual = match node.query(sql).await {
            Ok(batches) => pretty_format_batches(&batches).unwrap().to_string(),
            Err(e) => format!("ERROR: {e}"),
        };
        println!("--- {sql}\nfull scan of all ingested rows:\n{expected}\nQueryNode::query:\n{actual}\n");
        if actual != expected {
            violations.push(format!(
                "{sql}\n  full scan of all ingested rows:\n{expected}\n  QueryNode::query:\n{actual}"
            ));
        }
    }

    assert!(
        violations.is_empty(),
        "C04 violated: chunk [100, 110] was pruned because the outer filter says \
         timestamp >= 115, but another scan of `metrics` in the same statement \
         needs its rows - the answer differs from the full-scan answer for {} of {} statements:\n\n{}",
        violations.len(),
        statements.len(),
        violations.join("\n\n")
    );
}
