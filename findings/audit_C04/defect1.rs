//! C04 defect 1: the logical `metrics` table takes its schema from ONE of the selected
//! chunk files (the lexicographically first path), not from all of them.
//!
//! `QueryEngine::register_metrics_table_for_chunks_locked` builds a multi-path
//! `ListingTableConfig` and calls `.infer_schema()`, which (DataFusion 44) infers the file
//! schema from `table_paths.first()` only. The ingester starts a new chunk whenever the
//! label set of the incoming batch changes (`append_to_buffer_and_maybe_flush`), so chunks
//! with different label columns are the normal case (Prometheus / OTLP ingest create one
//! Utf8 column per label name). A label column that is not in the first chunk file is
//! invisible to the statement: `SELECT *` silently drops it, and naming it is a planning
//! error - although the rows that carry it lie inside the queried window and were selected.
//! Which chunk is "first" is decided by the random UUID in the chunk path.

use arrow::util::pretty::pretty_format_batches;
use arrow_array::{Array, Float64Array, Int64Array, RecordBatch, StringArray};
use arrow_schema::{DataType, Field, Schema};
use cardinalsin::ingester::{Ingester, IngesterConfig};
use cardinalsin::metadata::{LocalMetadataClient, MetadataClient};
use cardinalsin::query::{QueryConfig, QueryNode};
use cardinalsin::schema::MetricSchema;
use cardinalsin::StorageConfig;
use datafusion::datasource::MemTable;
use datafusion::prelude::SessionContext;
use object_store::memory::InMemory;
use std::sync::Arc;

/// All ingested rows, with the union of the label columns (absent label = NULL).
fn all_rows() -> RecordBatch {
    let schema = Arc::new(Schema::new(vec![
        Field::new("timestamp", DataType::Int64, false),
        Field::new("metric_name", DataType::Utf8, false),
        Field::new("value_f64", DataType::Float64, true),
        Field::new("host", DataType::Utf8, true),
        Field::new("region", DataType::Utf8, true),
    ]));
    RecordBatch::try_new(
        schema,
        vec![
            Arc::new(Int64Array::from(vec![100, 110, 120, 130])),
            Arc::new(StringArray::from(vec!["cpu", "cpu", "cpu", "cpu"])),
            Arc::new(Float64Array::from(vec![1.0, 2.0, 3.0, 4.0])),
            Arc::new(StringArray::from(vec![Some("h1"), Some("h2"), None, None])),
            Arc::new(StringArray::from(vec![None, None, Some("eu"), Some("us")])),
        ],
    )
    .unwrap()
}

/// What a client sends: rows `range` with only the label columns those series have.
fn as_sent(all: &RecordBatch, offset: usize, len: usize) -> RecordBatch {
    let slice = all.slice(offset, len);
    let keep: Vec<usize> = (0..slice.num_columns())
        .filter(|&i| slice.column(i).null_count() < slice.num_rows())
        .collect();
    slice.project(&keep).unwrap()
}

async fn reference(sql: &str) -> String {
    let all = all_rows();
    let ctx = SessionContext::new();
    let table = MemTable::try_new(all.schema(), vec![vec![all]]).unwrap();
    ctx.register_table("metrics", Arc::new(table)).unwrap();
    let batches = ctx.sql(sql).await.unwrap().collect().await.unwrap();
    pretty_format_batches(&batches).unwrap().to_string()
}

#[tokio::test]
async fn label_column_of_a_selected_chunk_is_invisible_unless_that_chunk_sorts_first() {
    let object_store = Arc::new(InMemory::new());
    let metadata: Arc<dyn MetadataClient> = Arc::new(LocalMetadataClient::new());
    let storage_config = StorageConfig::default();
    let mut cfg = IngesterConfig::default();
    cfg.wal.enabled = false;
    cfg.flush_row_count = 2; // each write below becomes one chunk
    let ingester = Ingester::new(
        cfg,
        object_store.clone(),
        metadata.clone(),
        storage_config.clone(),
        MetricSchema::default_metrics(),
    );

    let all = all_rows();
    // series {host=..} and series {region=..}: two label sets, two chunks
    ingester.write(as_sent(&all, 0, 2)).await.unwrap();
    ingester.write(as_sent(&all, 2, 2)).await.unwrap();
    let chunks = metadata.list_chunks().await.unwrap();
    assert_eq!(chunks.len(), 2, "setup: two chunks");
    assert_eq!(chunks.iter().map(|c| c.row_count).sum::<u64>(), 4);

    // `host` and `region` are both columns of the built-in default schema, so the
    // statements plan fine against the start-up (empty) table; a fresh QueryNode per
    // statement keeps this independent of query history.
    let statements = [
        "SELECT * FROM metrics WHERE timestamp >= 0 AND timestamp < 1000 ORDER BY timestamp",
        "SELECT count(host) AS hosts, count(region) AS regions FROM metrics \
         WHERE timestamp >= 0 AND timestamp < 1000",
        "SELECT timestamp FROM metrics WHERE timestamp >= 0 AND timestamp < 1000 \
         AND (host = 'h1' OR region = 'us') ORDER BY timestamp",
    ];

    let mut violations = Vec::new();
    for sql in statements {
        let node = QueryNode::new(
            QueryConfig::default(),
            object_store.clone(),
            metadata.clone(),
            storage_config.clone(),
        )
        .await
        .unwrap();
        let expected = reference(sql).await;
        let actual = match node.query(sql).await {
            Ok(batches) => pretty_format_batches(&batches).unwrap().to_string(),
            Err(e) => format!("ERROR: {e}"),
        };
        println!("--- {sql}\nfull scan of all ingested rows:\n{expected}\nQueryNode::query:\n{actual}\n");
        if actual != expected {
            violations.push(format!(
                "{sql}\n  full scan of all ingested rows:\n{expected}\n  QueryNode::query:\n{actual}"
            ));
        }
    }

    assert!(
        violations.is_empty(),
        "C04 violated: both chunks lie in the window and were selected, yet the answer is not the \
         full-scan answer - the `metrics` table got the schema of the first chunk file only, so a \
         label column carried by the other chunk is dropped / unknown ({} of {} statements):\n\n{}",
        violations.len(),
        statements.len(),
        violations.join("\n\n")
    );
}
