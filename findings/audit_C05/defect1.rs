//! C05 defect 1: an entry that was completely written and acknowledged comes back from
//! WAL recovery with DIFFERENT CONTENT when the batch has more than one dictionary-encoded
//! column -- which is what the database's own `MetricSchema::default_metrics()` prescribes
//! (metric_name, host, service, env, region, instance are all Dictionary(_, Utf8)).
//!
//! `encode_record_batch` (src/ingester/wal.rs) serialises with
//! `StreamWriter::try_new(&mut buffer, &schema)`, i.e. default `IpcWriteOptions`
//! (arrow-ipc 53: `preserve_dict_id = true`). Every field the schema builder creates with
//! `Field::new(.., DataType::Dictionary(..), ..)` has dict_id 0, so all dictionary columns
//! are written under the SAME dictionary id; `WalEntry::batches` (StreamReader) resolves
//! every dictionary column against the last dictionary written under id 0. The frame CRC is
//! computed over the already-wrong payload, so recovery accepts the entry as valid.

use arrow_array::{
    Array, ArrayRef, DictionaryArray, Float64Array, Int64Array, RecordBatch, StringArray,
    TimestampNanosecondArray, UInt16Array, UInt32Array, UInt64Array,
};
use arrow_schema::{DataType, TimeUnit};
use cardinalsin::ingester::{Ingester, IngesterConfig, WalConfig, WalSyncMode, WriteAheadLog};
use cardinalsin::metadata::{LocalMetadataClient, MetadataClient};
use cardinalsin::schema::MetricSchema;
use cardinalsin::{CloudProvider, StorageConfig};
use object_store::memory::InMemory;
use std::sync::Arc;
use tempfile::TempDir;

const ROWS: usize = 3;

/// A batch in the database's default metric schema; every string cell is "<column>-<row>".
fn default_schema_batch(ts_base: i64) -> RecordBatch {
    let schema = MetricSchema::default_metrics().arrow_schema();
    let mut columns: Vec<ArrayRef> = Vec::new();
    for field in schema.fields() {
        let strings: Vec<String> = (0..ROWS).map(|r| format!("{}-{}", field.name(), r)).collect();
        let values: ArrayRef = Arc::new(StringArray::from(strings.clone()));
        let col: ArrayRef = match field.data_type() {
            DataType::Timestamp(TimeUnit::Nanosecond, tz) => Arc::new(
                TimestampNanosecondArray::from(
                    (0..ROWS as i64).map(|r| ts_base + r).collect::<Vec<_>>(),
                )
                .with_timezone_opt(tz.clone()),
            ),
            DataType::Dictionary(k, _) if **k == DataType::UInt16 => Arc::new(
                DictionaryArray::try_new(
                    UInt16Array::from((0..ROWS as u16).collect::<Vec<_>>()),
                    values,
                )
                .unwrap(),
            ),
            DataType::Dictionary(k, _) if **k == DataType::UInt32 => Arc::new(
                DictionaryArray::try_new(
                    UInt32Array::from((0..ROWS as u32).collect::<Vec<_>>()),
                    values,
                )
                .unwrap(),
            ),
            DataType::Utf8 => values,
            DataType::Float64 => Arc::new(Float64Array::from(vec![1.5; ROWS])),
            DataType::Int64 => Arc::new(Int64Array::from(vec![1; ROWS])),
            DataType::UInt64 => Arc::new(UInt64Array::from(vec![1; ROWS])),
            other => panic!("unexpected type in default schema: {other:?}"),
        };
        columns.push(col);
    }
    RecordBatch::try_new(schema, columns).unwrap()
}

/// Logical string content of a Utf8 / Dictionary(_, Utf8) column.
fn strings_of(col: &ArrayRef) -> Vec<String> {
    let plain = arrow::compute::cast(col, &DataType::Utf8).unwrap();
    let plain = plain.as_any().downcast_ref::<StringArray>().unwrap();
    (0..plain.len()).map(|i| plain.value(i).to_string()).collect()
}

fn string_columns(batch: &RecordBatch) -> Vec<(String, Vec<String>)> {
    batch
        .schema()
        .fields()
        .iter()
        .zip(batch.columns())
        .filter(|(f, _)| {
            matches!(f.data_type(), DataType::Utf8 | DataType::Dictionary(_, _))
        })
        .map(|(f, c)| (f.name().clone(), strings_of(c)))
        .collect()
}

fn wal_config(dir: &TempDir) -> WalConfig {
    WalConfig {
        wal_dir: dir.path().to_path_buf(),
        max_segment_size: 64 * 1024 * 1024,
        sync_mode: WalSyncMode::EveryWrite,
        enabled: true,
    }
}

/// WAL level: append, reopen, read back.
#[tokio::test]
async fn wal_reopen_returns_entry_with_different_content() {
    let dir = TempDir::new().unwrap();
    let batch = default_schema_batch(1_000_000_000);
    let written = string_columns(&batch);

    let seq = {
        let mut wal = WriteAheadLog::open(wal_config(&dir)).await.unwrap();
        wal.append(&batch).await.unwrap()
    };

    let wal = WriteAheadLog::open(wal_config(&dir)).await.unwrap();
    let entries = wal.read_entries().unwrap();
    assert_eq!(entries.len(), 1);
    assert_eq!(entries[0].seq, seq);
    let recovered = entries[0].batches().expect("entry passed the CRC, must decode");
    assert_eq!(recovered.len(), 1);
    let recovered = string_columns(&recovered[0]);

    for ((name, w), (_, r)) in written.iter().zip(recovered.iter()) {
        eprintln!("column {name:12} written {w:?}  recovered {r:?}");
    }
    assert_eq!(
        written, recovered,
        "C05 violated: the WAL entry seq={seq} was completely written and acknowledged, passes \
         the CRC on reopen, yet decodes to different cell values than were appended \
         (dictionary columns share IPC dict_id 0) -- recovery yields a corrupted entry"
    );
}

/// Ingester level: acknowledged write, crash, restart with recovery, flush; compare what
/// reaches object storage (observed through the flush broadcast) with what was written.
#[tokio::test(flavor = "multi_thread", worker_threads = 2)]
async fn ingester_recovery_stores_different_label_values() {
    let dir = TempDir::new().unwrap();
    let make = || {
        let store = Arc::new(InMemory::new());
        let metadata: Arc<dyn MetadataClient> = Arc::new(LocalMetadataClient::new());
        let config = IngesterConfig {
            flush_row_count: 2 * ROWS, // second write triggers the flush
            flush_size_bytes: usize::MAX / 4,
            wal: wal_config(&dir),
            ..Default::default()
        };
        Ingester::new(
            config,
            store,
            metadata,
            StorageConfig {
                provider: CloudProvider::Memory,
                container: "b".into(),
                tenant_id: "t".into(),
            },
            MetricSchema::default_metrics(),
        )
    };

    let first = default_schema_batch(1_000_000_000);
    let written = string_columns(&first);
    {
        let mut ing = make();
        ing.ensure_wal().await.unwrap();
        ing.write(first.clone()).await.expect("write acknowledged");
        // crash: the process dies with the rows only in the WAL
    }

    let mut ing = make();
    ing.ensure_wal().await.unwrap();
    assert_eq!(ing.buffer_stats().await.row_count, ROWS, "entry replayed");
    let mut rx = ing.subscribe();
    // Same schema, later timestamps: fills the buffer to the flush threshold.
    ing.write(default_schema_batch(2_000_000_000)).await.unwrap();
    let flushed = rx.recv().await.unwrap();
    assert_eq!(flushed.num_rows(), 2 * ROWS);
    let flushed_cols = string_columns(&flushed);

    for ((name, w), (_, f)) in written.iter().zip(flushed_cols.iter()) {
        let got = &f[..ROWS];
        eprintln!("column {name:12} acknowledged {w:?}  stored after recovery {got:?}");
    }
    for ((name, w), (_, f)) in written.iter().zip(flushed_cols.iter()) {
        assert_eq!(
            w.as_slice(),
            &f[..ROWS],
            "C05 violated: column `{name}` of the acknowledged write was replayed from the WAL \
             with different values -- recovery produced a corrupted entry that is now stored"
        );
    }
}
