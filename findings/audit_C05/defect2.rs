//! C05 defect 2: sequence numbers regress to 1 when the flushed-sequence file is torn (or
//! still old) at a reopen that finds only an empty tail segment.
//!
//! `WriteAheadLog::open` derives `next_seq` from `max(last entry on disk, flushed mark) + 1`.
//! `truncate_before` may remove every segment that holds an entry (the active one, which it
//! keeps, can be empty: a crash or failed write right after `rotate` created it). From then
//! on the 8-byte `flushed_seq` file is the ONLY record of the sequence numbers already
//! used -- and it is written with a plain `std::fs::write` (truncate to 0, then write, no
//! temp-file + rename, no fsync), and `load_flushed_seq` maps any length != 8 to 0.

use arrow_array::{Int64Array, RecordBatch};
use arrow_schema::{DataType, Field, Schema};
use cardinalsin::ingester::{
    load_flushed_seq, persist_flushed_seq, WalConfig, WalSyncMode, WriteAheadLog,
};
use std::sync::Arc;
use tempfile::TempDir;

fn batch() -> RecordBatch {
    let schema = Arc::new(Schema::new(vec![Field::new("value", DataType::Int64, false)]));
    RecordBatch::try_new(schema, vec![Arc::new(Int64Array::from(vec![1, 2, 3]))]).unwrap()
}

async fn entry_size() -> usize {
    let dir = TempDir::new().unwrap();
    let mut wal = WriteAheadLog::open(cfg(&dir, 0)).await.unwrap();
    wal.append(&batch()).await.unwrap();
    22 + wal.read_entries().unwrap()[0].payload.len()
}

fn cfg(dir: &TempDir, max_segment_size: usize) -> WalConfig {
    WalConfig {
        wal_dir: dir.path().to_path_buf(),
        max_segment_size,
        sync_mode: WalSyncMode::EveryWrite,
        enabled: true,
    }
}

/// History shared by both tests: two acknowledged entries in two segments, then a crash
/// "just after creating a new segment" (the third append rotated, the process died before
/// the first byte of the frame). Returns the acknowledged sequence numbers.
async fn two_entries_then_crash_after_rotation(dir: &TempDir, max: usize) -> (u64, u64) {
    let mut wal = WriteAheadLog::open(cfg(dir, max)).await.unwrap();
    let s1 = wal.append(&batch()).await.unwrap(); // segment-000001
    let s2 = wal.append(&batch()).await.unwrap(); // rotates: segment-000002
    drop(wal);
    // what `rotate()` leaves behind when the crash hits before the frame is written
    std::fs::write(dir.path().join("segment-000003.wal"), b"").unwrap();
    (s1, s2)
}

#[tokio::test]
async fn torn_flushed_seq_file_makes_sequence_restart_at_one() {
    let max = entry_size().await + 1;
    let dir = TempDir::new().unwrap();
    let (s1, s2) = two_entries_then_crash_after_rotation(&dir, max).await;
    assert_eq!((s1, s2), (1, 2));

    // Reopen #1: correct so far.
    let mut wal = WriteAheadLog::open(cfg(&dir, max)).await.unwrap();
    assert_eq!(wal.next_seq(), 3);
    assert_eq!(wal.read_entries().unwrap().len(), 2);

    // Both entries get flushed: record the mark, then drop the covered segments
    // (this is what Ingester::ensure_wal does on a start with mark = 2).
    persist_flushed_seq(dir.path(), s2).unwrap();
    wal.truncate_before(s2 + 1).await.unwrap();
    assert!(wal.read_entries().unwrap().is_empty());
    drop(wal);

    // Reopen #2 with the mark intact: still correct.
    let wal = WriteAheadLog::open(cfg(&dir, max)).await.unwrap();
    assert_eq!(wal.next_seq(), 3, "with an intact mark the sequence continues");
    drop(wal);

    // The mark file is being rewritten (std::fs::write = O_TRUNC, then 8 bytes) when the
    // process dies: every cut leaves 0..=7 bytes.
    for torn_len in [0usize, 4, 7] {
        std::fs::write(dir.path().join("flushed_seq"), &s2.to_le_bytes()[..torn_len]).unwrap();
        assert_eq!(load_flushed_seq(dir.path()).unwrap(), 0);
        let wal = WriteAheadLog::open(cfg(&dir, max)).await.unwrap();
        assert!(
            wal.next_seq() > s2,
            "C05 violated: flushed_seq file torn at {torn_len} of 8 bytes -> reopen hands out \
             next_seq = {} although sequence numbers up to {s2} were acknowledged AND recorded \
             as flushed; sequence numbers regress",
            wal.next_seq()
        );
    }
}

#[tokio::test]
async fn old_flushed_seq_file_makes_sequence_restart_at_one() {
    let max = entry_size().await + 1;
    let dir = TempDir::new().unwrap();
    let (_s1, s2) = two_entries_then_crash_after_rotation(&dir, max).await;

    let mut wal = WriteAheadLog::open(cfg(&dir, max)).await.unwrap();
    assert_eq!(wal.next_seq(), 3);
    // Flush of 1..=2 done. Ingester::flush_batches truncates FIRST and persists the mark
    // AFTERWARDS; the crash falls between the two, so the mark file is still "old" (absent).
    wal.truncate_before(s2 + 1).await.unwrap();
    drop(wal);

    let mut wal = WriteAheadLog::open(cfg(&dir, max)).await.unwrap();
    let next = wal.next_seq();
    let reused = wal.append(&batch()).await.unwrap();
    assert!(
        next > s2 && reused > s2,
        "C05 violated: after truncate + crash before the mark was persisted, reopen reports \
         next_seq = {next} and the next append is acknowledged with seq {reused}, at or below \
         the already acknowledged seq {s2}"
    );
}
