//! C16 defect 5 (latent - nothing in the tree deletes through the wrapper today):
//! `CachedObjectStore::delete` invalidates the cache *before* it deletes from the
//! inner store, and `get` never re-validates.  A reader that runs while the inner
//! DELETE is in flight re-populates the cache; once the delete has completed the
//! object is gone from the backing store but keeps being served from the cache.
//! (`rename` has the same shape for its `from` key.)

use async_trait::async_trait;
use bytes::Bytes;
use cardinalsin::query::{CacheConfig, CachedObjectStore, TieredCache};
use futures::stream::BoxStream;
use object_store::memory::InMemory;
use object_store::path::Path;
use object_store::{
    GetOptions, GetResult, ListResult, MultipartUpload, ObjectMeta, ObjectStore, PutMultipartOpts,
    PutOptions, PutPayload, PutResult, Result as OsResult,
};
use std::ops::Range;
use std::sync::Arc;
use tokio::sync::Notify;

/// InMemory whose DELETE takes a while: it announces its arrival and waits to be released.
#[derive(Debug)]
struct SlowDelete {
    inner: InMemory,
    arrived: Notify,
    release: Notify,
}

impl std::fmt::Display for SlowDelete {
    fn fmt(&self, f: &mut std::fmt::Formatter<'_>) -> std::fmt::Result {
        write!(f, "SlowDelete")
    }
}

#[async_trait]
impl ObjectStore for SlowDelete {
    async fn put_opts(&self, l: &Path, b: PutPayload, o: PutOptions) -> OsResult<PutResult> {
        self.inner.put_opts(l, b, o).await
    }
    async fn put_multipart_opts(
        &self,
        l: &Path,
        o: PutMultipartOpts,
    ) -> OsResult<Box<dyn MultipartUpload>> {
        self.inner.put_multipart_opts(l, o).await
    }
    async fn get_opts(&self, l: &Path, o: GetOptions) -> OsResult<GetResult> {
        self.inner.get_opts(l, o).await
    }
    async fn get_range(&self, l: &Path, r: Range<usize>) -> OsResult<Bytes> {
        self.inner.get_range(l, r).await
    }
    async fn head(&self, l: &Path) -> OsResult<ObjectMeta> {
        self.inner.head(l).await
    }
    async fn delete(&self, l: &Path) -> OsResult<()> {
        self.arrived.notify_one();
        self.release.notified().await;
        self.inner.delete(l).await
    }
    fn list(&self, p: Option<&Path>) -> BoxStream<'_, OsResult<ObjectMeta>> {
        self.inner.list(p)
    }
    async fn list_with_delimiter(&self, p: Option<&Path>) -> OsResult<ListResult> {
        self.inner.list_with_delimiter(p).await
    }
    async fn copy(&self, f: &Path, t: &Path) -> OsResult<()> {
        self.inner.copy(f, t).await
    }
    async fn copy_if_not_exists(&self, f: &Path, t: &Path) -> OsResult<()> {
        self.inner.copy_if_not_exists(f, t).await
    }
}

#[tokio::test(flavor = "multi_thread", worker_threads = 2)]
async fn deleted_object_must_not_be_served_from_cache() {
    let inner = Arc::new(SlowDelete {
        inner: InMemory::new(),
        arrived: Notify::new(),
        release: Notify::new(),
    });
    let cache = Arc::new(
        TieredCache::new(CacheConfig {
            l1_size: 1 << 20,
            l2_size: 0,
            l2_dir: None,
        })
        .await
        .unwrap(),
    );
    let store = Arc::new(CachedObjectStore::new(inner.clone(), cache));
    let p = Path::from("tenant/chunk_0001.parquet");
    inner
        .put(&p, PutPayload::from_static(b"chunk-body"))
        .await
        .unwrap();

    // T1: delete through the caching store; it invalidates, then sits in the inner DELETE
    let deleter = {
        let store = store.clone();
        let p = p.clone();
        tokio::spawn(async move { store.delete(&p).await })
    };
    inner.arrived.notified().await;

    // T2: a perfectly legitimate read while the DELETE is in flight (object still exists)
    let got = store.get(&p).await.unwrap().bytes().await.unwrap();
    assert_eq!(got.as_ref(), b"chunk-body");

    // the DELETE completes
    inner.release.notify_one();
    deleter.await.unwrap().unwrap();

    // the backing store no longer has the object ...
    assert!(matches!(
        inner.get(&p).await,
        Err(object_store::Error::NotFound { .. })
    ));
    // ... so a read through the caching store must fail
    let after = store.get(&p).await;
    assert!(
        after.is_err(),
        "C16 violated: delete() through the caching store returned Ok and the backing store answers \
         NotFound, yet the read through the caching store was answered from the cache with {} bytes",
        after.unwrap().meta.size
    );
}
