//! C16 defect 3: a failing disk tier fails the read instead of degrading to a miss.
//!
//! `TieredCache::get_or_fetch` does
//!     l2.get(&key).await.map_err(|e| Error::Internal(format!("L2 cache error: {}", e)))?
//! so any I/O error of the *cache* device is returned to the reader although the
//! source of truth (the backing store) is healthy and holds the object.  The entry
//! stays in foyer's index, so the same key keeps failing on every later read.
//!
//! Fault injection: the cache's region file is truncated underneath the running
//! cache (stands for an EIO / short read of the NVMe cache device).  The backing
//! store is untouched.

use cardinalsin::query::{CacheConfig, CachedObjectStore, TieredCache};
use object_store::memory::InMemory;
use object_store::path::Path;
use object_store::{ObjectStore, PutPayload};
use std::sync::Arc;

fn body_for(i: usize) -> Vec<u8> {
    format!("obj-{i}-")
        .into_bytes()
        .into_iter()
        .cycle()
        .take(3000 + i)
        .collect()
}

fn cache_files(dir: &std::path::Path) -> Vec<std::path::PathBuf> {
    let mut out = vec![];
    for e in std::fs::read_dir(dir).unwrap() {
        let e = e.unwrap();
        if e.metadata().unwrap().is_dir() {
            out.extend(cache_files(&e.path()));
        } else {
            out.push(e.path());
        }
    }
    out
}

#[tokio::test(flavor = "multi_thread", worker_threads = 2)]
async fn disk_tier_read_error_must_not_fail_the_read() {
    const N: usize = 100;
    let dir = tempfile::tempdir().unwrap();
    let inner = Arc::new(InMemory::new());
    let cache = Arc::new(
        TieredCache::new(CacheConfig {
            l1_size: 8000, // RAM tier holds ~2 objects, everything else lives on the disk tier
            l2_size: 16 << 20,
            l2_dir: Some(dir.path().to_str().unwrap().to_string()),
        })
        .await
        .unwrap(),
    );
    let store = CachedObjectStore::new(inner.clone(), cache.clone());

    // new-object writes, each read once through the cache (populates RAM + disk tier)
    for i in 0..N {
        let p = Path::from(format!("tenant/chunk_{i}.parquet"));
        inner.put(&p, PutPayload::from(body_for(i))).await.unwrap();
        let got = store.get(&p).await.unwrap().bytes().await.unwrap();
        assert_eq!(got.as_ref(), body_for(i).as_slice());
    }
    // let foyer flush its write queue to the device
    tokio::time::sleep(std::time::Duration::from_secs(2)).await;

    // the cache device goes bad: reads come back short
    let files = cache_files(dir.path());
    assert!(!files.is_empty(), "test premise: the disk tier has a region file");
    for f in &files {
        std::fs::OpenOptions::new()
            .write(true)
            .open(f)
            .unwrap()
            .set_len(0)
            .unwrap();
    }

    // the backing store still has every object; read them all through the cache, twice
    let mut failures = vec![];
    for round in 0..2 {
        for i in 0..N {
            let p = Path::from(format!("tenant/chunk_{i}.parquet"));
            let want = inner.get(&p).await.unwrap().bytes().await.unwrap();
            match store.get(&p).await {
                Ok(r) => {
                    let got = r.bytes().await.unwrap();
                    assert_eq!(got, want, "wrong bytes for chunk_{i}");
                }
                Err(e) => failures.push(format!("round {round} chunk_{i}: {e}")),
            }
        }
    }
    println!("cache stats: {:?}", cache.stats());
    assert!(
        failures.is_empty(),
        "C16 violated: the backing store holds all {N} objects, but {} of {} reads through the \
         caching store failed because the disk tier returned an error (first: {:?}, last: {:?})",
        failures.len(),
        2 * N,
        failures.first(),
        failures.last()
    );
}
