//! C16 defect 4: the kind of a failed read is lost.
//!
//! `CachedObjectStore::get` funnels the inner store's error through
//! `crate::Error` and back into `object_store::Error::Generic { store: "CachedObjectStore", .. }`.
//! A read of an object the backing store does not have therefore does not fail
//! with `object_store::Error::NotFound` (which every `ObjectStore` consumer,
//! including this code base in ~15 places, pattern-matches on to tell "absent"
//! from "broken") but with an opaque `Generic` error.

use cardinalsin::query::{CacheConfig, CachedObjectStore, TieredCache};
use object_store::memory::InMemory;
use object_store::path::Path;
use object_store::{GetOptions, ObjectStore};
use std::sync::Arc;

#[tokio::test]
async fn read_of_absent_object_must_fail_like_the_backing_store() {
    let inner = Arc::new(InMemory::new());
    let cache = Arc::new(
        TieredCache::new(CacheConfig {
            l1_size: 1 << 20,
            l2_size: 0,
            l2_dir: None,
        })
        .await
        .unwrap(),
    );
    let store = CachedObjectStore::new(inner.clone(), cache);
    let p = Path::from("tenant/chunk_that_was_never_written.parquet");

    let backing = inner.get(&p).await.err().expect("absent object");
    assert!(matches!(backing, object_store::Error::NotFound { .. }));

    let via_get = store.get(&p).await.err().expect("absent object");
    let via_get_opts = store
        .get_opts(&p, GetOptions::default())
        .await
        .err()
        .expect("absent object");
    // the bypassing paths keep the kind - which makes the whole-object path the odd one out
    let via_range = store.get_range(&p, 0..1).await.err().expect("absent object");
    assert!(matches!(via_range, object_store::Error::NotFound { .. }));

    assert!(
        matches!(via_get, object_store::Error::NotFound { .. })
            && matches!(via_get_opts, object_store::Error::NotFound { .. }),
        "C16 violated: the backing store fails the read of an absent object with NotFound, the caching \
         store fails it with a different error kind: get -> {via_get:?}; get_opts -> {via_get_opts:?}"
    );
}
