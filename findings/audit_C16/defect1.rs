//! C16 defect 1: date-conditional GETs are neither forwarded nor bypassed.
//!
//! `CachedObjectStore::get_opts` bypasses the cache only for `range`, `if_match`
//! and `if_none_match`.  A GET carrying `if_modified_since` / `if_unmodified_since`
//! falls through to `self.get(location)`, which drops the options altogether (on a
//! miss the inner store is asked with a plain `get`, on a hit it is not asked at
//! all).  The conditional read therefore returns the full body where the backing
//! store answers `Precondition` / `NotModified`.

use cardinalsin::query::{CacheConfig, CachedObjectStore, TieredCache};
use object_store::memory::InMemory;
use object_store::path::Path;
use object_store::{GetOptions, ObjectStore, PutPayload};
use std::sync::Arc;

async fn setup() -> (Arc<InMemory>, CachedObjectStore, Path, chrono::DateTime<chrono::Utc>) {
    let inner = Arc::new(InMemory::new());
    let cache = Arc::new(
        TieredCache::new(CacheConfig {
            l1_size: 1 << 20,
            l2_size: 0,
            l2_dir: None,
        })
        .await
        .unwrap(),
    );
    let store = CachedObjectStore::new(inner.clone(), cache);
    let p = Path::from("tenant/chunk_0001.parquet");
    inner
        .put(&p, PutPayload::from_static(b"PAR1-chunk-body-PAR1"))
        .await
        .unwrap();
    let last_modified = inner.head(&p).await.unwrap().last_modified;
    (inner, store, p, last_modified)
}

#[tokio::test]
async fn if_unmodified_since_is_ignored_by_the_caching_store() {
    let (inner, store, p, last_modified) = setup().await;
    // "give me the object only if it has not been modified since one hour before it was written"
    let opts = GetOptions {
        if_unmodified_since: Some(last_modified - chrono::Duration::hours(1)),
        ..Default::default()
    };

    // Both on a cold cache (round 0, miss path) and on a warm one (round 1, hit path).
    for round in 0..2 {
        let backing = inner.get_opts(&p, opts.clone()).await;
        assert!(
            matches!(backing, Err(object_store::Error::Precondition { .. })),
            "test premise: the backing store rejects the conditional read, got {backing:?}"
        );
        let cached = store.get_opts(&p, opts.clone()).await;
        assert!(
            matches!(cached, Err(object_store::Error::Precondition { .. })),
            "C16 violated (round {round}): conditional read get_opts(if_unmodified_since = written - 1h) \
             fails with Precondition on the backing store but the caching store answered {:?}",
            cached.map(|r| format!("Ok(body of {} bytes)", r.meta.size))
        );
    }
}

#[tokio::test]
async fn if_modified_since_is_ignored_by_the_caching_store() {
    let (inner, store, p, last_modified) = setup().await;
    // "give me the object only if it changed after (written + 1h)" -> 304 Not Modified
    let opts = GetOptions {
        if_modified_since: Some(last_modified + chrono::Duration::hours(1)),
        ..Default::default()
    };

    for round in 0..2 {
        let backing = inner.get_opts(&p, opts.clone()).await;
        assert!(
            matches!(backing, Err(object_store::Error::NotModified { .. })),
            "test premise: the backing store answers NotModified, got {backing:?}"
        );
        let cached = store.get_opts(&p, opts.clone()).await;
        assert!(
            matches!(cached, Err(object_store::Error::NotModified { .. })),
            "C16 violated (round {round}): conditional read get_opts(if_modified_since = written + 1h) \
             is NotModified on the backing store but the caching store answered {:?}",
            cached.map(|r| format!("Ok(body of {} bytes)", r.meta.size))
        );
    }
}
