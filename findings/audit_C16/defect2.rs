//! C16 defect 2: reading an empty (0-byte) object through the cache panics as soon
//! as a disk tier is configured.
//!
//! `TieredCache::new` gives the foyer hybrid cache the weighter `|_, v| v.len()`.
//! foyer-memory 0.12 asserts `weight != 0` when it emplaces an entry
//! (`BaseHandle::init`, a plain `assert_ne!`, i.e. also in release builds), so
//! `get_or_fetch` panics in `l2.insert(key, bytes.to_vec())` for an empty object.
//! Nothing is cached by the failed call, so every later read of that key panics
//! again: the object is unreadable through the caching store although the
//! backing store serves it (0 bytes) without complaint.

use cardinalsin::query::{CacheConfig, CachedObjectStore, TieredCache};
use object_store::memory::InMemory;
use object_store::path::Path;
use object_store::{ObjectStore, PutPayload};
use std::sync::Arc;

async fn read_empty_object_through_cache(l2_dir: Option<String>) -> Result<usize, String> {
    let inner = Arc::new(InMemory::new());
    let cache = Arc::new(
        TieredCache::new(CacheConfig {
            l1_size: 1 << 20,
            l2_size: 16 << 20,
            l2_dir,
        })
        .await
        .unwrap(),
    );
    let store = Arc::new(CachedObjectStore::new(inner.clone(), cache));
    let p = Path::from("tenant/empty_object");
    inner.put(&p, PutPayload::from_static(b"")).await.unwrap();

    // premise: the backing store serves the object
    let backing = inner.get(&p).await.unwrap().bytes().await.unwrap();
    assert_eq!(backing.len(), 0);

    // run the read in its own task so that a panic inside it is reported, not propagated
    let s = store.clone();
    let pp = p.clone();
    match tokio::spawn(async move { s.get(&pp).await }).await {
        Ok(Ok(r)) => Ok(r.bytes().await.unwrap().len()),
        Ok(Err(e)) => Err(format!("error: {e}")),
        Err(join) => Err(format!("PANIC inside CachedObjectStore::get: {join}")),
    }
}

#[tokio::test(flavor = "multi_thread", worker_threads = 2)]
async fn control_empty_object_without_disk_tier_is_served() {
    let r = read_empty_object_through_cache(None).await;
    assert_eq!(r, Ok(0), "without a disk tier the empty object is read fine");
}

#[tokio::test(flavor = "multi_thread", worker_threads = 2)]
async fn empty_object_with_disk_tier_must_be_served() {
    let dir = tempfile::tempdir().unwrap();
    let r = read_empty_object_through_cache(Some(dir.path().to_str().unwrap().to_string())).await;
    assert_eq!(
        r,
        Ok(0),
        "C16 violated: the backing store holds a 0-byte object and serves it, but the read through \
         the caching store (RAM + disk tier) did not return those 0 bytes"
    );
}
