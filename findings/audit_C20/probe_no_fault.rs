//! C20 probe: iterate run_compaction_cycle and observe the catalog.

use arrow_array::{Float64Array, RecordBatch, TimestampNanosecondArray};
use arrow_schema::{DataType, Field, Schema, TimeUnit};
use async_trait::async_trait;
use cardinalsin::compactor::{Compactor, CompactorConfig};
use cardinalsin::ingester::ChunkMetadata;
use cardinalsin::metadata::{
    CompactionJob, CompactionLease, CompactionLeases, CompactionStatus, LocalMetadataClient,
    MetadataClient, S3MetadataClient, S3MetadataConfig, SplitState, TimeIndexEntry, TimeRange,
};
use cardinalsin::sharding::{HotShardConfig, ShardMetadata, ShardMonitor, SplitPhase};
use cardinalsin::{Result, StorageConfig};
use object_store::memory::InMemory;
use object_store::ObjectStore;
use parquet::arrow::ArrowWriter;
use std::collections::{BTreeMap, HashMap, HashSet};
use std::sync::{Arc, Mutex};
use std::time::Duration;

const HOUR: i64 = 3_600_000_000_000;

#[derive(Default)]
struct Log {
    /// groups leased since the last reset (one cycle)
    leased: Vec<(u32, Vec<String>)>,
    /// (sources, target)
    swaps: Vec<(Vec<String>, String)>,
}

struct Recorder {
    inner: Arc<dyn MetadataClient>,
    log: Mutex<Log>,
}

#[async_trait]
impl MetadataClient for Recorder {
    async fn register_chunk(&self, path: &str, metadata: &ChunkMetadata) -> Result<()> {
        self.inner.register_chunk(path, metadata).await
    }
    async fn get_chunks(&self, range: TimeRange) -> Result<Vec<TimeIndexEntry>> {
        self.inner.get_chunks(range).await
    }
    async fn get_chunk(&self, path: &str) -> Result<Option<ChunkMetadata>> {
        self.inner.get_chunk(path).await
    }
    async fn delete_chunk(&self, path: &str) -> Result<()> {
        self.inner.delete_chunk(path).await
    }
    async fn list_chunks(&self) -> Result<Vec<TimeIndexEntry>> {
        self.inner.list_chunks().await
    }
    async fn get_l0_candidates(&self, min_count: usize) -> Result<Vec<Vec<String>>> {
        self.inner.get_l0_candidates(min_count).await
    }
    async fn get_level_candidates(
        &self,
        level: usize,
        target_size: usize,
    ) -> Result<Vec<Vec<String>>> {
        self.inner.get_level_candidates(level, target_size).await
    }
    async fn create_compaction_job(&self, job: CompactionJob) -> Result<()> {
        self.inner.create_compaction_job(job).await
    }
    async fn complete_compaction(&self, source_chunks: &[String], target_chunk: &str) -> Result<()> {
        self.log
            .lock()
            .unwrap()
            .swaps
            .push((source_chunks.to_vec(), target_chunk.to_string()));
        self.inner.complete_compaction(source_chunks, target_chunk).await
    }
    async fn update_compaction_status(&self, job_id: &str, status: CompactionStatus) -> Result<()> {
        self.inner.update_compaction_status(job_id, status).await
    }
    async fn get_pending_compaction_jobs(&self) -> Result<Vec<CompactionJob>> {
        self.inner.get_pending_compaction_jobs().await
    }
    async fn cleanup_completed_jobs(&self, max_age_secs: i64) -> Result<usize> {
        self.inner.cleanup_completed_jobs(max_age_secs).await
    }
    async fn start_split(&self, old_shard: &str, new_shards: Vec<String>, split_point: Vec<u8>) -> Result<()> {
        self.inner.start_split(old_shard, new_shards, split_point).await
    }
    async fn get_split_state(&self, shard_id: &str) -> Result<Option<SplitState>> {
        self.inner.get_split_state(shard_id).await
    }
    async fn update_split_progress(&self, shard_id: &str, progress: f64, phase: SplitPhase) -> Result<()> {
        self.inner.update_split_progress(shard_id, progress, phase).await
    }
    async fn complete_split(&self, old_shard: &str) -> Result<()> {
        self.inner.complete_split(old_shard).await
    }
    async fn get_chunks_for_shard(&self, shard_id: &str) -> Result<Vec<TimeIndexEntry>> {
        self.inner.get_chunks_for_shard(shard_id).await
    }
    async fn get_shard_metadata(&self, shard_id: &str) -> Result<Option<ShardMetadata>> {
        self.inner.get_shard_metadata(shard_id).await
    }
    async fn update_shard_metadata(&self, shard_id: &str, metadata: &ShardMetadata, expected_generation: u64) -> Result<()> {
        self.inner.update_shard_metadata(shard_id, metadata, expected_generation).await
    }
    async fn acquire_lease(&self, node_id: &str, chunks: &[String], level: u32) -> Result<CompactionLease> {
        self.log.lock().unwrap().leased.push((level, chunks.to_vec()));
        self.inner.acquire_lease(node_id, chunks, level).await
    }
    async fn complete_lease(&self, lease_id: &str) -> Result<()> {
        self.inner.complete_lease(lease_id).await
    }
    async fn fail_lease(&self, lease_id: &str) -> Result<()> {
        self.inner.fail_lease(lease_id).await
    }
    async fn renew_lease(&self, lease_id: &str) -> Result<()> {
        self.inner.renew_lease(lease_id).await
    }
    async fn load_leases(&self) -> Result<CompactionLeases> {
        self.inner.load_leases().await
    }
    async fn scavenge_leases(&self) -> Result<usize> {
        self.inner.scavenge_leases().await
    }
    async fn has_active_split(&self) -> Result<bool> {
        self.inner.has_active_split().await
    }
}

fn parquet_bytes(timestamps: Vec<i64>) -> Vec<u8> {
    let schema = Arc::new(Schema::new(vec![
        Field::new(
            "timestamp",
            DataType::Timestamp(TimeUnit::Nanosecond, Some("UTC".into())),
            false,
        ),
        Field::new("value_f64", DataType::Float64, true),
    ]));
    let values: Vec<f64> = timestamps.iter().map(|t| *t as f64).collect();
    let batch = RecordBatch::try_new(
        schema.clone(),
        vec![
            Arc::new(TimestampNanosecondArray::from(timestamps).with_timezone("UTC")),
            Arc::new(Float64Array::from(values)),
        ],
    )
    .unwrap();
    let mut buffer = Vec::new();
    {
        let mut writer = ArrowWriter::try_new(&mut buffer, schema, None).unwrap();
        writer.write(&batch).unwrap();
        writer.close().unwrap();
    }
    buffer
}

struct Lcg(u64);
impl Lcg {
    fn next(&mut self, n: u64) -> u64 {
        self.0 = self.0.wrapping_mul(6364136223846793005).wrapping_add(1442695040888963407);
        (self.0 >> 33) % n
    }
}

/// level of every chunk in the catalog, as far as the public API tells
async fn levels(meta: &Arc<dyn MetadataClient>, max_levels: usize) -> BTreeMap<String, u32> {
    let mut out = BTreeMap::new();
    for g in meta.get_l0_candidates(1).await.unwrap() {
        for p in g {
            out.insert(p, 0);
        }
    }
    for l in 1..=(max_levels + 2) {
        for g in meta.get_level_candidates(l, 0).await.unwrap() {
            for p in g {
                out.insert(p, l as u32);
            }
        }
    }
    out
}

async fn run_case(s3: bool, seed: u64, cfg: CompactorConfig, n_chunks: usize, hours: u64) {
    let store: Arc<dyn ObjectStore> = Arc::new(InMemory::new());
    let inner: Arc<dyn MetadataClient> = if s3 {
        Arc::new(S3MetadataClient::new(
            store.clone(),
            S3MetadataConfig {
                bucket: "b".into(),
                metadata_prefix: "meta/".into(),
                enable_cache: false,
                allow_unsafe_overwrite: false,
            },
        ))
    } else {
        Arc::new(LocalMetadataClient::new())
    };
    let rec = Arc::new(Recorder {
        inner: inner.clone(),
        log: Mutex::new(Log::default()),
    });
    let meta: Arc<dyn MetadataClient> = rec.clone();

    let base = 1_700_000_000i64 * 1_000_000_000 / HOUR * HOUR;
    let mut rng = Lcg(seed);
    let mut total_rows = 0usize;
    for i in 0..n_chunks {
        let h = rng.next(hours) as i64;
        let start = base + h * HOUR + rng.next(3_000) as i64 * 1_000_000_000;
        let span = rng.next(3) as i64; // may reach into following hours
        let rows = 1 + rng.next(50) as usize;
        let ts: Vec<i64> = (0..rows)
            .map(|r| start + (r as i64) * (1 + span * HOUR / rows as i64))
            .collect();
        total_rows += rows;
        let path = format!("t/data/c{}_{}.parquet", seed, i);
        let bytes = parquet_bytes(ts.clone());
        let md = ChunkMetadata {
            path: path.clone(),
            min_timestamp: *ts.iter().min().unwrap(),
            max_timestamp: *ts.iter().max().unwrap(),
            row_count: rows as u64,
            size_bytes: bytes.len() as u64,
        };
        store.put(&path.clone().into(), bytes.into()).await.unwrap();
        meta.register_chunk(&path, &md).await.unwrap();
    }

    let max_levels = cfg.max_levels;
    let compactor = Compactor::new(
        cfg.clone(),
        store.clone(),
        meta.clone(),
        StorageConfig::default(),
        Arc::new(ShardMonitor::new(HotShardConfig::default())),
    );

    let mut seen_level: HashMap<String, u32> = HashMap::new();
    let mut prev = levels(&inner, max_levels).await;
    for (p, l) in &prev {
        seen_level.insert(p.clone(), *l);
    }
    let mut converged_at = None;
    for cycle in 0..40 {
        rec.log.lock().unwrap().leased.clear();
        rec.log.lock().unwrap().swaps.clear();
        let before = prev.clone();
        compactor.run_compaction_cycle().await.unwrap();
        let now = levels(&inner, max_levels).await;

        // no chunk in two groups of one cycle
        let log = rec.log.lock().unwrap();
        let mut seen = HashSet::new();
        for (_, g) in &log.leased {
            for p in g {
                assert!(seen.insert(p.clone()), "chunk {} selected into two groups of cycle {}", p, cycle);
            }
        }
        // same-level merges only, level = max+1
        let mut lv = before.clone();
        for (srcs, tgt) in &log.swaps {
            let ls: HashSet<u32> = srcs.iter().filter_map(|p| lv.get(p).copied()).collect();
            let known = srcs.iter().filter(|p| lv.contains_key(*p)).count();
            if known == srcs.len() {
                assert_eq!(ls.len(), 1, "mixed-level merge in cycle {}: {:?}", cycle, srcs);
                let l = *ls.iter().next().unwrap();
                if let Some(tl) = now.get(tgt) {
                    assert_eq!(*tl, l + 1, "target level of {}", tgt);
                }
                lv.insert(tgt.clone(), l + 1);
            } else {
                println!("note: {} of {} sources with unknown level (s3={}, cycle {})", srcs.len() - known, srcs.len(), s3, cycle);
            }
        }
        drop(log);
        for (p, l) in &now {
            if let Some(old) = seen_level.get(p) {
                assert!(*l >= *old, "level of {} decreased {} -> {}", p, old, l);
            }
            seen_level.insert(p.clone(), *l);
        }
        // rows preserved
        let rows: u64 = inner.list_chunks().await.unwrap().iter().map(|c| c.row_count).sum();
        assert_eq!(rows as usize, total_rows, "row count changed in cycle {}", cycle);

        if now == prev {
            converged_at = Some(cycle);
            // one more must change nothing either
            compactor.run_compaction_cycle().await.unwrap();
            let again = levels(&inner, max_levels).await;
            assert_eq!(again, now, "a cycle after the fixed point changed the catalog");
            break;
        }
        prev = now;
    }
    let hist: BTreeMap<u32, usize> = prev.values().fold(BTreeMap::new(), |mut m, l| {
        *m.entry(*l).or_default() += 1;
        m
    });
    println!(
        "s3={} seed={} n={} hours={} thr={} -> converged at cycle {:?}, chunks per level {:?}, listed {} of {}",
        s3,
        seed,
        n_chunks,
        hours,
        cfg.l0_merge_threshold,
        converged_at,
        hist,
        prev.len(),
        inner.list_chunks().await.unwrap().len()
    );
    assert!(converged_at.is_some(), "no fixed point within 40 cycles");
}

#[tokio::test(flavor = "multi_thread", worker_threads = 4)]
async fn probe_convergence() {
    for s3 in [true, false] {
        for (seed, thr, n, hours, l1, l2, maxl) in [
            (1u64, 3usize, 30usize, 3u64, 4000usize, 8000usize, 4usize),
            (2, 1, 12, 4, 1, 1, 2),
            (3, 0, 10, 2, 0, 0, 3),
            (4, 5, 60, 2, 3000, 100_000, 4),
            (5, 2, 25, 6, 2500, 2500, 0),
            (6, 2, 25, 6, 2500, 2500, 1),
            (7, 4, 50, 1, usize::MAX / 8, usize::MAX / 8, 6),
        ] {
            let cfg = CompactorConfig {
                l0_merge_threshold: thr,
                l1_target_size: l1,
                l2_target_size: l2,
                max_levels: maxl,
                gc_grace_period: Duration::from_secs(3600),
                sharding_enabled: false,
                retention_days: 50_000,
                ..Default::default()
            };
            run_case(s3, seed, cfg, n, hours).await;
        }
    }
}
