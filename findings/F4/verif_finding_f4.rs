//! Known finding F4: a failed flush drops acknowledged rows.
//!
//! `Ingester::append_to_buffer_and_maybe_flush` (and the timer / shutdown paths of
//! `run_flush_timer`) call `buffer.take()` and then `flush_batches(batches).await?`.
//! When `flush_batches` fails (object store `put` fails, `register_chunk` fails, ...)
//! the taken batches are dropped: they are neither in the buffer nor in the catalog.
//! The WAL still holds them, but the next *successful* flush reads `last_wal_seq`
//! (which is past them) and persists it as the flushed sequence, so recovery after a
//! restart (`ensure_wal` -> `read_entries_after(flushed_seq)`) skips them as well.
//!
//! Required behaviour: once `write()` returned `Ok`, every row of that write is, after
//! any later failed or retried flush, either in a registered chunk or still in the
//! ingester's buffer (or recovered into it after a restart).
//!
//! These tests assert the required behaviour and therefore FAIL on the current code.

use arrow_array::types::TimestampNanosecondType;
use arrow_array::{Int64Array, PrimitiveArray, RecordBatch};
use arrow_schema::{DataType, Field, Schema, TimeUnit};
use async_trait::async_trait;
use bytes::Bytes;
use cardinalsin::ingester::{Ingester, IngesterConfig, WalConfig, WalSyncMode};
use cardinalsin::metadata::{LocalMetadataClient, MetadataClient};
use cardinalsin::schema::MetricSchema;
use cardinalsin::{CloudProvider, StorageConfig};
use futures::stream::BoxStream;
use object_store::memory::InMemory;
use object_store::{
    path::Path, GetOptions, GetResult, ListResult, MultipartUpload, ObjectMeta, ObjectStore,
    PutMultipartOpts, PutOptions, PutPayload, PutResult, Result as ObjectStoreResult,
};
use std::fmt;
use std::ops::Range;
use std::sync::atomic::{AtomicBool, AtomicUsize, Ordering};
use std::sync::Arc;
use tempfile::TempDir;

// ---------------------------------------------------------------------------
// Object store whose uploads fail while `fail_puts` is set. Everything else is
// delegated to an in-memory store (same pattern as src/query/cached_store.rs).
// ---------------------------------------------------------------------------

struct FlakyStore {
    inner: Arc<InMemory>,
    fail_puts: AtomicBool,
    failed_puts: AtomicUsize,
    ok_puts: AtomicUsize,
}

impl FlakyStore {
    fn new() -> Self {
        Self {
            inner: Arc::new(InMemory::new()),
            fail_puts: AtomicBool::new(false),
            failed_puts: AtomicUsize::new(0),
            ok_puts: AtomicUsize::new(0),
        }
    }

    fn check(&self) -> ObjectStoreResult<()> {
        if self.fail_puts.load(Ordering::SeqCst) {
            self.failed_puts.fetch_add(1, Ordering::SeqCst);
            return Err(object_store::Error::Generic {
                store: "FlakyStore",
                source: "injected upload failure".into(),
            });
        }
        self.ok_puts.fetch_add(1, Ordering::SeqCst);
        Ok(())
    }
}

impl fmt::Display for FlakyStore {
    fn fmt(&self, f: &mut fmt::Formatter<'_>) -> fmt::Result {
        write!(f, "FlakyStore({})", self.inner)
    }
}

impl fmt::Debug for FlakyStore {
    fn fmt(&self, f: &mut fmt::Formatter<'_>) -> fmt::Result {
        f.debug_struct("FlakyStore").finish()
    }
}

#[async_trait]
impl ObjectStore for FlakyStore {
    async fn put(&self, location: &Path, bytes: PutPayload) -> ObjectStoreResult<PutResult> {
        self.check()?;
        self.inner.put(location, bytes).await
    }

    async fn put_opts(
        &self,
        location: &Path,
        bytes: PutPayload,
        opts: PutOptions,
    ) -> ObjectStoreResult<PutResult> {
        self.check()?;
        self.inner.put_opts(location, bytes, opts).await
    }

    async fn put_multipart(&self, location: &Path) -> ObjectStoreResult<Box<dyn MultipartUpload>> {
        self.inner.put_multipart(location).await
    }

    async fn put_multipart_opts(
        &self,
        location: &Path,
        opts: PutMultipartOpts,
    ) -> ObjectStoreResult<Box<dyn MultipartUpload>> {
        self.inner.put_multipart_opts(location, opts).await
    }

    async fn get(&self, location: &Path) -> ObjectStoreResult<GetResult> {
        self.inner.get(location).await
    }

    async fn get_opts(&self, location: &Path, options: GetOptions) -> ObjectStoreResult<GetResult> {
        self.inner.get_opts(location, options).await
    }

    async fn get_range(&self, location: &Path, range: Range<usize>) -> ObjectStoreResult<Bytes> {
        self.inner.get_range(location, range).await
    }

    async fn head(&self, location: &Path) -> ObjectStoreResult<ObjectMeta> {
        self.inner.head(location).await
    }

    async fn delete(&self, location: &Path) -> ObjectStoreResult<()> {
        self.inner.delete(location).await
    }

    fn list(&self, prefix: Option<&Path>) -> BoxStream<'_, ObjectStoreResult<ObjectMeta>> {
        self.inner.list(prefix)
    }

    fn list_with_offset(
        &self,
        prefix: Option<&Path>,
        offset: &Path,
    ) -> BoxStream<'_, ObjectStoreResult<ObjectMeta>> {
        self.inner.list_with_offset(prefix, offset)
    }

    async fn list_with_delimiter(&self, prefix: Option<&Path>) -> ObjectStoreResult<ListResult> {
        self.inner.list_with_delimiter(prefix).await
    }

    async fn copy(&self, from: &Path, to: &Path) -> ObjectStoreResult<()> {
        self.inner.copy(from, to).await
    }

    async fn rename(&self, from: &Path, to: &Path) -> ObjectStoreResult<()> {
        self.inner.rename(from, to).await
    }

    async fn copy_if_not_exists(&self, from: &Path, to: &Path) -> ObjectStoreResult<()> {
        self.inner.copy_if_not_exists(from, to).await
    }
}

// ---------------------------------------------------------------------------
// Helpers
// ---------------------------------------------------------------------------

const FLUSH_ROWS: usize = 10;
const ROWS_A: usize = 6; // below the threshold
const ROWS_B: usize = 6; // A + B crosses the threshold -> flush (fails)
const ROWS_C: usize = 12; // crosses the threshold on its own -> flush (succeeds)

const TS_A: i64 = 1_000_000_000_000;
const TS_B: i64 = 2_000_000_000_000;
const TS_C: i64 = 3_000_000_000_000;

/// `rows` rows with timestamps `start, start+1, ...` (distinct per batch).
fn make_batch(start: i64, rows: usize) -> RecordBatch {
    let schema = Arc::new(Schema::new(vec![
        Field::new(
            "timestamp",
            DataType::Timestamp(TimeUnit::Nanosecond, None),
            false,
        ),
        Field::new("value", DataType::Int64, false),
    ]));
    let ts: Vec<i64> = (0..rows as i64).map(|i| start + i).collect();
    RecordBatch::try_new(
        schema,
        vec![
            Arc::new(PrimitiveArray::<TimestampNanosecondType>::from(ts.clone())),
            Arc::new(Int64Array::from(ts)),
        ],
    )
    .unwrap()
}

fn make_config(dir: &TempDir) -> IngesterConfig {
    IngesterConfig {
        flush_row_count: FLUSH_ROWS,
        flush_size_bytes: 100 * 1024 * 1024,
        wal: WalConfig {
            wal_dir: dir.path().to_path_buf(),
            max_segment_size: 64 * 1024 * 1024,
            sync_mode: WalSyncMode::EveryWrite,
            enabled: true,
        },
        ..Default::default()
    }
}

fn make_ingester(
    dir: &TempDir,
    store: Arc<FlakyStore>,
    metadata: Arc<LocalMetadataClient>,
) -> Ingester {
    let storage_config = StorageConfig {
        provider: CloudProvider::Memory,
        container: "test-bucket".to_string(),
        tenant_id: "test-tenant".to_string(),
    };
    Ingester::new(
        make_config(dir),
        store as Arc<dyn ObjectStore>,
        metadata as Arc<dyn MetadataClient>,
        storage_config,
        MetricSchema::default_metrics(),
    )
}

async fn rows_in_catalog(metadata: &LocalMetadataClient) -> usize {
    let chunks = metadata.list_chunks().await.unwrap();
    for c in &chunks {
        eprintln!(
            "  chunk rows={} ts=[{}, {}] {}",
            c.row_count, c.min_timestamp, c.max_timestamp, c.chunk_path
        );
    }
    chunks.iter().map(|c| c.row_count as usize).sum()
}

/// The history: write A (Ok), upload failure, write B (Err), recovery of the store,
/// write C (Ok, flushes). Returns the ingester after C.
async fn run_history(
    dir: &TempDir,
    store: &Arc<FlakyStore>,
    metadata: &Arc<LocalMetadataClient>,
) -> Ingester {
    let mut ingester = make_ingester(dir, store.clone(), metadata.clone());
    ingester.ensure_wal().await.unwrap();

    // A: below the threshold, acknowledged, only in WAL + buffer.
    ingester
        .write(make_batch(TS_A, ROWS_A))
        .await
        .expect("write A must be acknowledged");
    assert_eq!(ingester.buffer_stats().await.row_count, ROWS_A);
    assert_eq!(store.ok_puts.load(Ordering::SeqCst), 0);

    // B: crosses the threshold while the object store is failing.
    store.fail_puts.store(true, Ordering::SeqCst);
    let res_b = ingester.write(make_batch(TS_B, ROWS_B)).await;
    assert!(
        res_b.is_err(),
        "write B triggers a flush whose upload fails; it is not acknowledged"
    );
    assert_eq!(store.failed_puts.load(Ordering::SeqCst), 1);
    eprintln!(
        "after failed flush: buffer rows = {}, catalog rows = {}",
        ingester.buffer_stats().await.row_count,
        rows_in_catalog(metadata).await
    );

    // C: the object store works again; C alone crosses the threshold -> successful flush.
    store.fail_puts.store(false, Ordering::SeqCst);
    ingester
        .write(make_batch(TS_C, ROWS_C))
        .await
        .expect("write C must be acknowledged");
    assert!(store.ok_puts.load(Ordering::SeqCst) >= 1, "C must have flushed");

    ingester
}

// ---------------------------------------------------------------------------
// Tests (assert the required behaviour; fail on the current code)
// ---------------------------------------------------------------------------

/// After the failed flush and the next successful one, the acknowledged rows of A
/// must be in a registered chunk or still in the buffer.
#[tokio::test]
async fn f4_acknowledged_rows_survive_a_failed_flush() {
    let dir = TempDir::new().unwrap();
    let store = Arc::new(FlakyStore::new());
    let metadata = Arc::new(LocalMetadataClient::new());

    let ingester = run_history(&dir, &store, &metadata).await;

    let in_chunks = rows_in_catalog(&metadata).await;
    let in_buffer = ingester.buffer_stats().await.row_count;
    eprintln!("live ingester: rows in chunks = {in_chunks}, rows in buffer = {in_buffer}");

    assert!(
        in_chunks + in_buffer >= ROWS_A + ROWS_C,
        "F4: acknowledged rows lost after a failed flush: chunks({in_chunks}) + buffer({in_buffer}) \
         = {} < rows(A)={ROWS_A} + rows(C)={ROWS_C} = {}",
        in_chunks + in_buffer,
        ROWS_A + ROWS_C
    );
}

/// Same history, then a restart on the same WAL directory / catalog / store: the
/// acknowledged rows of A must be in a registered chunk or in the recovered buffer.
#[tokio::test]
async fn f4_acknowledged_rows_survive_a_failed_flush_and_restart() {
    let dir = TempDir::new().unwrap();
    let store = Arc::new(FlakyStore::new());
    let metadata = Arc::new(LocalMetadataClient::new());

    let ingester = run_history(&dir, &store, &metadata).await;
    drop(ingester);

    eprintln!(
        "persisted flushed seq before restart = {}",
        cardinalsin::ingester::load_flushed_seq(dir.path()).unwrap()
    );

    let mut restarted = make_ingester(&dir, store.clone(), metadata.clone());
    restarted.ensure_wal().await.unwrap();

    let in_chunks = rows_in_catalog(&metadata).await;
    let recovered = restarted.buffer_stats().await.row_count;
    eprintln!("after restart: rows in chunks = {in_chunks}, rows recovered into buffer = {recovered}");

    assert!(
        in_chunks + recovered >= ROWS_A + ROWS_C,
        "F4: acknowledged rows not recovered after restart: chunks({in_chunks}) + recovered \
         buffer({recovered}) = {} < rows(A)={ROWS_A} + rows(C)={ROWS_C} = {}",
        in_chunks + recovered,
        ROWS_A + ROWS_C
    );
}

/// Control (passes on the current code): the same writes with a healthy object store.
/// A+B flush as one chunk, C as another; nothing is lost. Shows that the failures
/// above are caused by the failed flush, not by the harness.
#[tokio::test]
async fn f4_control_no_upload_failure_no_loss() {
    let dir = TempDir::new().unwrap();
    let store = Arc::new(FlakyStore::new());
    let metadata = Arc::new(LocalMetadataClient::new());

    let mut ingester = make_ingester(&dir, store.clone(), metadata.clone());
    ingester.ensure_wal().await.unwrap();
    ingester.write(make_batch(TS_A, ROWS_A)).await.unwrap();
    ingester.write(make_batch(TS_B, ROWS_B)).await.unwrap();
    ingester.write(make_batch(TS_C, ROWS_C)).await.unwrap();

    let in_chunks = rows_in_catalog(&metadata).await;
    let in_buffer = ingester.buffer_stats().await.row_count;
    assert_eq!(in_chunks + in_buffer, ROWS_A + ROWS_B + ROWS_C);
}
