use arrow_array::cast::AsArray;
use arrow_array::types::{Int64Type, TimestampNanosecondType};
use arrow_array::{Array, Int64Array, RecordBatch, StringArray};
use arrow_schema::{DataType, Field, Schema, TimeUnit};
use bytes::Bytes;
use cardinalsin::ingester::{Ingester, IngesterConfig, TopicFilter, WalConfig};
use cardinalsin::metadata::{LocalMetadataClient, MetadataClient};
use cardinalsin::schema::MetricSchema;
use cardinalsin::{CloudProvider, StorageConfig};
use object_store::memory::InMemory;
use object_store::path::Path;
use object_store::ObjectStore;
use parquet::arrow::arrow_reader::ParquetRecordBatchReaderBuilder;
use std::collections::BTreeMap;
use std::sync::Arc;
use std::time::Duration;

fn batch(kind: usize, writer: usize, n: usize, seq: i64) -> RecordBatch {
    // three schemas: Int64 ts, Timestamp ts, Timestamp ts + nullable label
    let ts: Vec<i64> = (0..n as i64)
        .map(|i| match (seq + i) % 7 {
            0 => -(seq + i) - 1,
            1 => 3 * 3_600_000_000_000 + seq + i,
            _ => (writer as i64) * 1_000_000_000 + seq * 1000 + i,
        })
        .collect();
    let vals: Vec<i64> = (0..n as i64).map(|i| (writer as i64) << 40 | (seq << 10) | i).collect();
    match kind {
        0 => RecordBatch::try_new(
            Arc::new(Schema::new(vec![
                Field::new("timestamp", DataType::Int64, false),
                Field::new("value", DataType::Int64, false),
            ])),
            vec![Arc::new(Int64Array::from(ts)), Arc::new(Int64Array::from(vals))],
        )
        .unwrap(),
        1 => RecordBatch::try_new(
            Arc::new(Schema::new(vec![
                Field::new("timestamp", DataType::Timestamp(TimeUnit::Nanosecond, None), false),
                Field::new("value", DataType::Int64, false),
            ])),
            vec![
                Arc::new(arrow_array::TimestampNanosecondArray::from(ts)),
                Arc::new(Int64Array::from(vals)),
            ],
        )
        .unwrap(),
        _ => {
            let labels: Vec<Option<String>> = (0..n)
                .map(|i| if i % 3 == 0 { None } else { Some(format!("h{}", i % 5)) })
                .collect();
            RecordBatch::try_new(
                Arc::new(Schema::new(vec![
                    Field::new("timestamp", DataType::Timestamp(TimeUnit::Nanosecond, None), false),
                    Field::new("value", DataType::Int64, false),
                    Field::new("host", DataType::Utf8, true),
                ])),
                vec![
                    Arc::new(arrow_array::TimestampNanosecondArray::from(ts)),
                    Arc::new(Int64Array::from(vals)),
                    Arc::new(StringArray::from(labels)),
                ],
            )
            .unwrap()
        }
    }
}

fn ts_values(b: &RecordBatch) -> Vec<i64> {
    let c = b.column_by_name("timestamp").unwrap();
    if let Some(a) = c.as_primitive_opt::<TimestampNanosecondType>() {
        a.values().to_vec()
    } else {
        c.as_primitive::<Int64Type>().values().to_vec()
    }
}

fn row_keys(b: &RecordBatch) -> Vec<String> {
    let ts = ts_values(b);
    let v = b.column_by_name("value").unwrap().as_primitive::<Int64Type>();
    let host = b.column_by_name("host").map(|c| c.as_string::<i32>().clone());
    let tstype = format!("{:?}", b.column_by_name("timestamp").unwrap().data_type());
    (0..b.num_rows())
        .map(|i| {
            let h = match &host {
                None => "-".to_string(),
                Some(a) if a.is_null(i) => "NULL".to_string(),
                Some(a) => a.value(i).to_string(),
            };
            format!("{}|{}|{}|{}", tstype, ts[i], v.value(i), h)
        })
        .collect()
}

#[tokio::test(flavor = "multi_thread", worker_threads = 8)]
async fn stress_fault_free_ingest_is_exact() {
    for round in 0..5 {
        let store: Arc<dyn ObjectStore> = Arc::new(InMemory::new());
        let metadata: Arc<dyn MetadataClient> = Arc::new(LocalMetadataClient::new());
        let config = IngesterConfig {
            flush_row_count: 7 + round * 13,
            flush_size_bytes: 1 << 30,
            flush_interval: Duration::from_millis(2),
            wal: WalConfig { enabled: false, ..Default::default() },
            ..Default::default()
        };
        let ing = Arc::new(Ingester::new(
            config,
            store.clone(),
            metadata.clone(),
            StorageConfig {
                provider: CloudProvider::Memory,
                container: "b".into(),
                tenant_id: "t".into(),
            },
            MetricSchema::default_metrics(),
        ));
        let mut legacy = ing.subscribe();
        let mut topic = ing.subscribe_filtered(TopicFilter::All).await;
        let timer = {
            let ing = ing.clone();
            tokio::spawn(async move { ing.run_flush_timer().await })
        };
        let mut tasks = Vec::new();
        for w in 0..8usize {
            let ing = ing.clone();
            tasks.push(tokio::spawn(async move {
                let mut keys = Vec::new();
                for s in 0..150i64 {
                    let b = batch(((w as i64 + s) % 3) as usize, w, 1 + ((s as usize * 7 + w) % 9), s);
                    let k = row_keys(&b);
                    ing.write(b).await.unwrap();
                    keys.extend(k);
                    if s % 11 == 0 {
                        tokio::task::yield_now().await;
                    }
                }
                keys
            }));
        }
        let mut accepted: BTreeMap<String, usize> = BTreeMap::new();
        for t in tasks {
            for k in t.await.unwrap() {
                *accepted.entry(k).or_insert(0) += 1;
            }
        }
        ing.shutdown_token().cancel();
        timer.await.unwrap();
        assert_eq!(ing.buffer_stats().await.row_count, 0);

        let chunks = metadata.list_chunks().await.unwrap();
        let mut stored: BTreeMap<String, usize> = BTreeMap::new();
        for e in &chunks {
            let bytes: Bytes = store.get(&Path::from(e.chunk_path.as_str())).await.unwrap().bytes().await.unwrap();
            assert_eq!(bytes.len() as u64, e.size_bytes);
            let mut rows = 0u64;
            let mut mn = i64::MAX;
            let mut mx = i64::MIN;
            for b in ParquetRecordBatchReaderBuilder::try_new(bytes).unwrap().build().unwrap() {
                let b = b.unwrap();
                rows += b.num_rows() as u64;
                for t in ts_values(&b) {
                    mn = mn.min(t);
                    mx = mx.max(t);
                }
                for k in row_keys(&b) {
                    *stored.entry(k).or_insert(0) += 1;
                }
            }
            assert_eq!(rows, e.row_count, "row_count");
            assert_eq!(mn, e.min_timestamp, "min");
            assert_eq!(mx, e.max_timestamp, "max");
        }
        assert!(stored == accepted, "round {round}: stored != accepted ({} vs {})", stored.values().sum::<usize>(), accepted.values().sum::<usize>());
        let mut n_legacy = 0;
        while let Ok(_b) = legacy.try_recv() {
            n_legacy += 1;
        }
        let mut n_topic = 0;
        while let Ok(Ok(_b)) = tokio::time::timeout(Duration::from_millis(50), topic.recv()).await {
            n_topic += 1;
        }
        eprintln!("round {round}: chunks={} legacy={} topic={} rows={}", chunks.len(), n_legacy, n_topic, stored.values().sum::<usize>());
        assert_eq!(n_legacy, chunks.len().min(1024));
        assert_eq!(n_topic, chunks.len().min(1024));
    }
}

#[tokio::test(flavor = "multi_thread", worker_threads = 2)]
async fn extremes_one_per_chunk() {
    let store: Arc<dyn ObjectStore> = Arc::new(InMemory::new());
    let metadata: Arc<dyn MetadataClient> = Arc::new(LocalMetadataClient::new());
    let config = IngesterConfig {
        flush_row_count: 2,
        flush_interval: Duration::from_secs(3600),
        wal: WalConfig { enabled: false, ..Default::default() },
        ..Default::default()
    };
    let ing = Ingester::new(
        config,
        store.clone(),
        metadata.clone(),
        StorageConfig { provider: CloudProvider::Memory, container: "b".into(), tenant_id: "t".into() },
        MetricSchema::default_metrics(),
    );
    for (a, b) in [(i64::MIN, i64::MIN + 1), (i64::MAX - 1, i64::MAX)] {
        for int in [true, false] {
            let rb = if int {
                RecordBatch::try_new(
                    Arc::new(Schema::new(vec![
                        Field::new("timestamp", DataType::Int64, false),
                        Field::new("value", DataType::Int64, false),
                    ])),
                    vec![Arc::new(Int64Array::from(vec![a, b])), Arc::new(Int64Array::from(vec![i64::MIN, i64::MAX]))],
                )
                .unwrap()
            } else {
                RecordBatch::try_new(
                    Arc::new(Schema::new(vec![
                        Field::new("timestamp", DataType::Timestamp(TimeUnit::Nanosecond, None), false),
                        Field::new("value", DataType::Int64, false),
                    ])),
                    vec![
                        Arc::new(arrow_array::TimestampNanosecondArray::from(vec![a, b])),
                        Arc::new(Int64Array::from(vec![i64::MIN, i64::MAX])),
                    ],
                )
                .unwrap()
            };
            ing.write(rb).await.unwrap();
        }
    }
    let chunks = metadata.list_chunks().await.unwrap();
    assert_eq!(chunks.len(), 4);
    for e in chunks {
        let bytes: Bytes = store.get(&Path::from(e.chunk_path.as_str())).await.unwrap().bytes().await.unwrap();
        let mut mn = i64::MAX;
        let mut mx = i64::MIN;
        for b in ParquetRecordBatchReaderBuilder::try_new(bytes).unwrap().build().unwrap() {
            let b = b.unwrap();
            for t in ts_values(&b) {
                mn = mn.min(t);
                mx = mx.max(t);
            }
            let v = b.column_by_name("value").unwrap().as_primitive::<Int64Type>();
            assert_eq!(v.values().to_vec(), vec![i64::MIN, i64::MAX]);
        }
        assert_eq!((mn, mx, 2), (e.min_timestamp, e.max_timestamp, e.row_count));
    }
}
