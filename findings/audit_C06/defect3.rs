//! C06 audit, defect 3: batches that are each valid, have the SAME schema and were each
//! accepted can be impossible to concatenate; the flush then fails without any storage
//! error and the accepted rows are gone.
//!
//! `flush_batches` turns the buffered batches into ONE RecordBatch with
//! `arrow::compute::concat_batches` before it encodes them.  For a dictionary-encoded label
//! column (the schema module's own model: `Dictionary(UInt16, Utf8)` for low-cardinality
//! labels) the concatenated column needs one dictionary for the union of all values.  Every
//! single batch fits its key type, the union does not: concat returns
//! `DictionaryKeyOverflowError`, `flush_batches` returns before anything is uploaded, and the
//! batches it was handed (already `take()`n out of the buffer) are dropped.  The first writer
//! was answered Ok.
//!
//! The test uses Int8 keys (127 values) to stay small; with UInt16 keys the same happens
//! once the batches of one flush window (default 1M rows) carry more than 65 535 distinct
//! values between them.

use arrow_array::cast::AsArray;
use arrow_array::types::{Int64Type, Int8Type, TimestampNanosecondType};
use arrow_array::{Array, DictionaryArray, Int64Array, Int8Array, RecordBatch, StringArray};
use arrow_schema::{DataType, Field, Schema, TimeUnit};
use bytes::Bytes;
use cardinalsin::ingester::{Ingester, IngesterConfig, WalConfig};
use cardinalsin::metadata::{LocalMetadataClient, MetadataClient};
use cardinalsin::schema::MetricSchema;
use cardinalsin::{CloudProvider, StorageConfig};
use object_store::memory::InMemory;
use object_store::path::Path;
use object_store::ObjectStore;
use parquet::arrow::arrow_reader::ParquetRecordBatchReaderBuilder;
use std::collections::BTreeMap;
use std::sync::Arc;
use std::time::Duration;

/// 100 rows, label `host` dictionary-encoded with Int8 keys, 100 distinct values
/// "<prefix>-0" .. "<prefix>-99" (an Int8 dictionary holds up to 128).
fn batch(prefix: &str, ts0: i64) -> RecordBatch {
    let schema = Arc::new(Schema::new(vec![
        Field::new(
            "timestamp",
            DataType::Timestamp(TimeUnit::Nanosecond, None),
            false,
        ),
        Field::new(
            "host",
            DataType::Dictionary(Box::new(DataType::Int8), Box::new(DataType::Utf8)),
            true,
        ),
        Field::new("value", DataType::Int64, false),
    ]));
    let n = 100usize;
    let ts: Vec<i64> = (0..n as i64).map(|i| ts0 + i).collect();
    let values = StringArray::from((0..n).map(|i| format!("{prefix}-{i}")).collect::<Vec<_>>());
    let keys = Int8Array::from((0..n as i8).collect::<Vec<_>>());
    let host = DictionaryArray::<Int8Type>::try_new(keys, Arc::new(values)).unwrap();
    RecordBatch::try_new(
        schema,
        vec![
            Arc::new(arrow_array::PrimitiveArray::<TimestampNanosecondType>::from(ts.clone())),
            Arc::new(host),
            Arc::new(Int64Array::from(ts)),
        ],
    )
    .unwrap()
}

fn row_keys(batch: &RecordBatch) -> Vec<String> {
    let ts = batch
        .column_by_name("timestamp")
        .unwrap()
        .as_primitive::<TimestampNanosecondType>();
    let host = arrow::compute::cast(batch.column_by_name("host").unwrap(), &DataType::Utf8).unwrap();
    let host = host.as_string::<i32>();
    let v = batch
        .column_by_name("value")
        .unwrap()
        .as_primitive::<Int64Type>();
    (0..batch.num_rows())
        .map(|i| {
            let h = if host.is_null(i) { "NULL" } else { host.value(i) };
            format!("{}|{}|{}", ts.value(i), h, v.value(i))
        })
        .collect()
}

fn multiset(keys: impl IntoIterator<Item = String>) -> BTreeMap<String, usize> {
    let mut m = BTreeMap::new();
    for k in keys {
        *m.entry(k).or_insert(0) += 1;
    }
    m
}

async fn stored_rows(
    store: &Arc<dyn ObjectStore>,
    metadata: &Arc<dyn MetadataClient>,
) -> BTreeMap<String, usize> {
    let mut keys = Vec::new();
    for entry in metadata.list_chunks().await.unwrap() {
        let bytes: Bytes = store
            .get(&Path::from(entry.chunk_path.as_str()))
            .await
            .unwrap()
            .bytes()
            .await
            .unwrap();
        let reader = ParquetRecordBatchReaderBuilder::try_new(bytes)
            .unwrap()
            .build()
            .unwrap();
        for b in reader {
            keys.extend(row_keys(&b.unwrap()));
        }
    }
    multiset(keys)
}

fn ingester(
    flush_row_count: usize,
    store: Arc<dyn ObjectStore>,
    metadata: Arc<dyn MetadataClient>,
) -> Arc<Ingester> {
    let config = IngesterConfig {
        flush_row_count,
        flush_size_bytes: 1 << 30,
        flush_interval: Duration::from_secs(3600),
        wal: WalConfig {
            enabled: false,
            ..Default::default()
        },
        ..Default::default()
    };
    let storage_config = StorageConfig {
        provider: CloudProvider::Memory,
        container: "bucket".to_string(),
        tenant_id: "tenant".to_string(),
    };
    Arc::new(Ingester::new(
        config,
        store,
        metadata,
        storage_config,
        MetricSchema::default_metrics(),
    ))
}

#[tokio::test(flavor = "multi_thread", worker_threads = 2)]
async fn accepted_rows_vanish_when_same_schema_batches_cannot_be_concatenated() {
    let store: Arc<dyn ObjectStore> = Arc::new(InMemory::new());
    let metadata: Arc<dyn MetadataClient> = Arc::new(LocalMetadataClient::new());
    // the second 100-row write reaches the row threshold and flushes both batches
    let ing = ingester(200, store.clone(), metadata.clone());

    let w1 = batch("east", 1_000);
    let w2 = batch("west", 5_000);
    assert_eq!(w1.schema(), w2.schema(), "same schema: both go into one buffer");

    let mut accepted = Vec::new();
    ing.write(w1.clone()).await.expect("write 1 accepted");
    accepted.extend(row_keys(&w1));

    // No storage error, no crash, no split - the object store and the catalog are plain
    // in-memory implementations that never fail.
    let second = ing.write(w2.clone()).await;
    eprintln!("second write answered: {second:?}");
    if second.is_ok() {
        accepted.extend(row_keys(&w2));
    }
    let accepted = multiset(accepted);

    let stats = ing.buffer_stats().await;
    eprintln!(
        "buffer after the threshold flush: {} rows in {} batches",
        stats.row_count, stats.batch_count
    );

    // flush whatever might still be buffered
    ing.shutdown_token().cancel();
    tokio::time::timeout(Duration::from_secs(10), ing.run_flush_timer())
        .await
        .unwrap();

    let stored = stored_rows(&store, &metadata).await;
    let missing: usize = accepted
        .iter()
        .map(|(k, n)| n.saturating_sub(stored.get(k).copied().unwrap_or(0)))
        .sum();
    assert!(
        stored == accepted,
        "C06 violated (rows missing) with no storage error: write 1 was answered Ok, the \
         buffer has been flushed and is empty, but {missing} of its {} rows are in no registered \
         chunk ({} chunks registered). The flush failed on input alone: second write answered \
         {second:?}",
        accepted.values().sum::<usize>(),
        metadata.list_chunks().await.unwrap().len(),
    );
}

/// Control: the same two batches flushed one per chunk are stored exactly - each batch is
/// fine on its own, the schema and the Parquet encoding are not the problem.
#[tokio::test(flavor = "multi_thread", worker_threads = 2)]
async fn control_each_batch_alone_is_stored_exactly() {
    let store: Arc<dyn ObjectStore> = Arc::new(InMemory::new());
    let metadata: Arc<dyn MetadataClient> = Arc::new(LocalMetadataClient::new());
    let ing = ingester(100, store.clone(), metadata.clone());

    let w1 = batch("east", 1_000);
    let w2 = batch("west", 5_000);
    ing.write(w1.clone()).await.unwrap();
    ing.write(w2.clone()).await.unwrap();

    let accepted = multiset(row_keys(&w1).into_iter().chain(row_keys(&w2)));
    assert_eq!(stored_rows(&store, &metadata).await, accepted);
}

/// The same with the key type the schema module itself uses for labels,
/// `Dictionary(UInt16, Utf8)` (65 536 values), and with batches that all carry the SAME
/// 45 000 label values: the union of the dictionaries has 45 000 entries and fits easily.
/// arrow's dictionary merge (arrow-select 53, `merge_dictionary_values`) is "best effort":
/// its interner has no collision chains, values that share a bucket are re-added for every
/// batch, and the merged dictionary overflows UInt16 although the data does not.
#[tokio::test(flavor = "multi_thread", worker_threads = 2)]
async fn uint16_labels_identical_in_every_batch_still_fail_to_flush() {
    use arrow_array::types::UInt16Type;
    use arrow_array::UInt16Array;

    fn batch16(ts0: i64) -> RecordBatch {
        let schema = Arc::new(Schema::new(vec![
            Field::new(
                "timestamp",
                DataType::Timestamp(TimeUnit::Nanosecond, None),
                false,
            ),
            Field::new(
                "host",
                DataType::Dictionary(Box::new(DataType::UInt16), Box::new(DataType::Utf8)),
                true,
            ),
            Field::new("value", DataType::Int64, false),
        ]));
        let n = 45_000usize;
        let ts: Vec<i64> = (0..n as i64).map(|i| ts0 + i).collect();
        let values = StringArray::from((0..n).map(|i| format!("host-{i}")).collect::<Vec<_>>());
        let keys = UInt16Array::from((0..n as u16).collect::<Vec<_>>());
        let host = DictionaryArray::<UInt16Type>::try_new(keys, Arc::new(values)).unwrap();
        RecordBatch::try_new(
            schema,
            vec![
                Arc::new(arrow_array::PrimitiveArray::<TimestampNanosecondType>::from(ts.clone())),
                Arc::new(host),
                Arc::new(Int64Array::from(ts)),
            ],
        )
        .unwrap()
    }

    const WRITES: usize = 8;
    let store: Arc<dyn ObjectStore> = Arc::new(InMemory::new());
    let metadata: Arc<dyn MetadataClient> = Arc::new(LocalMetadataClient::new());
    // the 8th write reaches the row threshold (360 000 rows; the default would be 1M) and
    // flushes inline, so that the flush error is visible in its answer
    let ing = ingester(WRITES * 45_000, store.clone(), metadata.clone());

    let mut accepted_rows = 0usize;
    let mut last_answer = String::new();
    for w in 0..WRITES {
        match ing.write(batch16(1_000_000_000 * (w as i64 + 1))).await {
            Ok(()) => accepted_rows += 45_000,
            Err(e) => {
                assert_eq!(w, WRITES - 1, "only the flushing write can be answered Err");
                last_answer = format!("{e:?}");
            }
        }
    }
    eprintln!("answer to the write that flushed: Err({last_answer})");
    assert_eq!(ing.buffer_stats().await.row_count, 0, "buffer was taken");

    let chunks = metadata.list_chunks().await.unwrap();
    let stored_rows: u64 = chunks.iter().map(|c| c.row_count).sum();
    assert!(
        stored_rows as usize == accepted_rows,
        "C06 violated (rows missing) with no storage error: {} writes of 45 000 rows were \
         answered Ok, every batch labelled with the same 45 000 hosts in a Dictionary(UInt16, \
         Utf8) column (the union fits the key type); the buffer has been flushed and is empty, \
         the catalog lists {} chunks with {stored_rows} rows instead of {accepted_rows}. \
         flush error: {last_answer}",
        accepted_rows / 45_000,
        chunks.len(),
    );
}
