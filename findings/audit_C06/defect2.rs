//! C06 audit, defect 2: a write that was REJECTED with `Error::BufferFull` is stored after
//! the next (graceful) restart.
//!
//! `Ingester::write` appends the batch to the WAL first and only afterwards lets
//! `append_to_buffer_and_maybe_flush` decide whether the buffer has room.  When it answers
//! `Err(BufferFull)` ("back-pressure by rejecting instead of dropping") the WAL entry of the
//! rejected write stays in the log: nothing cancels it and `last_wal_seq` is not advanced over
//! it.  If no later write is accepted before the process stops, the persisted flush mark is
//! below that entry and `ensure_wal` replays it on the next start - the rows of a write whose
//! sender was told "rejected" (HTTP 500 on the remote-write endpoint, which senders retry)
//! end up in a registered chunk; with the sender's retry they are stored twice.

use arrow_array::cast::AsArray;
use arrow_array::types::{Int64Type, TimestampNanosecondType};
use arrow_array::{Int64Array, RecordBatch};
use arrow_schema::{DataType, Field, Schema, TimeUnit};
use bytes::Bytes;
use cardinalsin::ingester::{Ingester, IngesterConfig, WalConfig, WalSyncMode};
use cardinalsin::metadata::{LocalMetadataClient, MetadataClient};
use cardinalsin::schema::MetricSchema;
use cardinalsin::{CloudProvider, Error, StorageConfig};
use object_store::memory::InMemory;
use object_store::path::Path;
use object_store::ObjectStore;
use parquet::arrow::arrow_reader::ParquetRecordBatchReaderBuilder;
use std::collections::BTreeMap;
use std::sync::Arc;
use std::time::Duration;
use tempfile::TempDir;

fn batch(ts: &[i64]) -> RecordBatch {
    let schema = Arc::new(Schema::new(vec![
        Field::new(
            "timestamp",
            DataType::Timestamp(TimeUnit::Nanosecond, None),
            false,
        ),
        Field::new("value", DataType::Int64, false),
    ]));
    RecordBatch::try_new(
        schema,
        vec![
            Arc::new(arrow_array::PrimitiveArray::<TimestampNanosecondType>::from(ts.to_vec())),
            Arc::new(Int64Array::from(ts.to_vec())),
        ],
    )
    .unwrap()
}

fn row_keys(batch: &RecordBatch) -> Vec<String> {
    let ts = batch
        .column_by_name("timestamp")
        .unwrap()
        .as_primitive::<TimestampNanosecondType>();
    let v = batch
        .column_by_name("value")
        .unwrap()
        .as_primitive::<Int64Type>();
    (0..batch.num_rows())
        .map(|i| format!("{}|{}", ts.value(i), v.value(i)))
        .collect()
}

fn multiset(keys: impl IntoIterator<Item = String>) -> BTreeMap<String, usize> {
    let mut m = BTreeMap::new();
    for k in keys {
        *m.entry(k).or_insert(0) += 1;
    }
    m
}

async fn stored_rows(
    store: &Arc<dyn ObjectStore>,
    metadata: &Arc<dyn MetadataClient>,
) -> BTreeMap<String, usize> {
    let mut keys = Vec::new();
    for entry in metadata.list_chunks().await.unwrap() {
        let bytes: Bytes = store
            .get(&Path::from(entry.chunk_path.as_str()))
            .await
            .unwrap()
            .bytes()
            .await
            .unwrap();
        let reader = ParquetRecordBatchReaderBuilder::try_new(bytes)
            .unwrap()
            .build()
            .unwrap();
        for b in reader {
            keys.extend(row_keys(&b.unwrap()));
        }
    }
    multiset(keys)
}

async fn start_ingester(
    dir: &TempDir,
    max_buffer_size_bytes: usize,
    store: Arc<dyn ObjectStore>,
    metadata: Arc<dyn MetadataClient>,
) -> Arc<Ingester> {
    let config = IngesterConfig {
        flush_row_count: 1_000_000,
        flush_size_bytes: 1 << 30,
        flush_interval: Duration::from_secs(3600),
        max_buffer_size_bytes,
        wal: WalConfig {
            wal_dir: dir.path().to_path_buf(),
            max_segment_size: 64 * 1024 * 1024,
            sync_mode: WalSyncMode::None,
            enabled: true,
        },
        ..Default::default()
    };
    let storage_config = StorageConfig {
        provider: CloudProvider::Memory,
        container: "bucket".to_string(),
        tenant_id: "tenant".to_string(),
    };
    let mut ing = Ingester::new(
        config,
        store,
        metadata,
        storage_config,
        MetricSchema::default_metrics(),
    );
    ing.ensure_wal().await.unwrap();
    Arc::new(ing)
}

async fn graceful_stop(ing: Arc<Ingester>) {
    ing.shutdown_token().cancel();
    tokio::time::timeout(Duration::from_secs(10), ing.run_flush_timer())
        .await
        .expect("final flush finishes");
    assert_eq!(ing.buffer_stats().await.row_count, 0);
}

#[tokio::test(flavor = "multi_thread", worker_threads = 2)]
async fn rejected_write_is_stored_after_graceful_restart() {
    let dir = TempDir::new().unwrap();
    let store: Arc<dyn ObjectStore> = Arc::new(InMemory::new());
    let metadata: Arc<dyn MetadataClient> = Arc::new(LocalMetadataClient::new());

    let w1 = batch(&(0..100).map(|i| 1_000 + i).collect::<Vec<_>>());
    let w2 = batch(&(0..100).map(|i| 5_000 + i).collect::<Vec<_>>());
    // room for one such batch, not for two
    let max_buffer = w1.get_array_memory_size() * 3 / 2;

    let ing = start_ingester(&dir, max_buffer, store.clone(), metadata.clone()).await;

    ing.write(w1.clone()).await.expect("write 1 accepted");
    let second = ing.write(w2.clone()).await;
    assert!(
        matches!(second, Err(Error::BufferFull)),
        "write 2 is rejected with BufferFull (got {second:?})"
    );
    // Only write 1 was accepted.
    let accepted = multiset(row_keys(&w1));

    graceful_stop(ing.clone()).await;
    drop(ing);
    assert_eq!(
        stored_rows(&store, &metadata).await,
        accepted,
        "sanity: before the restart exactly the accepted rows are stored"
    );

    // Plain restart, nothing written.
    let ing2 = start_ingester(&dir, max_buffer, store.clone(), metadata.clone()).await;
    let replayed = ing2.buffer_stats().await.row_count;
    graceful_stop(ing2.clone()).await;
    drop(ing2);

    let stored = stored_rows(&store, &metadata).await;
    let rejected = multiset(row_keys(&w2));
    let resurrected: usize = stored
        .iter()
        .filter(|(k, _)| rejected.contains_key(*k))
        .map(|(_, n)| *n)
        .sum();
    assert!(
        stored == accepted,
        "C06 violated (rows stored that no accepted write contains): write 2 was answered \
         Err(BufferFull), yet after a graceful restart {resurrected} of its rows are in \
         registered chunks ({replayed} rows were replayed from the WAL). \
         stored total = {}, accepted total = {}",
        stored.values().sum::<usize>(),
        accepted.values().sum::<usize>(),
    );
}
