//! C18 defect 6: the topic metadata the ingester attaches to a flushed batch does not describe the
//! batch, so a topic-filtered subscription misses batches whose metric names / shard DO satisfy
//! its filter (and a subscription to the placeholder receives batches that do not).
//!
//!  (a) `Ingester::extract_metrics` only understands a plain Utf8 `metric_name` column. The
//!      project's own schema (`MetricSchema`, METRIC_NAME_FIELD) declares the column as
//!      Dictionary(UInt16, Utf8); for such a batch the metric list becomes ["unknown"] (and the
//!      shard id is computed from the name "unknown"). `TopicFilter::Metrics(["cpu"])` never
//!      matches, `TopicFilter::Metrics(["unknown"])` matches everything.
//!  (b) `Ingester::compute_shard_id` looks at row 0 only, so for a flushed batch with several
//!      metrics a `TopicFilter::Shard(<shard of memory>)` subscriber does not receive the batch
//!      that contains the memory rows. (Same row-0 routine as the already known split-state
//!      lookup weakness; listed here only for its effect on topic delivery.)

use arrow_array::{
    ArrayRef, DictionaryArray, Float64Array, RecordBatch, StringArray, TimestampNanosecondArray,
    UInt16Array,
};
use arrow_schema::{Field, Schema};
use cardinalsin::ingester::{Ingester, IngesterConfig, TopicFilter, WalConfig};
use cardinalsin::metadata::{LocalMetadataClient, MetadataClient};
use cardinalsin::schema::MetricSchema;
use cardinalsin::sharding::ShardKey;
use cardinalsin::StorageConfig;
use object_store::memory::InMemory;
use std::sync::Arc;
use std::time::Duration;

fn now_ns() -> i64 {
    chrono::Utc::now().timestamp_nanos_opt().unwrap()
}

fn ingester() -> Ingester {
    let metadata: Arc<dyn MetadataClient> = Arc::new(LocalMetadataClient::new());
    Ingester::new(
        IngesterConfig {
            flush_row_count: 1,
            wal: WalConfig {
                enabled: false,
                ..Default::default()
            },
            ..Default::default()
        },
        Arc::new(InMemory::new()),
        metadata,
        StorageConfig::default(),
        MetricSchema::default_metrics(),
    )
}

fn batch(cols: Vec<(&str, ArrayRef)>) -> RecordBatch {
    let fields: Vec<Field> = cols
        .iter()
        .map(|(n, a)| Field::new(*n, a.data_type().clone(), false))
        .collect();
    RecordBatch::try_new(
        Arc::new(Schema::new(fields)),
        cols.into_iter().map(|(_, a)| a).collect(),
    )
    .unwrap()
}

#[tokio::test(flavor = "multi_thread", worker_threads = 2)]
async fn metrics_filter_never_matches_a_dictionary_encoded_metric_name() {
    let ing = ingester();
    let mut rx_cpu = ing
        .subscribe_filtered(TopicFilter::for_metrics(vec!["cpu".to_string()]))
        .await;
    let mut rx_unknown = ing
        .subscribe_filtered(TopicFilter::for_metrics(vec!["unknown".to_string()]))
        .await;

    // metric_name typed exactly as MetricSchema declares it
    let dict = DictionaryArray::new(
        UInt16Array::from(vec![0u16, 0]),
        Arc::new(StringArray::from(vec!["cpu"])) as ArrayRef,
    );
    let b = batch(vec![
        (
            "timestamp",
            Arc::new(TimestampNanosecondArray::from(vec![now_ns(); 2]).with_timezone("UTC")),
        ),
        ("metric_name", Arc::new(dict)),
        ("value_f64", Arc::new(Float64Array::from(vec![1.0, 2.0]))),
    ]);
    let declared = MetricSchema::default_metrics().arrow_schema();
    assert_eq!(
        declared.field_with_name("metric_name").unwrap().data_type(),
        b.schema().field_with_name("metric_name").unwrap().data_type(),
        "test batch must use the project's declared metric_name type"
    );
    ing.write(b).await.unwrap(); // flushed and broadcast at once

    let unknown_got = tokio::time::timeout(Duration::from_millis(500), rx_unknown.recv())
        .await
        .is_ok();
    let cpu_got = tokio::time::timeout(Duration::from_millis(500), rx_cpu.recv())
        .await
        .is_ok();
    println!("Metrics([cpu]) subscriber received the cpu batch: {cpu_got}");
    println!("Metrics([unknown]) subscriber received the cpu batch: {unknown_got}");
    assert!(
        cpu_got && !unknown_got,
        "C18 violated: a flushed batch whose only metric is `cpu` (dictionary-encoded metric_name, \
         the type MetricSchema declares) was delivered to the Metrics([cpu]) subscriber: {cpu_got}; \
         to the Metrics([unknown]) subscriber: {unknown_got}"
    );
}

fn shard_of(metric: &str, t: i64) -> String {
    // tenant 0 is Ingester::new's tenant; same derivation as the ingester's routing key
    let key = ShardKey::new(0, metric, t);
    format!(
        "shard-{:x}",
        u64::from_be_bytes(key.to_bytes()[0..8].try_into().unwrap())
    )
}

#[tokio::test(flavor = "multi_thread", worker_threads = 2)]
async fn shard_filter_misses_a_batch_whose_first_row_is_another_metric() {
    let ing = ingester();
    let t = now_ns();
    assert_ne!(shard_of("cpu", t), shard_of("memory", t));
    let mut rx_mem = ing
        .subscribe_filtered(TopicFilter::for_shard(shard_of("memory", t)))
        .await;
    let mut rx_cpu = ing
        .subscribe_filtered(TopicFilter::for_shard(shard_of("cpu", t)))
        .await;

    // one write (= one flushed batch) with several metrics, as every ingest path produces
    let b = batch(vec![
        (
            "timestamp",
            Arc::new(TimestampNanosecondArray::from(vec![t; 3]).with_timezone("UTC")),
        ),
        (
            "metric_name",
            Arc::new(StringArray::from(vec!["cpu", "memory", "memory"])),
        ),
        ("value_f64", Arc::new(Float64Array::from(vec![1.0, 2.0, 3.0]))),
    ]);
    ing.write(b).await.unwrap();

    let cpu_got = tokio::time::timeout(Duration::from_millis(500), rx_cpu.recv())
        .await
        .is_ok();
    let mem_got = tokio::time::timeout(Duration::from_millis(500), rx_mem.recv())
        .await
        .is_ok();
    println!("Shard(cpu's shard) subscriber got the batch: {cpu_got}; Shard(memory's shard) subscriber: {mem_got}");
    assert!(
        mem_got,
        "C18 violated: the flushed batch holds two `memory` rows (shard {}), yet the subscriber of that \
         shard did not receive it; the batch was labelled with the shard of row 0 only (cpu subscriber got it: {cpu_got})",
        shard_of("memory", t)
    );
}
