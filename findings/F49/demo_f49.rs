//! C15 audit, defect 2: the split-time de-duplication runs on the RESULT batches of
//! the SQL statement, keyed on whatever columns the statement happens to project.
//! (Same root cause as the already-known "de-duplication after aggregation", but it
//! also breaks plain non-aggregate SELECTs of the C04 family.)
//!
//!  a. projection without `timestamp` or `metric_name` (or with them aliased):
//!     dedup_batches passes the batch through -> every double-written row twice;
//!  b. projection that drops a label column: distinct series that agree on the
//!     projected columns are collapsed into one row;
//!  c. LIMIT is applied before the suppression -> fewer rows than asked for and
//!     than the same query returns with no split.
//!
//! Public APIs only; unchanged code; deterministic.

use arrow_array::{Float64Array, Int64Array, RecordBatch, StringArray};
use arrow_schema::{DataType, Field, Schema};
use cardinalsin::ingester::{Ingester, IngesterConfig};
use cardinalsin::metadata::{LocalMetadataClient, MetadataClient};
use cardinalsin::query::{QueryConfig, QueryNode};
use cardinalsin::schema::MetricSchema;
use cardinalsin::sharding::{ShardKey, SplitPhase};
use cardinalsin::StorageConfig;
use object_store::memory::InMemory;
use std::sync::Arc;

const BASE: i64 = 1_700_000_000_000_000_000;
const SEC: i64 = 1_000_000_000;

/// Same formula as the (private) `Ingester::compute_shard_id`.
fn shard_id_for(metric: &str, ts: i64) -> String {
    let key = ShardKey::new(0, metric, ts);
    format!(
        "shard-{:x}",
        u64::from_be_bytes(key.to_bytes()[0..8].try_into().unwrap())
    )
}

fn batch(rows: &[(i64, &str, f64, &str)]) -> RecordBatch {
    let schema = Arc::new(Schema::new(vec![
        Field::new("timestamp", DataType::Int64, false),
        Field::new("metric_name", DataType::Utf8, false),
        Field::new("value_f64", DataType::Float64, false),
        Field::new("host", DataType::Utf8, false),
    ]));
    RecordBatch::try_new(
        schema,
        vec![
            Arc::new(Int64Array::from(
                rows.iter().map(|r| r.0).collect::<Vec<_>>(),
            )),
            Arc::new(StringArray::from(
                rows.iter().map(|r| r.1.to_string()).collect::<Vec<_>>(),
            )),
            Arc::new(Float64Array::from(
                rows.iter().map(|r| r.2).collect::<Vec<_>>(),
            )),
            Arc::new(StringArray::from(
                rows.iter().map(|r| r.3.to_string()).collect::<Vec<_>>(),
            )),
        ],
    )
    .unwrap()
}

struct Env {
    store: Arc<InMemory>,
    metadata: Arc<LocalMetadataClient>,
    ingester: Ingester,
}

/// flush_row_count = 1: every write is flushed inline, so the old-shard copy is
/// query-visible right after `write` returns.
fn env() -> Env {
    let store = Arc::new(InMemory::new());
    let metadata = Arc::new(LocalMetadataClient::new());
    let mut cfg = IngesterConfig::default();
    cfg.wal.enabled = false;
    cfg.flush_row_count = 1;
    let ingester = Ingester::new(
        cfg,
        store.clone(),
        metadata.clone(),
        StorageConfig::default(),
        MetricSchema::default_metrics(),
    );
    Env {
        store,
        metadata,
        ingester,
    }
}

async fn start_dual_write(e: &Env, shard: &str, split_ts: i64) {
    e.metadata
        .start_split(
            shard,
            vec!["new-a".into(), "new-b".into()],
            split_ts.to_be_bytes().to_vec(),
        )
        .await
        .unwrap();
    e.metadata
        .update_split_progress(shard, 0.0, SplitPhase::DualWrite)
        .await
        .unwrap();
}

async fn query_rows(e: &Env, sql: &str) -> usize {
    let q = QueryNode::new(
        QueryConfig::default(),
        e.store.clone(),
        e.metadata.clone(),
        StorageConfig::default(),
    )
    .await
    .unwrap();
    let res = q.query(sql).await.unwrap();
    println!(
        "{sql}\n{}",
        arrow::util::pretty::pretty_format_batches(&res).unwrap()
    );
    res.iter().map(|b| b.num_rows()).sum()
}

/// Two hosts report the same value at the same instant (think `up == 1`), on both
/// sides of the split point. 6 ingested rows.
async fn ingest_history(e: &Env, split_ts: i64) {
    e.ingester
        .write(batch(&[
            (split_ts - 10 * SEC, "cpu", 1.0, "h1"),
            (split_ts - 10 * SEC, "cpu", 1.0, "h2"),
            (split_ts, "cpu", 1.0, "h1"),
            (split_ts, "cpu", 1.0, "h2"),
            (split_ts + 10 * SEC, "cpu", 1.0, "h1"),
            (split_ts + 10 * SEC, "cpu", 1.0, "h2"),
        ]))
        .await
        .unwrap();
}

async fn compare(sql: &str, what: &str) {
    let split_ts = BASE + 100 * SEC;

    let control = env();
    ingest_history(&control, split_ts).await;
    let expected = query_rows(&control, sql).await;

    let e = env();
    start_dual_write(&e, &shard_id_for("cpu", BASE), split_ts).await;
    ingest_history(&e, split_ts).await;
    let got = query_rows(&e, sql).await;

    assert_eq!(
        got, expected,
        "C15 violated ({what}): `{sql}` returns {expected} rows with no split but {got} \
         rows while the shard is in DualWrite"
    );
}

#[tokio::test]
async fn a_projection_without_key_columns_returns_double_written_rows_twice() {
    compare(
        "SELECT value_f64, host FROM metrics WHERE timestamp >= 0",
        "double-written copies not suppressed",
    )
    .await;
}

#[tokio::test]
async fn a2_aliased_timestamp_returns_double_written_rows_twice() {
    compare(
        "SELECT timestamp AS ts, metric_name, value_f64, host FROM metrics WHERE timestamp >= 0",
        "double-written copies not suppressed",
    )
    .await;
}

#[tokio::test]
async fn b_projection_dropping_a_label_collapses_distinct_series() {
    compare(
        "SELECT timestamp, metric_name, value_f64 FROM metrics WHERE timestamp >= 0",
        "rows of different series collapsed",
    )
    .await;
}

#[tokio::test]
async fn c_limit_is_applied_before_the_suppression() {
    compare(
        "SELECT * FROM metrics WHERE timestamp >= 0 ORDER BY timestamp, host LIMIT 4",
        "LIMIT 4 over 6 distinct rows",
    )
    .await;
}

/// Sanity: the one shape the mechanism handles.
#[tokio::test]
async fn control_select_star_is_exact() {
    compare("SELECT * FROM metrics WHERE timestamp >= 0", "select *").await;
}
