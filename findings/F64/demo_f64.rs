//! C06 audit, defect 5: a flushed chunk is announced on the topic channel under the shard of
//! its FIRST ROW only; a live subscriber of another shard whose rows are in the same chunk is
//! never told.
//!
//! `flush_batches` builds the `BatchMetadata` of the announcement with
//! `shard_id: self.compute_shard_id(&combined)`, and `compute_shard_id` looks at
//! `metric_name.value(0)` / `timestamp.value(0)`.  `combined` is the concatenation of every
//! batch buffered since the last flush (all writers, all metrics with that schema), so it
//! normally spans many shards.  `TopicFilter::Shard(s)` (offered through
//! `Ingester::subscribe_filtered` / `TopicFilter::for_shard`) compares `s` with that single
//! id: the subscriber of the shard of "mem" does not receive a chunk that starts with a
//! "cpu" row, however many "mem" rows it holds.  (`metrics:` is computed from all rows, so
//! a `Metrics` filter on the same data does match - the two filters disagree.)

use arrow_array::{Float64Array, RecordBatch, StringArray};
use arrow_schema::{DataType, Field, Schema, TimeUnit};
use cardinalsin::ingester::{Ingester, IngesterConfig, TopicFilter, WalConfig};
use cardinalsin::metadata::{LocalMetadataClient, MetadataClient};
use cardinalsin::schema::MetricSchema;
use cardinalsin::sharding::ShardKey;
use cardinalsin::{CloudProvider, StorageConfig};
use object_store::memory::InMemory;
use object_store::ObjectStore;
use std::sync::Arc;
use std::time::Duration;

const T0: i64 = 1_700_000_000_000_000_000;

fn batch(metrics: &[&str]) -> RecordBatch {
    let schema = Arc::new(Schema::new(vec![
        Field::new(
            "timestamp",
            DataType::Timestamp(TimeUnit::Nanosecond, None),
            false,
        ),
        Field::new("metric_name", DataType::Utf8, false),
        Field::new("value_f64", DataType::Float64, true),
    ]));
    let n = metrics.len();
    RecordBatch::try_new(
        schema,
        vec![
            Arc::new(arrow_array::TimestampNanosecondArray::from(
                (0..n as i64).map(|i| T0 + i).collect::<Vec<_>>(),
            )),
            Arc::new(StringArray::from(metrics.to_vec())),
            Arc::new(Float64Array::from((0..n).map(|i| i as f64).collect::<Vec<_>>())),
        ],
    )
    .unwrap()
}

/// The ingester's shard id for (tenant 0, metric, T0) - same derivation as
/// `Ingester::compute_shard_id`; the first phase of the test checks it against the ingester.
fn shard_of(metric: &str) -> String {
    let key = ShardKey::new(0, metric, T0);
    format!(
        "shard-{:x}",
        u64::from_be_bytes(key.to_bytes()[0..8].try_into().unwrap())
    )
}

fn count(batch: &RecordBatch, metric: &str) -> usize {
    use arrow_array::cast::AsArray;
    let names = batch.column_by_name("metric_name").unwrap().as_string::<i32>();
    names.iter().filter(|m| *m == Some(metric)).count()
}

#[tokio::test(flavor = "multi_thread", worker_threads = 2)]
async fn shard_subscriber_is_not_told_about_a_chunk_holding_its_rows() {
    let store: Arc<dyn ObjectStore> = Arc::new(InMemory::new());
    let metadata: Arc<dyn MetadataClient> = Arc::new(LocalMetadataClient::new());
    let config = IngesterConfig {
        flush_row_count: 4, // every 4 rows one chunk
        flush_size_bytes: 1 << 30,
        flush_interval: Duration::from_secs(3600),
        wal: WalConfig {
            enabled: false,
            ..Default::default()
        },
        ..Default::default()
    };
    let ing = Ingester::new(
        config,
        store,
        metadata.clone(),
        StorageConfig {
            provider: CloudProvider::Memory,
            container: "bucket".to_string(),
            tenant_id: "tenant".to_string(),
        },
        MetricSchema::default_metrics(),
    );

    let mem_shard = shard_of("mem");
    assert_ne!(mem_shard, shard_of("cpu"), "cpu and mem live in different shards");

    let mut rx_shard = ing
        .subscribe_filtered(TopicFilter::for_shard(mem_shard.clone()))
        .await;
    let mut rx_metric = ing
        .subscribe_filtered(TopicFilter::for_metrics(vec!["mem".to_string()]))
        .await;

    // Phase 1 (calibration): a chunk of mem rows only reaches the shard subscriber, i.e.
    // `mem_shard` is the id the ingester uses for mem.
    ing.write(batch(&["mem", "mem", "mem", "mem"])).await.unwrap();
    let got = tokio::time::timeout(Duration::from_secs(2), rx_shard.recv())
        .await
        .expect("calibration: the mem-only chunk is announced to the subscriber of mem's shard")
        .unwrap();
    assert_eq!(count(&got, "mem"), 4);
    let _ = tokio::time::timeout(Duration::from_secs(2), rx_metric.recv())
        .await
        .expect("metric subscriber gets the first chunk")
        .unwrap();

    // Phase 2: two writers, one flush window: a cpu write, then a mem write; the second one
    // reaches the threshold, both are flushed as ONE chunk [cpu, cpu, mem, mem].
    ing.write(batch(&["cpu", "cpu"])).await.unwrap();
    ing.write(batch(&["mem", "mem"])).await.unwrap();
    assert_eq!(metadata.list_chunks().await.unwrap().len(), 2, "second chunk registered");

    let by_metric = tokio::time::timeout(Duration::from_secs(2), rx_metric.recv())
        .await
        .expect("the Metrics([mem]) subscriber is told about the second chunk")
        .unwrap();
    assert_eq!(count(&by_metric, "mem"), 2, "the second chunk holds 2 mem rows");

    let by_shard = tokio::time::timeout(Duration::from_secs(2), rx_shard.recv()).await;
    assert!(
        by_shard.is_ok(),
        "C06 violated (flushed chunk not announced to a live subscriber): the second chunk was \
         registered and holds 2 rows of metric 'mem' (shard {mem_shard}), the Metrics([mem]) \
         subscriber received it, but the live subscriber of shard {mem_shard} was not told - \
         the chunk was announced under the shard of its first row only ({}); receiver stats \
         (delivered, filtered) = {:?}",
        shard_of("cpu"),
        rx_shard.stats(),
    );
}
