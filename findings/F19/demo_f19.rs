//! Known finding F19 (C03): `merge_chunks` registers the merged chunk before `complete_compaction`
//! swaps the sources out.  When the swap fails (or the compactor crashes in between) the compaction is
//! over, yet the catalog lists the merged chunk NEXT TO its sources: every row of the group is reachable
//! twice.  This test fails on the current code (it asserts "each row once").
//! (The object-store wrapper is the one written for seeded/C03/m1.)

use arrow_array::cast::AsArray;
use arrow_array::types::TimestampNanosecondType;
use arrow_array::{Float64Array, RecordBatch, TimestampNanosecondArray};
use arrow_schema::{DataType, Field, Schema, TimeUnit};
use async_trait::async_trait;
use bytes::Bytes;
use cardinalsin::compactor::{Compactor, CompactorConfig};
use cardinalsin::ingester::ChunkMetadata;
use cardinalsin::metadata::{MetadataClient, S3MetadataClient, S3MetadataConfig, TimeRange};
use cardinalsin::sharding::{HotShardConfig, ShardMonitor};
use cardinalsin::StorageConfig;
use futures::stream::BoxStream;
use object_store::memory::InMemory;
use object_store::path::Path;
use object_store::{
    GetOptions, GetResult, ListResult, MultipartUpload, ObjectMeta, ObjectStore, PutMultipartOpts,
    PutOptions, PutPayload, PutResult, Result as OsResult,
};
use parquet::arrow::arrow_reader::ParquetRecordBatchReaderBuilder;
use parquet::arrow::ArrowWriter;
use std::fmt;
use std::sync::atomic::{AtomicBool, AtomicUsize, Ordering};
use std::sync::Arc;
use std::time::Duration;

/// In-memory object store that can reject the n-th write to catalog.json.
struct FaultyStore {
    inner: InMemory,
    armed: AtomicBool,
    catalog_puts: AtomicUsize,
    fail_on: usize,
}

impl FaultyStore {
    fn new(fail_on: usize) -> Self {
        Self {
            inner: InMemory::new(),
            armed: AtomicBool::new(false),
            catalog_puts: AtomicUsize::new(0),
            fail_on,
        }
    }
}

impl fmt::Display for FaultyStore {
    fn fmt(&self, f: &mut fmt::Formatter<'_>) -> fmt::Result {
        write!(f, "FaultyStore")
    }
}

impl fmt::Debug for FaultyStore {
    fn fmt(&self, f: &mut fmt::Formatter<'_>) -> fmt::Result {
        write!(f, "FaultyStore")
    }
}

#[async_trait]
impl ObjectStore for FaultyStore {
    async fn put_opts(
        &self,
        location: &Path,
        payload: PutPayload,
        opts: PutOptions,
    ) -> OsResult<PutResult> {
        if self.armed.load(Ordering::SeqCst) && location.as_ref().ends_with("catalog.json") {
            let n = self.catalog_puts.fetch_add(1, Ordering::SeqCst) + 1;
            if n == self.fail_on {
                return Err(object_store::Error::Generic {
                    store: "FaultyStore",
                    source: "injected 503 on catalog write".into(),
                });
            }
        }
        self.inner.put_opts(location, payload, opts).await
    }

    async fn put_multipart_opts(
        &self,
        location: &Path,
        opts: PutMultipartOpts,
    ) -> OsResult<Box<dyn MultipartUpload>> {
        self.inner.put_multipart_opts(location, opts).await
    }

    async fn get_opts(&self, location: &Path, options: GetOptions) -> OsResult<GetResult> {
        self.inner.get_opts(location, options).await
    }

    async fn delete(&self, location: &Path) -> OsResult<()> {
        self.inner.delete(location).await
    }

    fn list(&self, prefix: Option<&Path>) -> BoxStream<'_, OsResult<ObjectMeta>> {
        self.inner.list(prefix)
    }

    async fn list_with_delimiter(&self, prefix: Option<&Path>) -> OsResult<ListResult> {
        self.inner.list_with_delimiter(prefix).await
    }

    async fn copy(&self, from: &Path, to: &Path) -> OsResult<()> {
        self.inner.copy(from, to).await
    }

    async fn copy_if_not_exists(&self, from: &Path, to: &Path) -> OsResult<()> {
        self.inner.copy_if_not_exists(from, to).await
    }
}

fn schema() -> Arc<Schema> {
    Arc::new(Schema::new(vec![
        Field::new(
            "timestamp",
            DataType::Timestamp(TimeUnit::Nanosecond, Some("UTC".into())),
            false,
        ),
        Field::new("value_f64", DataType::Float64, true),
    ]))
}

async fn put_chunk(
    store: &Arc<FaultyStore>,
    metadata: &S3MetadataClient,
    path: &str,
    timestamps: Vec<i64>,
) {
    let values: Vec<f64> = timestamps.iter().map(|t| (*t % 1000) as f64).collect();
    let batch = RecordBatch::try_new(
        schema(),
        vec![
            Arc::new(TimestampNanosecondArray::from(timestamps.clone()).with_timezone("UTC")),
            Arc::new(Float64Array::from(values)),
        ],
    )
    .unwrap();
    let mut buf = Vec::new();
    {
        let mut w = ArrowWriter::try_new(&mut buf, schema(), None).unwrap();
        w.write(&batch).unwrap();
        w.close().unwrap();
    }
    let size = buf.len() as u64;
    store
        .put(&Path::from(path), Bytes::from(buf).into())
        .await
        .unwrap();
    let meta = ChunkMetadata {
        path: path.to_string(),
        min_timestamp: *timestamps.iter().min().unwrap(),
        max_timestamp: *timestamps.iter().max().unwrap(),
        row_count: timestamps.len() as u64,
        size_bytes: size,
    };
    metadata.register_chunk(path, &meta).await.unwrap();
}

async fn read_timestamps(store: &Arc<FaultyStore>, path: &str) -> Result<Vec<i64>, String> {
    let data = store
        .get(&Path::from(path))
        .await
        .map_err(|e| format!("{e}"))?
        .bytes()
        .await
        .map_err(|e| format!("{e}"))?;
    let reader = ParquetRecordBatchReaderBuilder::try_new(data)
        .map_err(|e| format!("{e}"))?
        .build()
        .map_err(|e| format!("{e}"))?;
    let mut out = Vec::new();
    for b in reader {
        let b = b.map_err(|e| format!("{e}"))?;
        let col = b.column_by_name("timestamp").unwrap();
        let arr = col.as_primitive::<TimestampNanosecondType>();
        out.extend(arr.values().iter().copied());
    }
    Ok(out)
}

#[tokio::test]
async fn f19_failed_swap_leaves_rows_reachable_twice() {
    // 2nd catalog write after arming = the swap in complete_compaction
    // (1st is register_chunk of the merged chunk inside merge_chunks).
    let store = Arc::new(FaultyStore::new(2));
    let metadata = Arc::new(S3MetadataClient::new(
        store.clone() as Arc<dyn ObjectStore>,
        S3MetadataConfig {
            bucket: "b".into(),
            metadata_prefix: "meta".into(),
            enable_cache: false,
            allow_unsafe_overwrite: false,
        },
    ));
    let hour = 3_600_000_000_000i64;
    let now = chrono::Utc::now().timestamp_nanos_opt().unwrap();
    let base = ((now - 2 * hour) / hour) * hour;
    let rows_a: Vec<i64> = (0..5).map(|i| base + i * 1_000_000_000).collect();
    let rows_b: Vec<i64> = (5..10).map(|i| base + i * 1_000_000_000).collect();
    put_chunk(&store, &metadata, "t/data/a.parquet", rows_a.clone()).await;
    put_chunk(&store, &metadata, "t/data/b.parquet", rows_b.clone()).await;
    let mut expected: Vec<i64> = rows_a.iter().chain(rows_b.iter()).copied().collect();
    expected.sort();

    let compactor = Compactor::new(
        CompactorConfig {
            l0_merge_threshold: 2,
            gc_grace_period: Duration::from_secs(3600),
            sharding_enabled: false,
            ..Default::default()
        },
        store.clone() as Arc<dyn ObjectStore>,
        metadata.clone() as Arc<dyn MetadataClient>,
        StorageConfig { tenant_id: "t".into(), ..Default::default() },
        Arc::new(ShardMonitor::new(HotShardConfig::default())),
    );

    store.armed.store(true, Ordering::SeqCst);
    let r1 = compactor.run_compaction_cycle().await;
    store.armed.store(false, Ordering::SeqCst);
    println!("cycle (catalog swap rejected): {:?}", r1.as_ref().err());
    assert!(r1.is_err(), "fault must surface from the cycle");

    // No compaction is in progress any more.  Rows reachable through the catalog:
    let listed = metadata.get_chunks(TimeRange::new(base, base + hour)).await.unwrap();
    let mut seen = Vec::new();
    for e in &listed {
        let ts = read_timestamps(&store, &e.chunk_path).await.unwrap();
        println!("  listed {} -> {} rows", e.chunk_path, ts.len());
        seen.extend(ts);
    }
    seen.sort();
    assert_eq!(seen, expected, "each row must be reachable exactly once when no compaction is in progress");
}
