//! C15 audit, defect 3: `Ingester::write` decides "is this shard splitting?" once per
//! BATCH, from row 0 only (`compute_shard_id` reads `metric_name[0]`/`timestamp[0]`).
//! Ingest requests are multi-metric (Prometheus remote-write / OTLP put every series
//! of a request into one RecordBatch), so
//!
//!  a. rows of the splitting shard that travel in a batch whose first row belongs to
//!     another shard are NOT dual-written: neither new shard ever receives them;
//!  b. conversely, when row 0 belongs to the splitting shard, rows of every other
//!     shard in the batch are written into the new shards of a split they have
//!     nothing to do with.
//!
//! Public APIs only; unchanged code; deterministic.

use bytes::Bytes;
use object_store::ObjectStore;
use parquet::arrow::arrow_reader::ParquetRecordBatchReaderBuilder;
use arrow_array::{Float64Array, Int64Array, RecordBatch, StringArray};
use arrow_schema::{DataType, Field, Schema};
use cardinalsin::ingester::{Ingester, IngesterConfig};
use cardinalsin::metadata::{LocalMetadataClient, MetadataClient};
use cardinalsin::query::{QueryConfig, QueryNode};
use cardinalsin::schema::MetricSchema;
use cardinalsin::sharding::{ShardKey, SplitPhase};
use cardinalsin::StorageConfig;
use object_store::memory::InMemory;
use std::sync::Arc;

const BASE: i64 = 1_700_000_000_000_000_000;
const SEC: i64 = 1_000_000_000;

/// Same formula as the (private) `Ingester::compute_shard_id`.
fn shard_id_for(metric: &str, ts: i64) -> String {
    let key = ShardKey::new(0, metric, ts);
    format!(
        "shard-{:x}",
        u64::from_be_bytes(key.to_bytes()[0..8].try_into().unwrap())
    )
}

fn batch(rows: &[(i64, &str, f64, &str)]) -> RecordBatch {
    let schema = Arc::new(Schema::new(vec![
        Field::new("timestamp", DataType::Int64, false),
        Field::new("metric_name", DataType::Utf8, false),
        Field::new("value_f64", DataType::Float64, false),
        Field::new("host", DataType::Utf8, false),
    ]));
    RecordBatch::try_new(
        schema,
        vec![
            Arc::new(Int64Array::from(
                rows.iter().map(|r| r.0).collect::<Vec<_>>(),
            )),
            Arc::new(StringArray::from(
                rows.iter().map(|r| r.1.to_string()).collect::<Vec<_>>(),
            )),
            Arc::new(Float64Array::from(
                rows.iter().map(|r| r.2).collect::<Vec<_>>(),
            )),
            Arc::new(StringArray::from(
                rows.iter().map(|r| r.3.to_string()).collect::<Vec<_>>(),
            )),
        ],
    )
    .unwrap()
}

struct Env {
    store: Arc<InMemory>,
    metadata: Arc<LocalMetadataClient>,
    ingester: Ingester,
}

/// flush_row_count = 1: every write is flushed inline, so the old-shard copy is
/// query-visible right after `write` returns.
fn env() -> Env {
    let store = Arc::new(InMemory::new());
    let metadata = Arc::new(LocalMetadataClient::new());
    let mut cfg = IngesterConfig::default();
    cfg.wal.enabled = false;
    cfg.flush_row_count = 1;
    let ingester = Ingester::new(
        cfg,
        store.clone(),
        metadata.clone(),
        StorageConfig::default(),
        MetricSchema::default_metrics(),
    );
    Env {
        store,
        metadata,
        ingester,
    }
}

async fn start_dual_write(e: &Env, shard: &str, split_ts: i64) {
    e.metadata
        .start_split(
            shard,
            vec!["new-a".into(), "new-b".into()],
            split_ts.to_be_bytes().to_vec(),
        )
        .await
        .unwrap();
    e.metadata
        .update_split_progress(shard, 0.0, SplitPhase::DualWrite)
        .await
        .unwrap();
}

async fn query_rows(e: &Env, sql: &str) -> usize {
    let q = QueryNode::new(
        QueryConfig::default(),
        e.store.clone(),
        e.metadata.clone(),
        StorageConfig::default(),
    )
    .await
    .unwrap();
    let res = q.query(sql).await.unwrap();
    println!(
        "{sql}\n{}",
        arrow::util::pretty::pretty_format_batches(&res).unwrap()
    );
    res.iter().map(|b| b.num_rows()).sum()
}

/// (timestamp, metric_name) of every row in the chunks registered under `shard`.
async fn rows_under(e: &Env, shard: &str) -> Vec<(i64, String)> {
    use arrow_array::cast::AsArray;
    use arrow_array::types::Int64Type;
    let mut out = Vec::new();
    for c in e.metadata.get_chunks_for_shard(shard).await.unwrap() {
        let bytes: Bytes = e
            .store
            .get(&c.chunk_path.as_str().into())
            .await
            .unwrap()
            .bytes()
            .await
            .unwrap();
        for b in ParquetRecordBatchReaderBuilder::try_new(bytes)
            .unwrap()
            .build()
            .unwrap()
        {
            let b = b.unwrap();
            let ts = b
                .column_by_name("timestamp")
                .unwrap()
                .as_primitive::<Int64Type>()
                .clone();
            let m = b
                .column_by_name("metric_name")
                .unwrap()
                .as_string::<i32>()
                .clone();
            for i in 0..b.num_rows() {
                out.push((ts.value(i), m.value(i).to_string()));
            }
        }
    }
    out.sort();
    out
}

#[tokio::test]
async fn a_rows_of_the_splitting_shard_behind_a_foreign_first_row_are_not_dual_written() {
    let e = env();
    let split_ts = BASE + 100 * SEC;
    let cpu_shard = shard_id_for("cpu", BASE);
    assert_ne!(cpu_shard, shard_id_for("mem", BASE), "test precondition");
    start_dual_write(&e, &cpu_shard, split_ts).await;

    // One ingest request carrying two metrics; `mem` happens to come first.
    e.ingester
        .write(batch(&[
            (split_ts - SEC, "mem", 7.0, "h1"),
            (split_ts - SEC, "cpu", 1.0, "h1"),
            (split_ts, "cpu", 2.0, "h1"),
        ]))
        .await
        .expect("write accepted");

    let a = rows_under(&e, "new-a").await;
    let b = rows_under(&e, "new-b").await;
    println!("new-a: {a:?}\nnew-b: {b:?}");
    assert_eq!(
        (a.clone(), b.clone()),
        (
            vec![(split_ts - SEC, "cpu".to_string())],
            vec![(split_ts, "cpu".to_string())]
        ),
        "C15 violated: shard {cpu_shard} is in DualWrite and two `cpu` rows were accepted, \
         one on each side of the split point, but the new shards received a={a:?} b={b:?}: \
         the batch's first row belongs to another shard, so the whole batch skipped the \
         dual write"
    );
}

#[tokio::test]
async fn b_rows_of_other_shards_are_written_into_the_new_shards() {
    let e = env();
    let split_ts = BASE + 100 * SEC;
    let cpu_shard = shard_id_for("cpu", BASE);
    assert_ne!(cpu_shard, shard_id_for("mem", BASE), "test precondition");
    start_dual_write(&e, &cpu_shard, split_ts).await;

    // Same request, `cpu` first this time.
    e.ingester
        .write(batch(&[
            (split_ts - SEC, "cpu", 1.0, "h1"),
            (split_ts, "cpu", 2.0, "h1"),
            (split_ts - SEC, "mem", 7.0, "h1"),
        ]))
        .await
        .expect("write accepted");

    let a = rows_under(&e, "new-a").await;
    let b = rows_under(&e, "new-b").await;
    println!("new-a: {a:?}\nnew-b: {b:?}");
    let foreign: Vec<_> = a.iter().chain(b.iter()).filter(|r| r.1 != "cpu").collect();
    assert!(
        foreign.is_empty(),
        "C15 violated: only shard {cpu_shard} (metric cpu) is splitting, but rows of another \
         shard were written into its new shards: {foreign:?}"
    );
}
