//! C03 audit, defect 4 (backend divergence, API level): the property's mechanism says
//! complete_compaction "refuses to drop sources if the target is unknown".  The object-store
//! backend does (Error::Metadata "Compaction target chunk not found in catalog", sources
//! kept).  `LocalMetadataClient::complete_compaction` - the backend documented for
//! "development, testing, and single-node deployments" - has no such check: it deletes every
//! source chunk, records a level for a chunk that does not exist, and returns Ok(()).
//!
//! Through today's `Compactor::merge_chunks` the target is always registered first, so this
//! needs a caller that passes a wrong / never registered target (a typo'd path, a retry after
//! the target was removed by retention or split cleanup, a second MetadataClient user) - the
//! exact misuse the S3 backend was hardened against.

use std::sync::Arc;

use cardinalsin::ingester::ChunkMetadata;
use cardinalsin::metadata::{
    LocalMetadataClient, MetadataClient, S3MetadataClient, S3MetadataConfig, TimeRange,
};
use object_store::memory::InMemory;

async fn run(metadata: Arc<dyn MetadataClient>) -> (bool, usize, usize) {
    let sources: Vec<String> = (0..3).map(|i| format!("l0_{i}.parquet")).collect();
    for (i, p) in sources.iter().enumerate() {
        let m = ChunkMetadata {
            path: p.clone(),
            min_timestamp: 1_000 + i as i64,
            max_timestamp: 2_000 + i as i64,
            row_count: 100,
            size_bytes: 4096,
        };
        metadata.register_chunk(p, &m).await.unwrap();
    }
    let res = metadata
        .complete_compaction(&sources, "merged_but_never_registered.parquet")
        .await;
    let listed = metadata.list_chunks().await.unwrap().len();
    let by_time = metadata
        .get_chunks(TimeRange::new(0, 10_000))
        .await
        .unwrap()
        .len();
    (res.is_ok(), listed, by_time)
}

#[tokio::test]
async fn d4_local_backend_drops_sources_for_an_unknown_target() {
    let s3: Arc<dyn MetadataClient> = Arc::new(S3MetadataClient::new(
        Arc::new(InMemory::new()),
        S3MetadataConfig {
            bucket: "t".into(),
            metadata_prefix: "meta/".into(),
            enable_cache: false,
            allow_unsafe_overwrite: false,
        },
    ));
    let (s3_ok, s3_listed, s3_by_time) = run(s3).await;
    assert!(
        !s3_ok && s3_listed == 3 && s3_by_time == 3,
        "object-store backend refuses the swap and keeps the sources"
    );

    let (ok, listed, by_time) = run(Arc::new(LocalMetadataClient::new())).await;
    assert!(
        !ok && listed == 3 && by_time == 3,
        "C03 VIOLATED on LocalMetadataClient: complete_compaction(3 sources, <target that was \
         never registered>) returned {} and left {listed} chunks in list_chunks() / {by_time} in \
         get_chunks(): the 300 rows of the sources are no longer reachable through the catalog \
         (object-store backend on the same calls: Err, 3 chunks kept).",
        if ok { "Ok(())" } else { "Err" },
    );
}
