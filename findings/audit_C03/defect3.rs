//! C03 audit, defect 3: `Compactor::enforce_retention` computes the retention period as
//! `self.config.retention_days as i64 * 24 * 3600 * 1_000_000_000` - an i64 number of
//! nanoseconds that overflows for every `retention_days > 106_751` (about 292 years; the
//! field and the `--retention-days` flag are u32, so "keep forever" values such as 365000 or
//! 999999 are accepted).
//!
//!   * with overflow checks (debug / test profile) every compaction cycle panics in
//!     enforce_retention - after compaction and GC ran, before leases are scavenged and the
//!     pending deletions are persisted; `Compactor::run` dies with it;
//!   * without them (the shipped `[profile.release]` has no `overflow-checks`) the product
//!     wraps.  For 365000 days it wraps to about -5.36e18 ns, the cut-off becomes
//!     now + 170 years, and the cycle deletes EVERY chunk from the catalog and schedules its
//!     object for deletion: all rows, all of them inside the retention window, are gone.
//!
//! Run as is to see the first behaviour, and with
//!   cargo test --config 'profile.dev.package.cardinalsin.overflow-checks=false' ...
//! to see the second on the very same source.

use std::sync::Arc;

use arrow_array::{ArrayRef, Float64Array, RecordBatch, StringArray, TimestampNanosecondArray};
use arrow_schema::{DataType, Field, Schema, TimeUnit};
use object_store::memory::InMemory;
use object_store::ObjectStore;

use cardinalsin::compactor::{Compactor, CompactorConfig};
use cardinalsin::ingester::{Ingester, IngesterConfig};
use cardinalsin::metadata::{LocalMetadataClient, MetadataClient};
use cardinalsin::schema::MetricSchema;
use cardinalsin::sharding::{HotShardConfig, ShardMonitor};
use cardinalsin::StorageConfig;

fn batch(ts0: i64, n: usize) -> RecordBatch {
    let schema = Arc::new(Schema::new(vec![
        Field::new(
            "timestamp",
            DataType::Timestamp(TimeUnit::Nanosecond, Some("UTC".into())),
            false,
        ),
        Field::new("metric_name", DataType::Utf8, false),
        Field::new("value_f64", DataType::Float64, true),
    ]));
    let cols: Vec<ArrayRef> = vec![
        Arc::new(
            TimestampNanosecondArray::from((0..n as i64).map(|i| ts0 + i).collect::<Vec<_>>())
                .with_timezone("UTC"),
        ),
        Arc::new(StringArray::from(vec!["cpu"; n])),
        Arc::new(Float64Array::from(
            (0..n).map(|i| i as f64).collect::<Vec<_>>(),
        )),
    ];
    RecordBatch::try_new(schema, cols).unwrap()
}

#[tokio::test(flavor = "multi_thread", worker_threads = 2)]
async fn d3_thousand_year_retention_panics_or_deletes_everything() {
    let store: Arc<dyn ObjectStore> = Arc::new(InMemory::new());
    let metadata: Arc<dyn MetadataClient> = Arc::new(LocalMetadataClient::new());

    let mut icfg = IngesterConfig::default();
    icfg.flush_row_count = 1;
    icfg.wal.enabled = false;
    let ing = Ingester::new(
        icfg,
        store.clone(),
        metadata.clone(),
        StorageConfig::default(),
        MetricSchema::default_metrics(),
    );
    // three chunks written one minute, one hour and one day ago
    let now = chrono::Utc::now().timestamp_nanos_opt().unwrap();
    for age_s in [60i64, 3_600, 86_400] {
        ing.write(batch(now - age_s * 1_000_000_000, 10)).await.unwrap();
    }
    let before = metadata.list_chunks().await.unwrap().len();
    assert_eq!(before, 3);

    let compactor = Arc::new(Compactor::new(
        CompactorConfig {
            retention_days: 365_000, // "keep for a thousand years"
            sharding_enabled: false,
            ..Default::default()
        },
        store.clone(),
        metadata.clone(),
        StorageConfig::default(),
        Arc::new(ShardMonitor::new(HotShardConfig::default())),
    ));
    let c = compactor.clone();
    let outcome = tokio::spawn(async move { c.run_compaction_cycle().await }).await;

    let after = metadata.list_chunks().await.unwrap().len();
    match outcome {
        Err(e) if e.is_panic() => {
            let p = e.into_panic();
            let msg = p
                .downcast_ref::<String>()
                .cloned()
                .or_else(|| p.downcast_ref::<&str>().map(|s| s.to_string()))
                .unwrap_or_default();
            panic!(
                "C03 VIOLATED (checked arithmetic): run_compaction_cycle with retention_days = \
                 365000 panicked in enforce_retention: '{msg}'. {after} of {before} chunks still \
                 in the catalog - in a build without overflow checks (the release profile) the \
                 same product wraps negative and all of them are deleted."
            );
        }
        Err(e) => panic!("{e}"),
        Ok(res) => {
            assert!(
                after == before,
                "C03 VIOLATED (wrapping arithmetic): run_compaction_cycle with retention_days = \
                 365000 returned {:?} and removed {} of {before} chunks from the catalog; every \
                 one of their rows is between one minute and one day old, i.e. inside the \
                 retention window.",
                res.map(|_| ()),
                before - after,
            );
        }
    }
}
