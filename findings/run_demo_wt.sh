#!/bin/bash
# usage: findings/run_demo_wt.sh <demo.rs> [name]  -- like run_demo.sh, but the scratch worktree also gets /repo's uncommitted changes
set -u
f=$(readlink -f "$1"); n=${2:-$(basename "$f" .rs)}
wt=/var/tmp/demo-$n
export CARGO_NET_OFFLINE=true CARGO_INCREMENTAL=0 CARGO_TARGET_DIR=${CONFIRM_TARGET:-/repo/target}
git -C /repo worktree remove --force $wt 2>/dev/null
git -C /repo worktree add --detach $wt HEAD -q || exit 2
trap 'git -C /repo worktree remove --force $wt' EXIT
git -C /repo diff | git -C $wt apply --allow-empty || exit 2
cd $wt; cp "$f" tests/verif_demo_$n.rs
find src tests -name '*.rs' -exec touch {} +
cargo nextest run --offline --test verif_demo_$n --no-capture 2>&1 | grep -vE "^\s+(Compiling|Blocking)" | grep -vE "^\s+[0-9]+: |^\s+at " | tail -${TAILN:-60}
