//! C02 audit, defect 1: a catalog mutation whose conditional PUT was committed by the
//! object store, but whose response was lost (timeout / connection reset / 5xx after
//! commit), is reported to the caller as FAILED although its effect is in the catalog.
//!
//! Property C02: "every mutation that reports failure has no effect".
//!
//! The object store is `InMemory` wrapped in a store that, once, performs the conditional
//! PUT on catalog.json and then returns a transport error to the caller - exactly what an
//! S3 client sees when the request was applied and the response never arrived
//! (object_store does not retry conditional PUTs after the request was sent: they are
//! not idempotent).

use async_trait::async_trait;
use cardinalsin::ingester::ChunkMetadata;
use cardinalsin::metadata::{MetadataClient, S3MetadataClient, S3MetadataConfig};
use futures::stream::BoxStream;
use object_store::memory::InMemory;
use object_store::path::Path;
use object_store::{
    GetOptions, GetResult, ListResult, MultipartUpload, ObjectMeta, ObjectStore, PutMultipartOpts,
    PutOptions, PutPayload, PutResult, Result as OsResult,
};
use std::fmt;
use std::sync::atomic::{AtomicBool, AtomicUsize, Ordering};
use std::sync::Arc;

/// What the wrapped store does with the next conditional PUT on catalog.json
#[derive(Clone, Copy, PartialEq)]
enum Fault {
    /// apply the PUT, then report a transport error (response lost)
    AppliedThenTransportError,
}

struct LossyStore {
    inner: Arc<InMemory>,
    armed: AtomicBool,
    fault: Fault,
    catalog_puts_applied: AtomicUsize,
}

impl LossyStore {
    fn new(fault: Fault) -> Self {
        Self {
            inner: Arc::new(InMemory::new()),
            armed: AtomicBool::new(false),
            fault,
            catalog_puts_applied: AtomicUsize::new(0),
        }
    }
    fn arm(&self) {
        self.armed.store(true, Ordering::SeqCst);
    }
}

impl fmt::Display for LossyStore {
    fn fmt(&self, f: &mut fmt::Formatter<'_>) -> fmt::Result {
        write!(f, "LossyStore")
    }
}
impl fmt::Debug for LossyStore {
    fn fmt(&self, f: &mut fmt::Formatter<'_>) -> fmt::Result {
        write!(f, "LossyStore")
    }
}

#[async_trait]
impl ObjectStore for LossyStore {
    async fn put_opts(
        &self,
        location: &Path,
        payload: PutPayload,
        opts: PutOptions,
    ) -> OsResult<PutResult> {
        let is_catalog = location.as_ref().ends_with("catalog.json");
        let res = self.inner.put_opts(location, payload, opts).await;
        if is_catalog && res.is_ok() {
            self.catalog_puts_applied.fetch_add(1, Ordering::SeqCst);
            if self.armed.swap(false, Ordering::SeqCst) {
                match self.fault {
                    Fault::AppliedThenTransportError => {
                        return Err(object_store::Error::Generic {
                            store: "LossyStore",
                            source: "connection reset by peer while reading the response \
                                     (the request had been committed)"
                                .into(),
                        });
                    }
                }
            }
        }
        res
    }

    async fn put_multipart_opts(
        &self,
        location: &Path,
        opts: PutMultipartOpts,
    ) -> OsResult<Box<dyn MultipartUpload>> {
        self.inner.put_multipart_opts(location, opts).await
    }

    async fn get_opts(&self, location: &Path, options: GetOptions) -> OsResult<GetResult> {
        self.inner.get_opts(location, options).await
    }

    async fn delete(&self, location: &Path) -> OsResult<()> {
        self.inner.delete(location).await
    }

    fn list(&self, prefix: Option<&Path>) -> BoxStream<'_, OsResult<ObjectMeta>> {
        self.inner.list(prefix)
    }

    async fn list_with_delimiter(&self, prefix: Option<&Path>) -> OsResult<ListResult> {
        self.inner.list_with_delimiter(prefix).await
    }

    async fn copy(&self, from: &Path, to: &Path) -> OsResult<()> {
        self.inner.copy(from, to).await
    }

    async fn copy_if_not_exists(&self, from: &Path, to: &Path) -> OsResult<()> {
        self.inner.copy_if_not_exists(from, to).await
    }
}

fn config() -> S3MetadataConfig {
    S3MetadataConfig {
        bucket: "test-bucket".to_string(),
        metadata_prefix: "test/".to_string(),
        enable_cache: true,
        allow_unsafe_overwrite: false,
    }
}

fn chunk(path: &str, hour: i64) -> ChunkMetadata {
    let h = 3_600_000_000_000i64;
    ChunkMetadata {
        path: path.to_string(),
        min_timestamp: hour * h + 1,
        max_timestamp: hour * h + 1000,
        row_count: 100,
        size_bytes: 4096,
    }
}

/// register_chunk: reported as failed, but the chunk is in the catalog every other node reads.
#[tokio::test]
async fn failed_register_chunk_has_no_effect() {
    let store = Arc::new(LossyStore::new(Fault::AppliedThenTransportError));
    let node = S3MetadataClient::new(store.clone(), config());

    node.register_chunk("a.parquet", &chunk("a.parquet", 1))
        .await
        .expect("set-up registration");

    store.arm();
    let result = node.register_chunk("b.parquet", &chunk("b.parquet", 2)).await;
    println!("register_chunk(b.parquet) returned: {:?}", result);
    assert!(
        result.is_err(),
        "the lost response must surface as a failed registration for this demonstration"
    );

    // Quiescence; a fresh client (empty cache) reads the shared catalog.
    let fresh = S3MetadataClient::new(store.clone(), config());
    let mut listed: Vec<String> = fresh
        .list_chunks()
        .await
        .unwrap()
        .into_iter()
        .map(|c| c.chunk_path)
        .collect();
    listed.sort();
    println!("catalog as seen by a fresh client: {:?}", listed);

    assert_eq!(
        listed,
        vec!["a.parquet".to_string()],
        "C02 violated: register_chunk(\"b.parquet\") reported failure ({}) but its effect is in \
         the shared catalog - a mutation that reports failure must have no effect. (The ingester \
         treats the flush as failed: it keeps the WAL entries and returns an error to the writer, \
         so the rows of b.parquet are ingested a second time on replay / client retry; the \
         compactor treats the merge as failed and leaves the merged chunk registered next to \
         its sources.)",
        result.as_ref().unwrap_err()
    );
}

/// delete_chunk: reported as failed, but the chunk is gone from the catalog.
#[tokio::test]
async fn failed_delete_chunk_has_no_effect() {
    let store = Arc::new(LossyStore::new(Fault::AppliedThenTransportError));
    let node = S3MetadataClient::new(store.clone(), config());

    node.register_chunk("a.parquet", &chunk("a.parquet", 1))
        .await
        .unwrap();
    node.register_chunk("b.parquet", &chunk("b.parquet", 2))
        .await
        .unwrap();

    store.arm();
    let result = node.delete_chunk("b.parquet").await;
    println!("delete_chunk(b.parquet) returned: {:?}", result);
    assert!(result.is_err());

    let fresh = S3MetadataClient::new(store.clone(), config());
    let still_there = fresh.get_chunk("b.parquet").await.unwrap().is_some();
    assert!(
        still_there,
        "C02 violated: delete_chunk(\"b.parquet\") reported failure ({}) but the chunk has been \
         removed from the shared catalog",
        result.as_ref().unwrap_err()
    );
}

/// complete_compaction: reported as failed, but sources and target have been swapped.
#[tokio::test]
async fn failed_complete_compaction_has_no_effect() {
    let store = Arc::new(LossyStore::new(Fault::AppliedThenTransportError));
    let node = S3MetadataClient::new(store.clone(), config());

    for p in ["s1.parquet", "s2.parquet", "merged.parquet"] {
        node.register_chunk(p, &chunk(p, 1)).await.unwrap();
    }

    store.arm();
    let sources = vec!["s1.parquet".to_string(), "s2.parquet".to_string()];
    let result = node.complete_compaction(&sources, "merged.parquet").await;
    println!("complete_compaction returned: {:?}", result);
    assert!(result.is_err());

    let fresh = S3MetadataClient::new(store.clone(), config());
    let mut listed: Vec<String> = fresh
        .list_chunks()
        .await
        .unwrap()
        .into_iter()
        .map(|c| c.chunk_path)
        .collect();
    listed.sort();
    println!("catalog as seen by a fresh client: {:?}", listed);
    assert_eq!(
        listed,
        vec![
            "merged.parquet".to_string(),
            "s1.parquet".to_string(),
            "s2.parquet".to_string()
        ],
        "C02 violated: complete_compaction reported failure ({}) but the sources have been \
         swapped out of the shared catalog (the compactor then never schedules the source \
         objects for deletion and never completes its lease)",
        result.as_ref().unwrap_err()
    );
}
