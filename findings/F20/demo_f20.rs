//! Known finding F20 (C03): complete_compaction accepts a swap whose sources are no longer in the catalog.
//! A compactor working from a stale candidate list (its group was already compacted by another node, whose
//! lease is completed, while the source objects still exist during the GC grace period) merges the same
//! sources again, registers a second target and "swaps" nothing for it: the rows of the group are reachable
//! twice.  History at catalog-request granularity through the public MetadataClient API; fails on the current code.
use cardinalsin::ingester::ChunkMetadata;
use cardinalsin::metadata::{MetadataClient, S3MetadataClient, S3MetadataConfig};
use object_store::memory::InMemory;
use std::sync::Arc;

fn meta(path: &str, lo: i64, hi: i64, rows: u64) -> ChunkMetadata {
    ChunkMetadata { path: path.to_string(), min_timestamp: lo, max_timestamp: hi, row_count: rows, size_bytes: 1024 }
}

#[tokio::test]
async fn f20_stale_candidate_list_publishes_rows_twice() {
    let store = Arc::new(InMemory::new());
    let cfg = || S3MetadataConfig { bucket: "b".into(), metadata_prefix: "meta/".into(), enable_cache: false, allow_unsafe_overwrite: false };
    let node_a = S3MetadataClient::new(store.clone(), cfg());
    let node_b = S3MetadataClient::new(store.clone(), cfg());

    node_a.register_chunk("a.parquet", &meta("a.parquet", 0, 999, 1000)).await.unwrap();
    node_a.register_chunk("b.parquet", &meta("b.parquet", 1000, 1999, 1000)).await.unwrap();
    let group = vec!["a.parquet".to_string(), "b.parquet".to_string()];
    let rows_before: u64 = node_a.list_chunks().await.unwrap().iter().map(|c| c.row_count).sum();

    // both compactors read the candidate list now; B is slow
    let stale_group_of_b = group.clone();

    // compactor A: lease, merge, register target, swap, complete lease
    let lease_a = node_a.acquire_lease("A", &group, 0).await.unwrap();
    node_a.register_chunk("t1.parquet", &meta("t1.parquet", 0, 1999, 2000)).await.unwrap();
    node_a.complete_compaction(&group, "t1.parquet").await.unwrap();
    node_a.complete_lease(&lease_a.lease_id).await.unwrap();

    // compactor B, from its stale list: the lease is free, the source objects are still there (grace period)
    let lease_b = node_b.acquire_lease("B", &stale_group_of_b, 0).await.expect("lease is free again");
    node_b.register_chunk("t2.parquet", &meta("t2.parquet", 0, 1999, 2000)).await.unwrap();
    let swap_b = node_b.complete_compaction(&stale_group_of_b, "t2.parquet").await;
    println!("stale swap accepted: {:?}", swap_b.is_ok());
    let _ = node_b.complete_lease(&lease_b.lease_id).await;

    // a fresh client: no per-client catalog cache in the way
    let reader = S3MetadataClient::new(store.clone(), cfg());
    let rows_after: u64 = reader.list_chunks().await.unwrap().iter().map(|c| c.row_count).sum();
    let listed: Vec<String> = reader.list_chunks().await.unwrap().into_iter().map(|c| c.chunk_path).collect();
    println!("catalog now lists {:?}", listed);
    assert_eq!(rows_after, rows_before, "rows reachable through the catalog must be the same set, each once");
}
