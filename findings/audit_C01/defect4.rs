//! C01 audit, defect 4: a failed WAL write is acknowledged, the error is charged to the NEXT
//! write, and everything after it is unrecoverable.
//!
//! `append_payload` does `file.write_all(header)`, `file.write_all(payload)`, then (sync mode
//! EveryWrite) `file.sync_data()`. On a `tokio::fs::File`, `write_all` only hands the bytes to
//! a background blocking task and returns Ok; the result of that background write is
//! reported by the *next* operation. The next operation here is `sync_data()`, whose
//! implementation (tokio 1.49, fs/file.rs `poll_complete_inflight`) deliberately SWALLOWS a
//! failed in-flight write into `last_write_err` and returns the result of the fsync alone.
//! So when the payload write fails (disk full / quota / EIO), `append` still returns
//! `Ok(seq)` and `Ingester::write` acknowledges a write whose WAL frame is missing or torn.
//! The stored error pops out of the next append (an innocent write is rejected), after which
//! appends succeed again -- behind the torn frame, where recovery cannot read them.
//!
//! The storage fault is injected on the WAL disk with RLIMIT_FSIZE (the kernel cuts the
//! write short at the limit and fails the rest with EFBIG, exactly like ENOSPC would),
//! lifted again right after the faulty write.

use arrow_array::{Array, Int64Array, RecordBatch, TimestampNanosecondArray};
use arrow_schema::{DataType, Field, Schema, TimeUnit};
use bytes::Bytes;
use cardinalsin::ingester::{Ingester, IngesterConfig, WalConfig, WalSyncMode, WriteAheadLog};
use cardinalsin::metadata::{LocalMetadataClient, MetadataClient};
use cardinalsin::schema::MetricSchema;
use cardinalsin::{CloudProvider, StorageConfig};
use object_store::memory::InMemory;
use object_store::path::Path;
use object_store::ObjectStore;
use parquet::arrow::arrow_reader::ParquetRecordBatchReaderBuilder;
use std::collections::BTreeSet;
use std::sync::Arc;
use std::time::Duration;
use tempfile::TempDir;

const WAL_HEADER_LEN: u64 = 22;

fn batch(values: std::ops::RangeInclusive<i64>) -> RecordBatch {
    let values: Vec<i64> = values.collect();
    let schema = Arc::new(Schema::new(vec![
        Field::new(
            "timestamp",
            DataType::Timestamp(TimeUnit::Nanosecond, None),
            false,
        ),
        Field::new("value", DataType::Int64, false),
    ]));
    let ts: Vec<i64> = values.iter().map(|v| v * 1_000_000_000).collect();
    RecordBatch::try_new(
        schema,
        vec![
            Arc::new(TimestampNanosecondArray::from(ts)),
            Arc::new(Int64Array::from(values)),
        ],
    )
    .unwrap()
}

fn wal_config(dir: &TempDir) -> WalConfig {
    WalConfig {
        wal_dir: dir.path().to_path_buf(),
        max_segment_size: 64 * 1024 * 1024,
        sync_mode: WalSyncMode::EveryWrite,
        enabled: true,
    }
}

fn config(dir: &TempDir) -> IngesterConfig {
    IngesterConfig {
        flush_row_count: 1_000_000,
        flush_size_bytes: 1 << 30,
        flush_interval: Duration::from_secs(3600),
        wal: wal_config(dir),
        ..Default::default()
    }
}

fn storage() -> StorageConfig {
    StorageConfig {
        provider: CloudProvider::Memory,
        container: "bucket".into(),
        tenant_id: "tenant".into(),
    }
}

fn segment_len(dir: &TempDir) -> u64 {
    std::fs::metadata(dir.path().join("segment-000001.wal"))
        .map(|m| m.len())
        .unwrap_or(0)
}

async fn settled_segment_len(dir: &TempDir) -> u64 {
    // let tokio's background file write finish
    let mut last = segment_len(dir);
    loop {
        tokio::time::sleep(Duration::from_millis(30)).await;
        let now = segment_len(dir);
        if now == last {
            return now;
        }
        last = now;
    }
}

async fn values_in_catalog(
    store: &Arc<dyn ObjectStore>,
    metadata: &Arc<dyn MetadataClient>,
) -> BTreeSet<i64> {
    let mut out = BTreeSet::new();
    for chunk in metadata.list_chunks().await.unwrap() {
        let bytes: Bytes = store
            .get(&Path::from(chunk.chunk_path.as_str()))
            .await
            .unwrap()
            .bytes()
            .await
            .unwrap();
        let reader = ParquetRecordBatchReaderBuilder::try_new(bytes)
            .unwrap()
            .build()
            .unwrap();
        for b in reader {
            let b = b.unwrap();
            let col = b.column_by_name("value").unwrap();
            let a = col.as_any().downcast_ref::<Int64Array>().unwrap();
            out.extend(a.iter().flatten());
        }
    }
    out
}


#[repr(C)]
struct RLimit {
    cur: u64,
    max: u64,
}
extern "C" {
    fn getrlimit(resource: i32, rlim: *mut RLimit) -> i32;
    fn setrlimit(resource: i32, rlim: *const RLimit) -> i32;
    fn signal(signum: i32, handler: usize) -> usize;
}
const RLIMIT_FSIZE: i32 = 1; // Linux
const SIGXFSZ: i32 = 25; // Linux
const SIG_IGN: usize = 1;

fn set_soft_file_size_limit(limit: Option<u64>) {
    unsafe {
        let mut cur = RLimit { cur: 0, max: 0 };
        assert_eq!(getrlimit(RLIMIT_FSIZE, &mut cur), 0);
        let new = RLimit {
            cur: limit.unwrap_or(cur.max),
            max: cur.max,
        };
        assert_eq!(setrlimit(RLIMIT_FSIZE, &new), 0);
    }
}

#[tokio::test(flavor = "multi_thread", worker_threads = 2)]
async fn a_failed_wal_write_is_acknowledged_and_poisons_the_segment() {
    unsafe {
        signal(SIGXFSZ, SIG_IGN); // get EFBIG instead of being killed
    }
    let dir = TempDir::new().unwrap();
    let store: Arc<dyn ObjectStore> = Arc::new(InMemory::new());
    let metadata: Arc<dyn MetadataClient> = Arc::new(LocalMetadataClient::new());

    let mut ing = Ingester::new(
        config(&dir), // WAL fsync on every write, no threshold flush
        store.clone(),
        metadata.clone(),
        storage(),
        MetricSchema::default_metrics(),
    );
    ing.ensure_wal().await.unwrap();

    // Write #1: fine.
    ing.write(batch(1..=5)).await.expect("write #1 must be acked");
    let len1 = settled_segment_len(&dir).await;

    // The WAL disk "fills up": room for the next header and 100 payload bytes only.
    set_soft_file_size_limit(Some(len1 + WAL_HEADER_LEN + 100));
    let r2 = ing.write(batch(6..=10)).await;
    let len2 = settled_segment_len(&dir).await;
    set_soft_file_size_limit(None); // space is available again

    println!(
        "write #2 on a full WAL disk returned {:?}; segment grew by {} bytes (a whole frame is {} bytes)",
        r2.as_ref().map(|_| "Ok (acknowledged)"),
        len2 - len1,
        len1
    );

    // Write #3: the disk is fine again, but this write inherits the swallowed error.
    let r3 = ing.write(batch(11..=15)).await;
    println!("write #3 on a healthy disk returned {:?}", r3.as_ref().map(|_| "Ok"));
    // Write #4: acknowledged.
    let r4 = ing.write(batch(16..=20)).await;
    println!("write #4 returned {:?}", r4.as_ref().map(|_| "Ok (acknowledged)"));

    let mut acked: Vec<i64> = (1..=5).collect();
    if r2.is_ok() {
        acked.extend(6..=10);
    }
    if r3.is_ok() {
        acked.extend(11..=15);
    }
    if r4.is_ok() {
        acked.extend(16..=20);
    }

    // Crash + restart.
    drop(ing);
    {
        let wal = WriteAheadLog::open(wal_config(&dir)).await.unwrap();
        let readable: Vec<u64> = wal
            .read_entries_after(0)
            .unwrap()
            .iter()
            .map(|e| e.seq)
            .collect();
        println!("readable WAL sequences after crash: {:?}", readable);
    }
    let mut ing = Ingester::new(
        config(&dir),
        store.clone(),
        metadata.clone(),
        storage(),
        MetricSchema::default_metrics(),
    );
    ing.ensure_wal().await.unwrap();
    let recovered_rows = ing.buffer_stats().await.row_count;
    ing.shutdown_token().cancel();
    ing.run_flush_timer().await;
    let stored = values_in_catalog(&store, &metadata).await;
    println!(
        "recovered buffer rows = {}, catalog values after restart+flush = {:?}",
        recovered_rows, stored
    );

    let missing: Vec<i64> = acked.iter().copied().filter(|v| !stored.contains(v)).collect();
    assert!(
        missing.is_empty(),
        "C01 violated: write #2 returned {:?} although its WAL payload write failed, write #4 returned \
         {:?} behind the torn frame; after a crash the acknowledged rows {:?} are neither in a catalog \
         chunk nor in the recovered buffer ({} rows recovered)",
        r2.as_ref().map(|_| "Ok"),
        r4.as_ref().map(|_| "Ok"),
        missing,
        recovered_rows
    );
}
