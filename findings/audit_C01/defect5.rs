//! C01 audit, defect 5: `Ingester::write` acknowledges batches that `flush_batches` can never
//! store. Nothing on the write path looks at the batch's schema (the Arrow Flight ingest
//! path hands client-supplied batches straight to `write`), but `flush_batches` needs a
//! column called `timestamp` of type Timestamp(Nanosecond) or Int64
//! (`extract_min_timestamp`) -- and it finds out only AFTER the chunk object has been
//! uploaded. A batch whose `timestamp` column is, say, Timestamp(Millisecond) is appended to
//! the WAL, buffered and acknowledged; every flush that contains it then fails with
//! InvalidSchema, before registration. On the unchanged code the failed flush drops the rows
//! (the already known weakness), and the next successful flush of other rows moves
//! flushed_seq past them. The part that is NOT the known weakness: the failure is
//! deterministic, so "keep / re-queue the rows when a flush fails" cannot make these rows
//! durable -- it turns them into a buffer that can never be flushed.

#![allow(dead_code, unused_imports)]

use arrow_array::{Array, Int64Array, RecordBatch, TimestampMillisecondArray, TimestampNanosecondArray};
use arrow_schema::{DataType, Field, Schema, TimeUnit};
use bytes::Bytes;
use cardinalsin::ingester::{Ingester, IngesterConfig, WalConfig, WalSyncMode, WriteAheadLog};
use cardinalsin::metadata::{LocalMetadataClient, MetadataClient};
use cardinalsin::schema::MetricSchema;
use cardinalsin::{CloudProvider, StorageConfig};
use object_store::memory::InMemory;
use object_store::path::Path;
use object_store::ObjectStore;
use parquet::arrow::arrow_reader::ParquetRecordBatchReaderBuilder;
use std::collections::BTreeSet;
use std::sync::Arc;
use std::time::Duration;
use tempfile::TempDir;

const WAL_HEADER_LEN: u64 = 22;

fn batch(values: std::ops::RangeInclusive<i64>) -> RecordBatch {
    let values: Vec<i64> = values.collect();
    let schema = Arc::new(Schema::new(vec![
        Field::new(
            "timestamp",
            DataType::Timestamp(TimeUnit::Nanosecond, None),
            false,
        ),
        Field::new("value", DataType::Int64, false),
    ]));
    let ts: Vec<i64> = values.iter().map(|v| v * 1_000_000_000).collect();
    RecordBatch::try_new(
        schema,
        vec![
            Arc::new(TimestampNanosecondArray::from(ts)),
            Arc::new(Int64Array::from(values)),
        ],
    )
    .unwrap()
}

fn wal_config(dir: &TempDir) -> WalConfig {
    WalConfig {
        wal_dir: dir.path().to_path_buf(),
        max_segment_size: 64 * 1024 * 1024,
        sync_mode: WalSyncMode::EveryWrite,
        enabled: true,
    }
}

fn config(dir: &TempDir) -> IngesterConfig {
    IngesterConfig {
        flush_row_count: 10,
        flush_size_bytes: 1 << 30,
        flush_interval: Duration::from_secs(3600),
        wal: wal_config(dir),
        ..Default::default()
    }
}

fn storage() -> StorageConfig {
    StorageConfig {
        provider: CloudProvider::Memory,
        container: "bucket".into(),
        tenant_id: "tenant".into(),
    }
}

fn segment_len(dir: &TempDir) -> u64 {
    std::fs::metadata(dir.path().join("segment-000001.wal"))
        .map(|m| m.len())
        .unwrap_or(0)
}

async fn settled_segment_len(dir: &TempDir) -> u64 {
    // let tokio's background file write finish
    let mut last = segment_len(dir);
    loop {
        tokio::time::sleep(Duration::from_millis(30)).await;
        let now = segment_len(dir);
        if now == last {
            return now;
        }
        last = now;
    }
}

async fn values_in_catalog(
    store: &Arc<dyn ObjectStore>,
    metadata: &Arc<dyn MetadataClient>,
) -> BTreeSet<i64> {
    let mut out = BTreeSet::new();
    for chunk in metadata.list_chunks().await.unwrap() {
        let bytes: Bytes = store
            .get(&Path::from(chunk.chunk_path.as_str()))
            .await
            .unwrap()
            .bytes()
            .await
            .unwrap();
        let reader = ParquetRecordBatchReaderBuilder::try_new(bytes)
            .unwrap()
            .build()
            .unwrap();
        for b in reader {
            let b = b.unwrap();
            let col = b.column_by_name("value").unwrap();
            let a = col.as_any().downcast_ref::<Int64Array>().unwrap();
            out.extend(a.iter().flatten());
        }
    }
    out
}


fn millis_batch(values: std::ops::RangeInclusive<i64>) -> RecordBatch {
    let values: Vec<i64> = values.collect();
    let schema = Arc::new(Schema::new(vec![
        Field::new(
            "timestamp",
            DataType::Timestamp(TimeUnit::Millisecond, None),
            false,
        ),
        Field::new("value", DataType::Int64, false),
    ]));
    let ts: Vec<i64> = values.iter().map(|v| v * 1_000).collect();
    RecordBatch::try_new(
        schema,
        vec![
            Arc::new(TimestampMillisecondArray::from(ts)),
            Arc::new(Int64Array::from(values)),
        ],
    )
    .unwrap()
}

#[tokio::test(flavor = "multi_thread", worker_threads = 2)]
async fn acknowledged_batch_with_unsupported_timestamp_type_can_never_be_flushed() {
    let dir = TempDir::new().unwrap();
    let store: Arc<dyn ObjectStore> = Arc::new(InMemory::new());
    let metadata: Arc<dyn MetadataClient> = Arc::new(LocalMetadataClient::new());
    let new_ingester = || {
        Ingester::new(
            config(&dir), // flush_row_count = 10, WAL fsync on every write
            store.clone(),
            metadata.clone(),
            storage(),
            MetricSchema::default_metrics(),
        )
    };

    let mut ing = new_ingester();
    ing.ensure_wal().await.unwrap();

    // Acknowledged: three rows with a millisecond-precision `timestamp` column.
    let r = ing.write(millis_batch(1..=3)).await;
    println!("write of Timestamp(Millisecond) batch returned {:?}", r);
    r.expect("the write is accepted and acknowledged");

    // Crash + restart: the rows are recovered into the buffer ...
    drop(ing);
    let mut ing = new_ingester();
    ing.ensure_wal().await.unwrap();
    println!(
        "after restart: recovered buffer rows = {}",
        ing.buffer_stats().await.row_count
    );
    // ... and the next flush (timer / shutdown flush) cannot store them.
    ing.shutdown_token().cancel();
    ing.run_flush_timer().await;
    println!(
        "after that flush: buffer rows = {}, catalog chunks = {}, objects uploaded = {}",
        ing.buffer_stats().await.row_count,
        metadata.list_chunks().await.unwrap().len(),
        {
            use futures::StreamExt;
            store.list(None).count().await
        }
    );

    // The next successful flush: ten well-formed rows.
    ing.write(batch(11..=20)).await.expect("good write is acked and flushed");

    // Crash + restart again.
    drop(ing);
    let mut ing = new_ingester();
    ing.ensure_wal().await.unwrap();
    let recovered_rows = ing.buffer_stats().await.row_count;
    ing.shutdown_token().cancel();
    ing.run_flush_timer().await;
    let stored = values_in_catalog(&store, &metadata).await;
    println!(
        "recovered buffer rows = {}, catalog values = {:?}",
        recovered_rows, stored
    );

    let missing: Vec<i64> = (1..=3).filter(|v| !stored.contains(v)).collect();
    assert!(
        missing.is_empty(),
        "C01 violated: the write of rows {:?} returned Ok (WAL fsynced) but the rows can never be \
         flushed (flush_batches rejects their `timestamp` type after uploading the object); they are in \
         no catalog chunk and, after the next successful flush of other rows, not in the recovered \
         buffer either ({} rows recovered)",
        missing,
        recovered_rows
    );
}
