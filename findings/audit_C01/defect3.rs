//! C01 audit, defect 3: a write gets its WAL sequence number BEFORE it is known when its rows
//! join the buffer. On the schema-change path of `append_to_buffer_and_maybe_flush` the write
//! first flushes the old buffer (a full upload + catalog registration) and only afterwards
//! appends its own rows. While it is parked in that flush, a LATER write (higher sequence)
//! can be buffered, flushed by its own threshold flush, and have its sequence persisted as
//! `flushed_seq`. That mark is exactly right for what that flush took -- reading it at
//! take-time or after the upload makes no difference -- but it also covers the earlier
//! sequence whose rows are not in any buffer yet. When the parked write finally buffers its
//! rows, stores its (smaller) sequence with a plain `store` (last_wal_seq goes BACKWARDS)
//! and returns Ok, its rows are acknowledged, in memory only, and already "flushed"
//! according to the WAL. A crash loses them.
//!
//! The lost write is acknowledged when no flush is in flight at all; no failure is injected.

use arrow_array::{Array, Float64Array, Int64Array, RecordBatch, TimestampNanosecondArray};
use arrow_schema::{DataType, Field, Schema, TimeUnit};
use async_trait::async_trait;
use bytes::Bytes;
use cardinalsin::ingester::{load_flushed_seq, Ingester, IngesterConfig, WalConfig, WalSyncMode};
use cardinalsin::metadata::{LocalMetadataClient, MetadataClient};
use cardinalsin::schema::MetricSchema;
use cardinalsin::{CloudProvider, StorageConfig};
use futures::stream::BoxStream;
use object_store::memory::InMemory;
use object_store::path::Path;
use object_store::{
    GetOptions, GetResult, ListResult, MultipartUpload, ObjectMeta, ObjectStore, PutMultipartOpts,
    PutOptions, PutPayload, PutResult, Result as OsResult,
};
use parquet::arrow::arrow_reader::ParquetRecordBatchReaderBuilder;
use std::collections::BTreeSet;
use std::fmt;
use std::sync::atomic::{AtomicUsize, Ordering};
use std::sync::Arc;
use std::time::Duration;
use tempfile::TempDir;
use tokio::sync::Semaphore;

/// InMemory object store whose N-th chunk upload can be held until the test releases it.
struct GateStore {
    inner: Arc<InMemory>,
    chunk_puts: AtomicUsize,
    gated_put: usize,
    arrived: Semaphore,
    release: Semaphore,
}

impl GateStore {
    fn new(inner: Arc<InMemory>, gated_put: usize) -> Self {
        Self {
            inner,
            chunk_puts: AtomicUsize::new(0),
            gated_put,
            arrived: Semaphore::new(0),
            release: Semaphore::new(0),
        }
    }
}

impl fmt::Display for GateStore {
    fn fmt(&self, f: &mut fmt::Formatter<'_>) -> fmt::Result {
        write!(f, "GateStore")
    }
}
impl fmt::Debug for GateStore {
    fn fmt(&self, f: &mut fmt::Formatter<'_>) -> fmt::Result {
        write!(f, "GateStore")
    }
}

#[async_trait]
impl ObjectStore for GateStore {
    async fn put_opts(
        &self,
        location: &Path,
        payload: PutPayload,
        opts: PutOptions,
    ) -> OsResult<PutResult> {
        if location.as_ref().contains("chunk_") {
            let n = self.chunk_puts.fetch_add(1, Ordering::SeqCst);
            if n == self.gated_put {
                self.arrived.add_permits(1);
                self.release.acquire().await.unwrap().forget();
            }
        }
        self.inner.put_opts(location, payload, opts).await
    }
    async fn put_multipart_opts(
        &self,
        location: &Path,
        opts: PutMultipartOpts,
    ) -> OsResult<Box<dyn MultipartUpload>> {
        self.inner.put_multipart_opts(location, opts).await
    }
    async fn get_opts(&self, location: &Path, options: GetOptions) -> OsResult<GetResult> {
        self.inner.get_opts(location, options).await
    }
    async fn delete(&self, location: &Path) -> OsResult<()> {
        self.inner.delete(location).await
    }
    fn list(&self, prefix: Option<&Path>) -> BoxStream<'_, OsResult<ObjectMeta>> {
        self.inner.list(prefix)
    }
    async fn list_with_delimiter(&self, prefix: Option<&Path>) -> OsResult<ListResult> {
        self.inner.list_with_delimiter(prefix).await
    }
    async fn copy(&self, from: &Path, to: &Path) -> OsResult<()> {
        self.inner.copy(from, to).await
    }
    async fn copy_if_not_exists(&self, from: &Path, to: &Path) -> OsResult<()> {
        self.inner.copy_if_not_exists(from, to).await
    }
}

fn batch(values: std::ops::RangeInclusive<i64>) -> RecordBatch {
    let values: Vec<i64> = values.collect();
    let schema = Arc::new(Schema::new(vec![
        Field::new(
            "timestamp",
            DataType::Timestamp(TimeUnit::Nanosecond, None),
            false,
        ),
        Field::new("value", DataType::Int64, false),
    ]));
    let ts: Vec<i64> = values.iter().map(|v| v * 1_000_000_000).collect();
    RecordBatch::try_new(
        schema,
        vec![
            Arc::new(TimestampNanosecondArray::from(ts)),
            Arc::new(Int64Array::from(values)),
        ],
    )
    .unwrap()
}

fn config(dir: &TempDir) -> IngesterConfig {
    IngesterConfig {
        flush_row_count: 10,
        flush_size_bytes: 1 << 30,
        flush_interval: Duration::from_secs(3600),
        wal: WalConfig {
            wal_dir: dir.path().to_path_buf(),
            max_segment_size: 64 * 1024 * 1024,
            sync_mode: WalSyncMode::EveryWrite,
            enabled: true,
        },
        ..Default::default()
    }
}

fn storage() -> StorageConfig {
    StorageConfig {
        provider: CloudProvider::Memory,
        container: "bucket".into(),
        tenant_id: "tenant".into(),
    }
}

/// Every `value` stored in a chunk that is registered in the catalog.
async fn values_in_catalog(
    store: &Arc<dyn ObjectStore>,
    metadata: &Arc<dyn MetadataClient>,
) -> BTreeSet<i64> {
    let mut out = BTreeSet::new();
    for chunk in metadata.list_chunks().await.unwrap() {
        let bytes: Bytes = store
            .get(&Path::from(chunk.chunk_path.as_str()))
            .await
            .unwrap()
            .bytes()
            .await
            .unwrap();
        let reader = ParquetRecordBatchReaderBuilder::try_new(bytes)
            .unwrap()
            .build()
            .unwrap();
        for b in reader {
            let b = b.unwrap();
            let col = b.column_by_name("value").unwrap();
            if let Some(a) = col.as_any().downcast_ref::<Int64Array>() {
                out.extend(a.iter().flatten());
            } else if let Some(a) = col.as_any().downcast_ref::<Float64Array>() {
                out.extend(a.iter().flatten().map(|v| v as i64));
            }
        }
    }
    out
}


fn batch_f64(values: std::ops::RangeInclusive<i64>) -> RecordBatch {
    let values: Vec<i64> = values.collect();
    let schema = Arc::new(Schema::new(vec![
        Field::new(
            "timestamp",
            DataType::Timestamp(TimeUnit::Nanosecond, None),
            false,
        ),
        Field::new("value", DataType::Float64, false),
    ]));
    let ts: Vec<i64> = values.iter().map(|v| v * 1_000_000_000).collect();
    RecordBatch::try_new(
        schema,
        vec![
            Arc::new(TimestampNanosecondArray::from(ts)),
            Arc::new(Float64Array::from(
                values.iter().map(|v| *v as f64).collect::<Vec<f64>>(),
            )),
        ],
    )
    .unwrap()
}

#[tokio::test(flavor = "multi_thread", worker_threads = 2)]
async fn write_parked_in_a_schema_change_flush_is_covered_by_a_later_writes_flush_mark() {
    let dir = TempDir::new().unwrap();
    let mem = Arc::new(InMemory::new());
    // Hold the first chunk upload: the schema-change flush performed by write A.
    let gate = Arc::new(GateStore::new(mem.clone(), 0));
    let store: Arc<dyn ObjectStore> = gate.clone();
    let metadata: Arc<dyn MetadataClient> = Arc::new(LocalMetadataClient::new());

    let mut ing = Ingester::new(
        config(&dir), // flush_row_count = 10, WAL fsync on every write
        store.clone(),
        metadata.clone(),
        storage(),
        MetricSchema::default_metrics(),
    );
    ing.ensure_wal().await.unwrap();
    let ing = Arc::new(ing);

    // seq 1: four Int64-valued rows, acknowledged, buffered.
    ing.write(batch(1..=4)).await.expect("write 0 must be acked");

    // Write A (seq 2): three Float64-valued rows -> different schema -> A takes the old buffer
    // and flushes it first. The upload is slow; A is parked with seq 2 in the WAL but its
    // rows in no buffer.
    let ing_a = ing.clone();
    let write_a = tokio::spawn(async move { ing_a.write(batch_f64(100..=102)).await });
    gate.arrived.acquire().await.unwrap().forget();

    // Write B (seq 3): ten rows -> buffered into the (now empty) buffer -> threshold flush of
    // exactly those ten rows -> flushed_seq := 3. Correct for B. B is acknowledged.
    ing.write(batch_f64(200..=209)).await.expect("write B must be acked");
    println!(
        "after B: flushed_seq = {}, buffer rows = {}, catalog chunks = {}",
        load_flushed_seq(dir.path()).unwrap(),
        ing.buffer_stats().await.row_count,
        metadata.list_chunks().await.unwrap().len()
    );

    // A's upload completes; A buffers its rows and is acknowledged.
    gate.release.add_permits(1);
    write_a
        .await
        .unwrap()
        .expect("write A must be acked (nothing failed)");
    println!(
        "after A acked: flushed_seq = {}, buffer rows = {} (A's rows, seq 2)",
        load_flushed_seq(dir.path()).unwrap(),
        ing.buffer_stats().await.row_count
    );
    assert_eq!(ing.buffer_stats().await.row_count, 3);

    // Crash + restart.
    drop(ing);
    let mut ing = Ingester::new(
        config(&dir),
        store.clone(),
        metadata.clone(),
        storage(),
        MetricSchema::default_metrics(),
    );
    ing.ensure_wal().await.unwrap();
    let recovered_rows = ing.buffer_stats().await.row_count;
    ing.shutdown_token().cancel();
    ing.run_flush_timer().await;
    let stored = values_in_catalog(&store, &metadata).await;
    println!(
        "recovered buffer rows = {}, catalog values after restart+flush = {:?}",
        recovered_rows, stored
    );

    let missing: Vec<i64> = (100..=102).filter(|v| !stored.contains(v)).collect();
    assert!(
        missing.is_empty(),
        "C01 violated: write A (WAL seq 2) returned Ok with the WAL fsynced, but after a crash its \
         rows {:?} are neither in a catalog chunk nor in the recovered buffer ({} rows recovered): \
         flushed_seq = 3 was persisted by the flush of the later write B while A's rows were not \
         yet buffered, so recovery skips seq 2",
        missing,
        recovered_rows
    );
}
