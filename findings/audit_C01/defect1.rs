//! C01 audit, defect 1: a threshold flush runs INLINE in the future of the write call that
//! crossed the threshold. That future belongs to the HTTP / gRPC request handler
//! (`state.ingester.write(batch).await` in src/api/ingest/*.rs), so it is dropped when the
//! client disconnects or the request is cancelled. `flush_batches` has already *taken* the
//! whole buffer -- i.e. the rows of every previously acknowledged write -- into a local
//! `Vec`. Dropping the future drops that `Vec`: nothing is uploaded, nothing is put back,
//! no error path runs. The rows now exist only in the WAL, and the next successful flush
//! (of completely unrelated rows) records a flushed sequence beyond them, so they are
//! skipped on recovery as well.
//!
//! No object-store or catalog failure is injected at all: the store is only made slow
//! enough for the flush to be in flight when the request is cancelled.

use arrow_array::{Array, Float64Array, Int64Array, RecordBatch, TimestampNanosecondArray};
use arrow_schema::{DataType, Field, Schema, TimeUnit};
use async_trait::async_trait;
use bytes::Bytes;
use cardinalsin::ingester::{load_flushed_seq, Ingester, IngesterConfig, WalConfig, WalSyncMode};
use cardinalsin::metadata::{LocalMetadataClient, MetadataClient};
use cardinalsin::schema::MetricSchema;
use cardinalsin::{CloudProvider, StorageConfig};
use futures::stream::BoxStream;
use object_store::memory::InMemory;
use object_store::path::Path;
use object_store::{
    GetOptions, GetResult, ListResult, MultipartUpload, ObjectMeta, ObjectStore, PutMultipartOpts,
    PutOptions, PutPayload, PutResult, Result as OsResult,
};
use parquet::arrow::arrow_reader::ParquetRecordBatchReaderBuilder;
use std::collections::BTreeSet;
use std::fmt;
use std::sync::atomic::{AtomicUsize, Ordering};
use std::sync::Arc;
use std::time::Duration;
use tempfile::TempDir;
use tokio::sync::Semaphore;

/// InMemory object store whose N-th chunk upload can be held until the test releases it.
struct GateStore {
    inner: Arc<InMemory>,
    chunk_puts: AtomicUsize,
    gated_put: usize,
    arrived: Semaphore,
    release: Semaphore,
}

impl GateStore {
    fn new(inner: Arc<InMemory>, gated_put: usize) -> Self {
        Self {
            inner,
            chunk_puts: AtomicUsize::new(0),
            gated_put,
            arrived: Semaphore::new(0),
            release: Semaphore::new(0),
        }
    }
}

impl fmt::Display for GateStore {
    fn fmt(&self, f: &mut fmt::Formatter<'_>) -> fmt::Result {
        write!(f, "GateStore")
    }
}
impl fmt::Debug for GateStore {
    fn fmt(&self, f: &mut fmt::Formatter<'_>) -> fmt::Result {
        write!(f, "GateStore")
    }
}

#[async_trait]
impl ObjectStore for GateStore {
    async fn put_opts(
        &self,
        location: &Path,
        payload: PutPayload,
        opts: PutOptions,
    ) -> OsResult<PutResult> {
        if location.as_ref().contains("chunk_") {
            let n = self.chunk_puts.fetch_add(1, Ordering::SeqCst);
            if n == self.gated_put {
                self.arrived.add_permits(1);
                self.release.acquire().await.unwrap().forget();
            }
        }
        self.inner.put_opts(location, payload, opts).await
    }
    async fn put_multipart_opts(
        &self,
        location: &Path,
        opts: PutMultipartOpts,
    ) -> OsResult<Box<dyn MultipartUpload>> {
        self.inner.put_multipart_opts(location, opts).await
    }
    async fn get_opts(&self, location: &Path, options: GetOptions) -> OsResult<GetResult> {
        self.inner.get_opts(location, options).await
    }
    async fn delete(&self, location: &Path) -> OsResult<()> {
        self.inner.delete(location).await
    }
    fn list(&self, prefix: Option<&Path>) -> BoxStream<'_, OsResult<ObjectMeta>> {
        self.inner.list(prefix)
    }
    async fn list_with_delimiter(&self, prefix: Option<&Path>) -> OsResult<ListResult> {
        self.inner.list_with_delimiter(prefix).await
    }
    async fn copy(&self, from: &Path, to: &Path) -> OsResult<()> {
        self.inner.copy(from, to).await
    }
    async fn copy_if_not_exists(&self, from: &Path, to: &Path) -> OsResult<()> {
        self.inner.copy_if_not_exists(from, to).await
    }
}

fn batch(values: std::ops::RangeInclusive<i64>) -> RecordBatch {
    let values: Vec<i64> = values.collect();
    let schema = Arc::new(Schema::new(vec![
        Field::new(
            "timestamp",
            DataType::Timestamp(TimeUnit::Nanosecond, None),
            false,
        ),
        Field::new("value", DataType::Int64, false),
    ]));
    let ts: Vec<i64> = values.iter().map(|v| v * 1_000_000_000).collect();
    RecordBatch::try_new(
        schema,
        vec![
            Arc::new(TimestampNanosecondArray::from(ts)),
            Arc::new(Int64Array::from(values)),
        ],
    )
    .unwrap()
}

fn config(dir: &TempDir) -> IngesterConfig {
    IngesterConfig {
        flush_row_count: 10,
        flush_size_bytes: 1 << 30,
        flush_interval: Duration::from_secs(3600),
        wal: WalConfig {
            wal_dir: dir.path().to_path_buf(),
            max_segment_size: 64 * 1024 * 1024,
            sync_mode: WalSyncMode::EveryWrite,
            enabled: true,
        },
        ..Default::default()
    }
}

fn storage() -> StorageConfig {
    StorageConfig {
        provider: CloudProvider::Memory,
        container: "bucket".into(),
        tenant_id: "tenant".into(),
    }
}

/// Every `value` stored in a chunk that is registered in the catalog.
async fn values_in_catalog(
    store: &Arc<dyn ObjectStore>,
    metadata: &Arc<dyn MetadataClient>,
) -> BTreeSet<i64> {
    let mut out = BTreeSet::new();
    for chunk in metadata.list_chunks().await.unwrap() {
        let bytes: Bytes = store
            .get(&Path::from(chunk.chunk_path.as_str()))
            .await
            .unwrap()
            .bytes()
            .await
            .unwrap();
        let reader = ParquetRecordBatchReaderBuilder::try_new(bytes)
            .unwrap()
            .build()
            .unwrap();
        for b in reader {
            let b = b.unwrap();
            let col = b.column_by_name("value").unwrap();
            if let Some(a) = col.as_any().downcast_ref::<Int64Array>() {
                out.extend(a.iter().flatten());
            } else if let Some(a) = col.as_any().downcast_ref::<Float64Array>() {
                out.extend(a.iter().flatten().map(|v| v as i64));
            }
        }
    }
    out
}

#[tokio::test(flavor = "multi_thread", worker_threads = 2)]
async fn acked_rows_are_lost_when_the_request_running_the_threshold_flush_is_cancelled() {
    let dir = TempDir::new().unwrap();
    let mem = Arc::new(InMemory::new());
    // Hold the first chunk upload (the flush triggered by write #2) until released.
    let gate = Arc::new(GateStore::new(mem.clone(), 0));
    let store: Arc<dyn ObjectStore> = gate.clone();
    let metadata: Arc<dyn MetadataClient> = Arc::new(LocalMetadataClient::new());

    let mut ing = Ingester::new(
        config(&dir),
        store.clone(),
        metadata.clone(),
        storage(),
        MetricSchema::default_metrics(),
    );
    ing.ensure_wal().await.unwrap();
    let ing = Arc::new(ing);

    // Write #1: rows 1..=5, acknowledged, WAL synced (EveryWrite), sits in the buffer.
    ing.write(batch(1..=5)).await.expect("write #1 must be acked");

    // Write #2: rows 6..=10 reach flush_row_count = 10, so this request's future takes the
    // whole buffer (rows 1..=10) and starts uploading it inline.
    let ing2 = ing.clone();
    let request2 = tokio::spawn(async move { ing2.write(batch(6..=10)).await });
    gate.arrived.acquire().await.unwrap().forget(); // flush is in flight

    // The client of request #2 goes away: the server drops the handler future.
    request2.abort();
    assert!(request2.await.unwrap_err().is_cancelled());
    gate.release.add_permits(1); // nobody is waiting any more

    println!(
        "after cancelled request: buffer rows = {}, catalog chunks = {}, flushed_seq = {}",
        ing.buffer_stats().await.row_count,
        metadata.list_chunks().await.unwrap().len(),
        load_flushed_seq(dir.path()).unwrap()
    );

    // Write #3: ten unrelated rows, flushed successfully straight away.
    ing.write(batch(11..=20)).await.expect("write #3 must be acked");
    println!(
        "after write #3: buffer rows = {}, catalog chunks = {}, flushed_seq = {}",
        ing.buffer_stats().await.row_count,
        metadata.list_chunks().await.unwrap().len(),
        load_flushed_seq(dir.path()).unwrap()
    );

    // Without any crash: rows 1..=5 are in no registered chunk and not in the buffer.
    let live = values_in_catalog(&store, &metadata).await;
    let buffered = ing.buffer_stats().await.row_count;

    // Crash + restart on the same WAL directory, object store and catalog.
    drop(ing);
    let mut ing = Ingester::new(
        config(&dir),
        store.clone(),
        metadata.clone(),
        storage(),
        MetricSchema::default_metrics(),
    );
    ing.ensure_wal().await.unwrap();
    let recovered_rows = ing.buffer_stats().await.row_count;
    // "the next successful flush": the shutdown flush of the restarted ingester.
    ing.shutdown_token().cancel();
    ing.run_flush_timer().await;
    let after_restart = values_in_catalog(&store, &metadata).await;
    println!(
        "live catalog values = {:?} (buffer rows {}), recovered buffer rows = {}, catalog values after restart+flush = {:?}",
        live, buffered, recovered_rows, after_restart
    );

    let missing: Vec<i64> = (1..=5).filter(|v| !after_restart.contains(v)).collect();
    assert!(
        missing.is_empty(),
        "C01 violated: write #1 was acknowledged (WAL synced) but its rows {:?} are in no catalog \
         chunk and not in the recovered buffer ({} rows recovered) after restart + flush; they were \
         dropped when the request that was running the inline threshold flush was cancelled, and the \
         next flush advanced flushed_seq past them",
        missing,
        recovered_rows
    );
}
