#!/bin/bash
# usage: findings/run_inline_demo.sh <demo.diff> <test-name-filter> [name]  -- in-crate demonstration (unit tests added by a diff)
set -u
f=$(readlink -f "$1"); filt=$2; n=${3:-inline}
wt=/var/tmp/demo-$n
export CARGO_NET_OFFLINE=true CARGO_INCREMENTAL=0 CARGO_TARGET_DIR=${CONFIRM_TARGET:-/repo/target}
git -C /repo worktree remove --force $wt 2>/dev/null
git -C /repo worktree add --detach $wt HEAD -q || exit 2
trap 'git -C /repo worktree remove --force $wt' EXIT
cd $wt; git apply "$f" || exit 2
find src tests -name '*.rs' -exec touch {} +
cargo nextest run --offline --lib --no-fail-fast -E "test($filt)" 2>&1 | grep -vE "^\s+(Compiling|Blocking)" | grep -vE "^\s+[0-9]+: |^\s+at " | tail -60
