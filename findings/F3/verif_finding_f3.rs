//! Known finding F3: the flushed-sequence mark can cover a write that was not part
//! of the flush.
//!
//! `Ingester::flush_batches` reads `self.last_wal_seq` only AFTER the upload and the
//! catalog registration, and uses that value for `truncate_before(..)` and
//! `persist_flushed_seq(..)`. A `write()` acknowledged while the flush is between
//! `buffer.take()` and that load (i.e. during the object-store `put`) has already
//! appended to the WAL and stored its sequence into `last_wal_seq`, but its batch is
//! in the *buffer*, not in the chunk being flushed. The persisted flushed sequence
//! then covers it; if the process crashes before the next flush, recovery
//! (`ensure_wal` -> `read_entries_after(flushed_seq)`) skips it.
//!
//! Required behaviour: once `write()` returned `Ok`, every row of that write survives
//! a crash: after restart it is in a registered chunk or in the recovered buffer.
//!
//! This test asserts the required behaviour and therefore FAILS on the current code.

use arrow_array::types::TimestampNanosecondType;
use arrow_array::{Int64Array, PrimitiveArray, RecordBatch};
use arrow_schema::{DataType, Field, Schema, TimeUnit};
use async_trait::async_trait;
use bytes::Bytes;
use cardinalsin::ingester::{load_flushed_seq, Ingester, IngesterConfig, WalConfig, WalSyncMode};
use cardinalsin::metadata::{LocalMetadataClient, MetadataClient};
use cardinalsin::schema::MetricSchema;
use cardinalsin::{CloudProvider, StorageConfig};
use futures::stream::BoxStream;
use object_store::memory::InMemory;
use object_store::{
    path::Path, GetOptions, GetResult, ListResult, MultipartUpload, ObjectMeta, ObjectStore,
    PutMultipartOpts, PutOptions, PutPayload, PutResult, Result as ObjectStoreResult,
};
use std::fmt;
use std::ops::Range;
use std::sync::atomic::{AtomicBool, AtomicUsize, Ordering};
use std::sync::Arc;
use std::time::Duration;
use tempfile::TempDir;
use tokio::sync::{Notify, Semaphore};

// ---------------------------------------------------------------------------
// Object store whose upload blocks while the gate is armed. Everything else is
// delegated to an in-memory store (same pattern as src/query/cached_store.rs).
// ---------------------------------------------------------------------------

struct GatedStore {
    inner: Arc<InMemory>,
    /// When set, the next `put` signals `entered` and waits for a permit on `release`.
    armed: AtomicBool,
    entered: Notify,
    release: Semaphore,
    puts: AtomicUsize,
}

impl GatedStore {
    fn new() -> Self {
        Self {
            inner: Arc::new(InMemory::new()),
            armed: AtomicBool::new(false),
            entered: Notify::new(),
            release: Semaphore::new(0),
            puts: AtomicUsize::new(0),
        }
    }

    async fn gate(&self) {
        self.puts.fetch_add(1, Ordering::SeqCst);
        // Only the first upload after arming is held.
        if self.armed.swap(false, Ordering::SeqCst) {
            self.entered.notify_one();
            self.release
                .acquire()
                .await
                .expect("gate semaphore closed")
                .forget();
        }
    }
}

impl fmt::Display for GatedStore {
    fn fmt(&self, f: &mut fmt::Formatter<'_>) -> fmt::Result {
        write!(f, "GatedStore({})", self.inner)
    }
}

impl fmt::Debug for GatedStore {
    fn fmt(&self, f: &mut fmt::Formatter<'_>) -> fmt::Result {
        f.debug_struct("GatedStore").finish()
    }
}

#[async_trait]
impl ObjectStore for GatedStore {
    async fn put(&self, location: &Path, bytes: PutPayload) -> ObjectStoreResult<PutResult> {
        self.gate().await;
        self.inner.put(location, bytes).await
    }

    async fn put_opts(
        &self,
        location: &Path,
        bytes: PutPayload,
        opts: PutOptions,
    ) -> ObjectStoreResult<PutResult> {
        self.gate().await;
        self.inner.put_opts(location, bytes, opts).await
    }

    async fn put_multipart(&self, location: &Path) -> ObjectStoreResult<Box<dyn MultipartUpload>> {
        self.inner.put_multipart(location).await
    }

    async fn put_multipart_opts(
        &self,
        location: &Path,
        opts: PutMultipartOpts,
    ) -> ObjectStoreResult<Box<dyn MultipartUpload>> {
        self.inner.put_multipart_opts(location, opts).await
    }

    async fn get(&self, location: &Path) -> ObjectStoreResult<GetResult> {
        self.inner.get(location).await
    }

    async fn get_opts(&self, location: &Path, options: GetOptions) -> ObjectStoreResult<GetResult> {
        self.inner.get_opts(location, options).await
    }

    async fn get_range(&self, location: &Path, range: Range<usize>) -> ObjectStoreResult<Bytes> {
        self.inner.get_range(location, range).await
    }

    async fn head(&self, location: &Path) -> ObjectStoreResult<ObjectMeta> {
        self.inner.head(location).await
    }

    async fn delete(&self, location: &Path) -> ObjectStoreResult<()> {
        self.inner.delete(location).await
    }

    fn list(&self, prefix: Option<&Path>) -> BoxStream<'_, ObjectStoreResult<ObjectMeta>> {
        self.inner.list(prefix)
    }

    fn list_with_offset(
        &self,
        prefix: Option<&Path>,
        offset: &Path,
    ) -> BoxStream<'_, ObjectStoreResult<ObjectMeta>> {
        self.inner.list_with_offset(prefix, offset)
    }

    async fn list_with_delimiter(&self, prefix: Option<&Path>) -> ObjectStoreResult<ListResult> {
        self.inner.list_with_delimiter(prefix).await
    }

    async fn copy(&self, from: &Path, to: &Path) -> ObjectStoreResult<()> {
        self.inner.copy(from, to).await
    }

    async fn rename(&self, from: &Path, to: &Path) -> ObjectStoreResult<()> {
        self.inner.rename(from, to).await
    }

    async fn copy_if_not_exists(&self, from: &Path, to: &Path) -> ObjectStoreResult<()> {
        self.inner.copy_if_not_exists(from, to).await
    }
}

// ---------------------------------------------------------------------------
// Helpers
// ---------------------------------------------------------------------------

const FLUSH_ROWS: usize = 10;
const ROWS_A: usize = 6; // below the threshold
const ROWS_B: usize = 6; // A + B crosses the threshold -> flush (held inside `put`)
const ROWS_C: usize = 3; // small, acknowledged while the flush of A+B is in flight

const TS_A: i64 = 1_000_000_000_000;
const TS_B: i64 = 2_000_000_000_000;
const TS_C: i64 = 3_000_000_000_000;

/// `rows` rows with timestamps `start, start+1, ...` (distinct per batch).
fn make_batch(start: i64, rows: usize) -> RecordBatch {
    let schema = Arc::new(Schema::new(vec![
        Field::new(
            "timestamp",
            DataType::Timestamp(TimeUnit::Nanosecond, None),
            false,
        ),
        Field::new("value", DataType::Int64, false),
    ]));
    let ts: Vec<i64> = (0..rows as i64).map(|i| start + i).collect();
    RecordBatch::try_new(
        schema,
        vec![
            Arc::new(PrimitiveArray::<TimestampNanosecondType>::from(ts.clone())),
            Arc::new(Int64Array::from(ts)),
        ],
    )
    .unwrap()
}

fn make_config(dir: &TempDir) -> IngesterConfig {
    IngesterConfig {
        flush_row_count: FLUSH_ROWS,
        flush_size_bytes: 100 * 1024 * 1024,
        wal: WalConfig {
            wal_dir: dir.path().to_path_buf(),
            max_segment_size: 64 * 1024 * 1024,
            sync_mode: WalSyncMode::EveryWrite,
            enabled: true,
        },
        ..Default::default()
    }
}

fn make_ingester(
    dir: &TempDir,
    store: Arc<GatedStore>,
    metadata: Arc<LocalMetadataClient>,
) -> Ingester {
    let storage_config = StorageConfig {
        provider: CloudProvider::Memory,
        container: "test-bucket".to_string(),
        tenant_id: "test-tenant".to_string(),
    };
    Ingester::new(
        make_config(dir),
        store as Arc<dyn ObjectStore>,
        metadata as Arc<dyn MetadataClient>,
        storage_config,
        MetricSchema::default_metrics(),
    )
}

async fn rows_in_catalog(metadata: &LocalMetadataClient) -> usize {
    let chunks = metadata.list_chunks().await.unwrap();
    for c in &chunks {
        eprintln!(
            "  chunk rows={} ts=[{}, {}] {}",
            c.row_count, c.min_timestamp, c.max_timestamp, c.chunk_path
        );
    }
    chunks.iter().map(|c| c.row_count as usize).sum()
}

// ---------------------------------------------------------------------------
// Test (asserts the required behaviour; fails on the current code)
// ---------------------------------------------------------------------------

#[tokio::test(flavor = "multi_thread", worker_threads = 2)]
async fn f3_write_acknowledged_during_a_flush_survives_a_crash() {
    const STEP: Duration = Duration::from_secs(20);

    let dir = TempDir::new().unwrap();
    let store = Arc::new(GatedStore::new());
    let metadata = Arc::new(LocalMetadataClient::new());

    let mut ingester = make_ingester(&dir, store.clone(), metadata.clone());
    ingester.ensure_wal().await.unwrap();
    let ingester = Arc::new(ingester);

    // A: below the threshold, acknowledged, in WAL (seq 1) + buffer.
    ingester
        .write(make_batch(TS_A, ROWS_A))
        .await
        .expect("write A must be acknowledged");
    assert_eq!(ingester.buffer_stats().await.row_count, ROWS_A);

    // B: crosses the threshold; its flush of [A, B] is held inside the upload.
    store.armed.store(true, Ordering::SeqCst);
    let task_b = {
        let ingester = ingester.clone();
        tokio::spawn(async move { ingester.write(make_batch(TS_B, ROWS_B)).await })
    };
    tokio::time::timeout(STEP, store.entered.notified())
        .await
        .expect("flush of A+B never reached the object store put");
    assert_eq!(
        ingester.buffer_stats().await.row_count,
        0,
        "the flush in flight has taken A and B out of the buffer"
    );

    // C: written while the flush of [A, B] is in flight. It is acknowledged: the WAL
    // append got seq 3 and the batch sits in the (now empty) buffer; it is NOT part
    // of the chunk being uploaded.
    tokio::time::timeout(STEP, ingester.write(make_batch(TS_C, ROWS_C)))
        .await
        .expect("write C blocked behind the in-flight flush")
        .expect("write C must be acknowledged");
    assert_eq!(ingester.buffer_stats().await.row_count, ROWS_C);
    assert!(!task_b.is_finished(), "flush of A+B must still be in flight");

    // Let the upload finish; the flush registers [A, B] and then marks the WAL as
    // flushed up to `last_wal_seq`.
    store.release.add_permits(1);
    tokio::time::timeout(STEP, task_b)
        .await
        .expect("write B never finished")
        .expect("task B panicked")
        .expect("write B must be acknowledged");

    assert_eq!(store.puts.load(Ordering::SeqCst), 1, "exactly one flush so far");
    assert_eq!(rows_in_catalog(&metadata).await, ROWS_A + ROWS_B);
    assert_eq!(
        ingester.buffer_stats().await.row_count,
        ROWS_C,
        "C is acknowledged and lives only in the buffer (and the WAL)"
    );
    eprintln!(
        "before crash: persisted flushed seq = {} (A=1, B=2, C=3)",
        load_flushed_seq(dir.path()).unwrap()
    );

    // Crash: the process dies without flushing the buffer (no shutdown, no timer).
    let ingester = Arc::try_unwrap(ingester)
        .unwrap_or_else(|_| panic!("ingester still shared after task B finished"));
    drop(ingester);

    // Restart on the same WAL directory, catalog and object store.
    let mut restarted = make_ingester(&dir, store.clone(), metadata.clone());
    restarted.ensure_wal().await.unwrap();

    let in_chunks = rows_in_catalog(&metadata).await;
    let recovered = restarted.buffer_stats().await.row_count;
    eprintln!("after restart: rows in chunks = {in_chunks}, rows recovered into buffer = {recovered}");

    assert!(
        in_chunks + recovered >= ROWS_A + ROWS_B + ROWS_C,
        "F3: acknowledged write lost across a crash: chunks({in_chunks}) + recovered \
         buffer({recovered}) = {} < rows(A)+rows(B)+rows(C) = {}",
        in_chunks + recovered,
        ROWS_A + ROWS_B + ROWS_C
    );
}

/// Control (passes on the current code): the same history without the overlap. C is
/// written after the flush of [A, B] has completed, so the flushed mark is 2 and the
/// restart recovers C from the WAL. Shows that the failure above is caused by the
/// interleaving, not by the harness.
#[tokio::test(flavor = "multi_thread", worker_threads = 2)]
async fn f3_control_write_after_the_flush_is_recovered() {
    let dir = TempDir::new().unwrap();
    let store = Arc::new(GatedStore::new());
    let metadata = Arc::new(LocalMetadataClient::new());

    let mut ingester = make_ingester(&dir, store.clone(), metadata.clone());
    ingester.ensure_wal().await.unwrap();

    ingester.write(make_batch(TS_A, ROWS_A)).await.unwrap();
    ingester.write(make_batch(TS_B, ROWS_B)).await.unwrap(); // flushes [A, B]
    ingester.write(make_batch(TS_C, ROWS_C)).await.unwrap(); // buffer only
    assert_eq!(load_flushed_seq(dir.path()).unwrap(), 2);
    drop(ingester); // crash

    let mut restarted = make_ingester(&dir, store.clone(), metadata.clone());
    restarted.ensure_wal().await.unwrap();

    let in_chunks = rows_in_catalog(&metadata).await;
    let recovered = restarted.buffer_stats().await.row_count;
    assert_eq!(in_chunks, ROWS_A + ROWS_B);
    assert_eq!(recovered, ROWS_C);
}
