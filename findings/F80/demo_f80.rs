//! C12 audit, defect 3 (low severity): negative zero.
//!
//! The query engine evaluates `value_f64 < 0.0` row by row with the Arrow comparison
//! kernels, which order floats by IEEE-754 totalOrder: -0.0 < +0.0 is TRUE there.
//! `ColumnPredicate::evaluate_against_stats` compares the statistics with Rust's `>=` on
//! f64, where -0.0 >= +0.0, and prunes the chunk whose minimum is -0.0.
//!
//! (The row-level semantics are taken from the kernel directly: a debug build of
//! DataFusion 44 panics with "attempt to subtract with overflow" in
//! interval_arithmetic.rs:835 as soon as a Parquet file whose Float64 statistics contain
//! -0.0 is scanned with a filter on that column, so the end-to-end query cannot serve as
//! the oracle in `cargo test`; a release build wraps and answers.)

use arrow::compute::kernels::cmp::lt;
use arrow_array::Float64Array;
use cardinalsin::metadata::{ColumnPredicate, ColumnStats, PredicateValue};
use std::collections::HashMap;

#[test]
fn negative_zero_row_matches_lt_zero_but_chunk_is_pruned() {
    // The chunk: five rows, the smallest is -0.0. True statistics: min = -0.0, max = 5.0.
    let rows = Float64Array::from(vec![-0.0, 1.0, 2.0, 3.0, 5.0]);
    let mut stats = HashMap::new();
    stats.insert(
        "value_f64".to_string(),
        ColumnStats {
            min: serde_json::json!(-0.0_f64),
            max: serde_json::json!(5.0_f64),
            has_nulls: false,
        },
    );
    // ... and they survive the catalog's JSON round trip as -0.0
    let json = serde_json::to_string(&stats).unwrap();
    let stats: HashMap<String, ColumnStats> = serde_json::from_str(&json).unwrap();
    println!("statistics as stored in catalog.json: {json}");
    assert!(stats["value_f64"].min.as_f64().unwrap().is_sign_negative());

    // Row-level truth, as the engine computes it: value_f64 < 0.0
    let mask = lt(&rows, &Float64Array::new_scalar(0.0)).unwrap();
    let matching = mask.true_count();
    println!("rows of the chunk satisfying `value_f64 < 0.0` in the Arrow kernel: {matching}");

    // Chunk-level decision
    let pred = ColumnPredicate::Lt("value_f64".to_string(), PredicateValue::Float64(0.0));
    let may_match = pred.evaluate_against_stats(&stats);
    println!("evaluate_against_stats(Lt(value_f64, 0.0)) = {may_match}");

    assert!(
        may_match || matching == 0,
        "C12 VIOLATED: the chunk (min = -0.0, max = 5.0) is pruned for `value_f64 < 0.0`, but {matching} \
         of its rows (the one holding -0.0, which lies within the statistics) satisfies the predicate \
         under the engine's float ordering (IEEE totalOrder: -0.0 < +0.0)"
    );
}
