//! C18 defect 5: a row at/after the merge point is delivered TWICE when its batch is flushed
//! between the moment the streaming query subscribed / fixed its merge timestamp and the moment
//! it lists the historical chunks.
//!
//! `StreamingQueryExecutor::execute` (src/query/streaming.rs) does, in this order:
//!   (0) the caller has already (re)subscribed to the broadcast channel,
//!   (1) merge_timestamp = now,
//!   (2) chunks = metadata.get_chunks_with_predicates(..)      <- historical cut, by FLUSH time
//!   (3) historical = engine.run(sql over chunks)              <- sql is run as it is, no `timestamp < merge`
//!   (4) live rows are kept iff row.timestamp >= merge_timestamp  <- live cut, by ROW time
//! The ingester registers the chunk first and broadcasts afterwards (flush_batches). A batch that is
//! flushed between (0)/(1) and (2) is therefore in the chunk list AND in the subscriber's queue; its
//! rows with timestamp >= merge_timestamp pass (4) and were already returned by (3).
//!
//! The interleaving is forced with a MetadataClient wrapper whose chunk listing first lets one
//! concurrent `Ingester::write` (which triggers the flush) complete. No source change.

use arrow_array::{ArrayRef, Float64Array, Int64Array, RecordBatch, StringArray, TimestampNanosecondArray};
use arrow_schema::{Field, Schema};
use async_trait::async_trait;
use cardinalsin::ingester::{ChunkMetadata, Ingester, IngesterConfig, WalConfig};
use cardinalsin::metadata::{
    ColumnPredicate, CompactionJob, CompactionStatus, LocalMetadataClient, MetadataClient,
    SplitState, TimeIndexEntry, TimeRange,
};
use cardinalsin::query::{QueryConfig, QueryNode};
use cardinalsin::schema::MetricSchema;
use cardinalsin::sharding::{ShardMetadata, SplitPhase};
use cardinalsin::{Result, StorageConfig};
use object_store::memory::InMemory;
use std::sync::atomic::{AtomicBool, Ordering};
use std::sync::{Arc, OnceLock};
use std::time::Duration;

fn now_ns() -> i64 {
    chrono::Utc::now().timestamp_nanos_opt().unwrap()
}

fn row(id: i64, t: i64) -> RecordBatch {
    let cols: Vec<(&str, ArrayRef)> = vec![
        (
            "timestamp",
            Arc::new(TimestampNanosecondArray::from(vec![t]).with_timezone("UTC")),
        ),
        ("metric_name", Arc::new(StringArray::from(vec!["cpu"]))),
        ("id", Arc::new(Int64Array::from(vec![id]))),
        ("value_f64", Arc::new(Float64Array::from(vec![1.0]))),
    ];
    let fields: Vec<Field> = cols
        .iter()
        .map(|(n, a)| Field::new(*n, a.data_type().clone(), true))
        .collect();
    RecordBatch::try_new(
        Arc::new(Schema::new(fields)),
        cols.into_iter().map(|(_, a)| a).collect(),
    )
    .unwrap()
}

/// Delegates everything; when armed, the chunk listing of the streaming query first lets a
/// concurrent write (+ flush) finish.
struct Interleave {
    inner: Arc<LocalMetadataClient>,
    ingester: OnceLock<Arc<Ingester>>,
    armed: AtomicBool,
}

#[async_trait]
impl MetadataClient for Interleave {
    async fn register_chunk(&self, path: &str, metadata: &ChunkMetadata) -> Result<()> {
        self.inner.register_chunk(path, metadata).await
    }
    async fn get_chunks(&self, range: TimeRange) -> Result<Vec<TimeIndexEntry>> {
        self.inner.get_chunks(range).await
    }
    async fn get_chunks_with_predicates(
        &self,
        range: TimeRange,
        predicates: &[ColumnPredicate],
    ) -> Result<Vec<TimeIndexEntry>> {
        if self.armed.swap(false, Ordering::SeqCst) {
            // a writer that runs concurrently with the streaming query: its sample is taken NOW
            // (after the query fixed its merge timestamp) and fills the buffer, which is flushed
            let ing = self.ingester.get().unwrap().clone();
            ing.write(row(2, now_ns())).await.unwrap();
        }
        self.inner.get_chunks_with_predicates(range, predicates).await
    }
    async fn get_chunk(&self, path: &str) -> Result<Option<ChunkMetadata>> {
        self.inner.get_chunk(path).await
    }
    async fn delete_chunk(&self, path: &str) -> Result<()> {
        self.inner.delete_chunk(path).await
    }
    async fn list_chunks(&self) -> Result<Vec<TimeIndexEntry>> {
        self.inner.list_chunks().await
    }
    async fn get_l0_candidates(&self, min_count: usize) -> Result<Vec<Vec<String>>> {
        self.inner.get_l0_candidates(min_count).await
    }
    async fn get_level_candidates(&self, level: usize, target_size: usize) -> Result<Vec<Vec<String>>> {
        self.inner.get_level_candidates(level, target_size).await
    }
    async fn create_compaction_job(&self, job: CompactionJob) -> Result<()> {
        self.inner.create_compaction_job(job).await
    }
    async fn complete_compaction(&self, source_chunks: &[String], target_chunk: &str) -> Result<()> {
        self.inner.complete_compaction(source_chunks, target_chunk).await
    }
    async fn update_compaction_status(&self, job_id: &str, status: CompactionStatus) -> Result<()> {
        self.inner.update_compaction_status(job_id, status).await
    }
    async fn get_pending_compaction_jobs(&self) -> Result<Vec<CompactionJob>> {
        self.inner.get_pending_compaction_jobs().await
    }
    async fn start_split(&self, old_shard: &str, new_shards: Vec<String>, split_point: Vec<u8>) -> Result<()> {
        self.inner.start_split(old_shard, new_shards, split_point).await
    }
    async fn get_split_state(&self, shard_id: &str) -> Result<Option<SplitState>> {
        self.inner.get_split_state(shard_id).await
    }
    async fn update_split_progress(&self, shard_id: &str, progress: f64, phase: SplitPhase) -> Result<()> {
        self.inner.update_split_progress(shard_id, progress, phase).await
    }
    async fn complete_split(&self, old_shard: &str) -> Result<()> {
        self.inner.complete_split(old_shard).await
    }
    async fn get_chunks_for_shard(&self, shard_id: &str) -> Result<Vec<TimeIndexEntry>> {
        self.inner.get_chunks_for_shard(shard_id).await
    }
    async fn get_shard_metadata(&self, shard_id: &str) -> Result<Option<ShardMetadata>> {
        self.inner.get_shard_metadata(shard_id).await
    }
    async fn update_shard_metadata(&self, shard_id: &str, metadata: &ShardMetadata, expected_generation: u64) -> Result<()> {
        self.inner
            .update_shard_metadata(shard_id, metadata, expected_generation)
            .await
    }
}

#[tokio::test(flavor = "multi_thread", worker_threads = 2)]
async fn row_flushed_between_merge_point_and_chunk_listing_is_delivered_twice() {
    let store = Arc::new(InMemory::new());
    let meta = Arc::new(Interleave {
        inner: Arc::new(LocalMetadataClient::new()),
        ingester: OnceLock::new(),
        armed: AtomicBool::new(false),
    });
    let metadata: Arc<dyn MetadataClient> = meta.clone();
    let ingester = Arc::new(Ingester::new(
        IngesterConfig {
            flush_row_count: 2, // the second buffered row triggers the flush
            wal: WalConfig {
                enabled: false,
                ..Default::default()
            },
            ..Default::default()
        },
        store.clone(),
        metadata.clone(),
        StorageConfig::default(),
        MetricSchema::default_metrics(),
    ));
    let _ = meta.ingester.set(ingester.clone());

    let mut node = QueryNode::new(
        QueryConfig::default(),
        store.clone(),
        metadata.clone(),
        StorageConfig::default(),
    )
    .await
    .unwrap();
    node.connect_broadcast(ingester.subscribe());

    // row 1 sits in the write buffer (sampled before the query starts)
    ingester.write(row(1, now_ns())).await.unwrap();
    tokio::time::sleep(Duration::from_millis(5)).await;

    // the streaming query; while it lists its chunks, row 2 (sampled after the merge point) arrives
    // and the buffer [row 1, row 2] is flushed
    meta.armed.store(true, Ordering::SeqCst);
    let mut rx = node.query_stream("SELECT * FROM metrics").await.unwrap();

    let mut ids = Vec::new();
    while let Ok(Some(r)) = tokio::time::timeout(Duration::from_millis(700), rx.recv()).await {
        let b = r.unwrap();
        let col = b
            .column_by_name("id")
            .unwrap()
            .as_any()
            .downcast_ref::<Int64Array>()
            .unwrap()
            .clone();
        ids.extend(col.values().iter().copied());
    }
    println!("ids received on the stream, in order: {ids:?}");
    let twos = ids.iter().filter(|&&i| i == 2).count();
    assert!(twos >= 1, "row 2 was lost altogether: {ids:?}");
    assert_eq!(
        twos, 1,
        "C18 violated (\"each once\"): row id=2, sampled after the merge point and flushed after the \
         subscription, was delivered {twos} times on the stream (once by the historical scan, once by \
         the live tail); stream = {ids:?}"
    );
}
