//! C04 defect 2: the pruning inputs of a statement are planned against whatever table the
//! PREVIOUS statement left registered as `metrics`, so the answer depends on query history.
//!
//! `QueryNode::query_for_tenant` first calls `engine.extract_time_range(sql)` and
//! `engine.extract_column_predicates(sql)`. Both plan the SQL with
//! `plan_read_only_sql`, i.e. against the `metrics` table currently registered in the shared
//! SessionContext: at start-up the empty table with the built-in default schema, later the
//! listing table over the chunks the previous request selected. If the statement names a
//! label column that this left-over table does not have, planning fails with
//! "No field named ..." - the error is not "table not found", so it is returned to the
//! caller before the chunks of THIS statement's window were even looked up. The same
//! statement succeeds once some other statement happened to register chunks carrying the
//! column.

use arrow::util::pretty::pretty_format_batches;
use arrow_array::{Float64Array, Int64Array, RecordBatch, StringArray};
use arrow_schema::{DataType, Field, Schema};
use cardinalsin::ingester::{Ingester, IngesterConfig};
use cardinalsin::metadata::{LocalMetadataClient, MetadataClient};
use cardinalsin::query::{QueryConfig, QueryNode};
use cardinalsin::schema::MetricSchema;
use cardinalsin::StorageConfig;
use datafusion::datasource::MemTable;
use datafusion::prelude::SessionContext;
use object_store::memory::InMemory;
use std::sync::Arc;

/// Every row carries the label `dc` (a label name that is not one of the seven built-in
/// default label columns - like `job`, `le`, `quantile`, ... of any Prometheus feed).
fn rows(ts: Vec<i64>, dc: Vec<&str>) -> RecordBatch {
    let schema = Arc::new(Schema::new(vec![
        Field::new("timestamp", DataType::Int64, false),
        Field::new("metric_name", DataType::Utf8, false),
        Field::new("value_f64", DataType::Float64, true),
        Field::new("dc", DataType::Utf8, true),
    ]));
    let n = ts.len();
    RecordBatch::try_new(
        schema,
        vec![
            Arc::new(Int64Array::from(ts.clone())),
            Arc::new(StringArray::from(vec!["cpu"; n])),
            Arc::new(Float64Array::from(
                ts.iter().map(|t| *t as f64).collect::<Vec<_>>(),
            )),
            Arc::new(StringArray::from(dc)),
        ],
    )
    .unwrap()
}

async fn reference(all: &[RecordBatch], sql: &str) -> String {
    let ctx = SessionContext::new();
    let table = MemTable::try_new(all[0].schema(), vec![all.to_vec()]).unwrap();
    ctx.register_table("metrics", Arc::new(table)).unwrap();
    let batches = ctx.sql(sql).await.unwrap().collect().await.unwrap();
    pretty_format_batches(&batches).unwrap().to_string()
}

async fn answer(node: &QueryNode, sql: &str) -> String {
    match node.query(sql).await {
        Ok(batches) => pretty_format_batches(&batches).unwrap().to_string(),
        Err(e) => format!("ERROR: {e}"),
    }
}

#[tokio::test]
async fn same_statement_fails_or_succeeds_depending_on_the_previous_statement() {
    let object_store = Arc::new(InMemory::new());
    let metadata: Arc<dyn MetadataClient> = Arc::new(LocalMetadataClient::new());
    let storage_config = StorageConfig::default();
    let mut cfg = IngesterConfig::default();
    cfg.wal.enabled = false;
    cfg.flush_row_count = 2;
    let ingester = Ingester::new(
        cfg,
        object_store.clone(),
        metadata.clone(),
        storage_config.clone(),
        MetricSchema::default_metrics(),
    );

    // one label set, identical schema in every chunk
    let all = vec![
        rows(vec![100, 110], vec!["east", "west"]),
        rows(vec![120, 130], vec!["east", "west"]),
    ];
    for b in &all {
        ingester.write(b.clone()).await.unwrap();
    }
    assert_eq!(metadata.list_chunks().await.unwrap().len(), 2, "setup");

    let node = QueryNode::new(
        QueryConfig::default(),
        object_store.clone(),
        metadata.clone(),
        storage_config.clone(),
    )
    .await
    .unwrap();

    let sql = "SELECT timestamp, value_f64 FROM metrics \
               WHERE timestamp >= 0 AND timestamp < 1000 AND dc = 'east' ORDER BY timestamp";
    let expected = reference(&all, sql).await;

    // 1st: on a node that has not answered anything yet
    let cold = answer(&node, sql).await;
    // an unrelated statement over the same window (names no label column)
    let warm_up = "SELECT count(*) FROM metrics WHERE timestamp >= 0 AND timestamp < 1000";
    let warm_up_answer = answer(&node, warm_up).await;
    // 2nd: the very same statement, nothing was ingested / compacted in between
    let warm = answer(&node, sql).await;

    println!("statement: {sql}\nfull scan of all ingested rows:\n{expected}");
    println!("answer on a fresh QueryNode:\n{cold}");
    println!("then `{warm_up}` ->\n{warm_up_answer}");
    println!("same statement again:\n{warm}");

    assert_eq!(warm, expected, "sanity: after the warm-up the answer is the full-scan answer");
    assert_eq!(
        cold, expected,
        "C04 violated: the statement was planned for pruning against the table left registered \
         by earlier requests (here: the start-up default schema) and failed, although every \
         ingested chunk carries column `dc`; after an unrelated statement the identical SQL \
         returns the full-scan answer - the answer depends on query history.\n\
         statement: {sql}\nfresh node: {cold}\nafter `{warm_up}`:\n{warm}"
    );
}
