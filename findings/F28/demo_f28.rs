//! Known finding F28 (C17): an OTLP integer data point beyond 2^53 does not keep a numerically equal value.
use arrow_array::{Array, Float64Array};
use cardinalsin::api::ingest::otlp::export_request_to_arrow;
use opentelemetry_proto::tonic::collector::metrics::v1::ExportMetricsServiceRequest;
use opentelemetry_proto::tonic::metrics::v1::{
    metric::Data, number_data_point, Gauge, Metric, NumberDataPoint, ResourceMetrics, ScopeMetrics,
};

#[test]
fn otlp_integer_point_keeps_its_value() {
    let sent: i64 = 9_007_199_254_740_993; // 2^53 + 1, e.g. a byte counter
    let request = ExportMetricsServiceRequest {
        resource_metrics: vec![ResourceMetrics {
            resource: None,
            scope_metrics: vec![ScopeMetrics {
                scope: None,
                metrics: vec![Metric {
                    name: "bytes_total".to_string(),
                    description: String::new(),
                    unit: String::new(),
                    metadata: vec![],
                    data: Some(Data::Gauge(Gauge {
                        data_points: vec![NumberDataPoint {
                            attributes: vec![],
                            start_time_unix_nano: 0,
                            time_unix_nano: 1_000_000_000,
                            exemplars: vec![],
                            flags: 0,
                            value: Some(number_data_point::Value::AsInt(sent)),
                        }],
                    })),
                }],
                schema_url: String::new(),
            }],
            schema_url: String::new(),
        }],
    };
    let batch = export_request_to_arrow(&request).unwrap();
    assert_eq!(batch.num_rows(), 1);
    // the only value column the OTLP path produces
    assert!(batch.schema().field_with_name("value_i64").is_err());
    let col = batch.column_by_name("value_f64").unwrap();
    let stored = col.as_any().downcast_ref::<Float64Array>().unwrap().value(0);
    println!("sent {sent}, stored {stored:.1}");
    assert_eq!(stored as i128, sent as i128, "the row's value is not numerically equal to the point's");
}
