//! C18 defect 4: float comparisons in the live filter do not have SQL/engine semantics.
//!  (a) `=` / `<>` on Float64 use an ABSOLUTE tolerance of f64::EPSILON
//!      (`(v - expected).abs() < f64::EPSILON`), so `value_f64 <> 0` LOSES every row whose
//!      value is smaller than 2.2e-16 in magnitude and `value_f64 = 0` delivers them.
//!  (b) ordering comparisons use IEEE `<`/`>` whereas the engine (arrow) uses the total order
//!      in which NaN is greater than every number: `value_f64 > 100` selects NaN rows
//!      (Prometheus staleness markers are NaN samples) in the engine but not in the live tail.
//!
//! Oracle: same flushed batch, delivered live vs. selected by `QueryNode::query(sql)`.
#![allow(unused_imports, dead_code)]

use arrow_array::{
    ArrayRef, DictionaryArray, Float64Array, Int64Array, RecordBatch, StringArray,
    TimestampNanosecondArray, UInt16Array, UInt64Array,
};
use arrow_schema::{Field, Schema};
use cardinalsin::ingester::{Ingester, IngesterConfig, WalConfig};
use cardinalsin::metadata::{LocalMetadataClient, MetadataClient};
use cardinalsin::query::{QueryConfig, QueryNode};
use cardinalsin::schema::MetricSchema;
use cardinalsin::StorageConfig;
use object_store::memory::InMemory;
use std::sync::Arc;
use std::time::Duration;

fn now_ns() -> i64 {
    chrono::Utc::now().timestamp_nanos_opt().unwrap()
}

fn ts(v: Vec<i64>) -> ArrayRef {
    Arc::new(TimestampNanosecondArray::from(v).with_timezone("UTC"))
}

fn batch(cols: Vec<(&str, ArrayRef)>) -> RecordBatch {
    let fields: Vec<Field> = cols
        .iter()
        .map(|(n, a)| Field::new(*n, a.data_type().clone(), true))
        .collect();
    RecordBatch::try_new(
        Arc::new(Schema::new(fields)),
        cols.into_iter().map(|(_, a)| a).collect(),
    )
    .unwrap()
}

struct Harness {
    ingester: Arc<Ingester>,
    node: QueryNode,
}

async fn harness() -> Harness {
    let store = Arc::new(InMemory::new());
    let metadata: Arc<dyn MetadataClient> = Arc::new(LocalMetadataClient::new());
    let cfg = IngesterConfig {
        flush_row_count: 1, // every write is flushed (and broadcast) at once
        wal: WalConfig {
            enabled: false,
            ..Default::default()
        },
        ..Default::default()
    };
    let ingester = Arc::new(Ingester::new(
        cfg,
        store.clone(),
        metadata.clone(),
        StorageConfig::default(),
        MetricSchema::default_metrics(),
    ));
    let mut node = QueryNode::new(
        QueryConfig::default(),
        store.clone(),
        metadata.clone(),
        StorageConfig::default(),
    )
    .await
    .unwrap();
    node.connect_broadcast(ingester.subscribe());
    Harness { ingester, node }
}

fn ids_of(batches: &[RecordBatch], min_id: i64) -> Vec<i64> {
    let mut out = Vec::new();
    for b in batches {
        let col = b
            .column_by_name("id")
            .expect("id column")
            .as_any()
            .downcast_ref::<Int64Array>()
            .expect("id is Int64");
        for i in 0..col.len() {
            if col.value(i) >= min_id {
                out.push(col.value(i));
            }
        }
    }
    out
}

/// Returns (ids delivered live, ids the engine selects from the same flushed batch).
/// Live rows must carry ids >= 1000, seed rows ids < 1000.
async fn live_vs_engine(
    h: &Harness,
    sql: &str,
    seeds: Vec<RecordBatch>,
    live: impl FnOnce() -> Vec<RecordBatch>,
) -> (Vec<i64>, Vec<i64>) {
    for s in seeds {
        h.ingester.write(s).await.unwrap();
    }
    let mut rx = h.node.query_stream(sql).await.expect("query_stream");
    // drain the historical part
    while let Ok(Some(r)) = tokio::time::timeout(Duration::from_millis(300), rx.recv()).await {
        r.expect("historical batch");
    }
    // built (timestamps = now, i.e. after the merge point) and flushed after the subscription
    for b in live() {
        h.ingester.write(b).await.unwrap();
    }
    let mut delivered = Vec::new();
    while let Ok(Some(r)) = tokio::time::timeout(Duration::from_millis(500), rx.recv()).await {
        delivered.push(r.expect("live batch"));
    }
    let live_ids = ids_of(&delivered, 1000);
    let engine = h.node.query(sql).await.expect("engine query");
    let mut engine_ids = ids_of(&engine, 1000);
    engine_ids.sort();
    (live_ids, engine_ids)
}

fn mk(t: i64, ids: Vec<i64>, vals: Vec<f64>) -> RecordBatch {
    let n = ids.len();
    batch(vec![
        ("timestamp", ts(vec![t; n])),
        ("metric_name", Arc::new(StringArray::from(vec!["rate"; n]))),
        ("id", Arc::new(Int64Array::from(ids))),
        ("value_f64", Arc::new(Float64Array::from(vals))),
    ])
}

async fn check(sql: &str, vals: Vec<f64>) {
    let h = harness().await;
    let seed = mk(now_ns() - 60_000_000_000, vec![1], vec![1.0]);
    let ids: Vec<i64> = (0..vals.len() as i64).map(|i| 1000 + i).collect();
    let live = move || vec![mk(now_ns(), ids, vals)];
    let (live_ids, engine_ids) = live_vs_engine(&h, sql, vec![seed], live).await;
    println!("sql={sql}\n live tail delivered ids {live_ids:?}\n engine selects ids     {engine_ids:?}");
    assert_eq!(
        live_ids, engine_ids,
        "C18 violated: for `{sql}` the live tail delivered rows {live_ids:?} but the engine selects \
         {engine_ids:?} from the same flushed batch"
    );
}

#[tokio::test(flavor = "multi_thread", worker_threads = 2)]
async fn not_equal_zero_loses_tiny_values() {
    // ids 1000..: 0.0, 1e-17 (a tiny but non-zero rate), 5.0
    check("SELECT * FROM metrics WHERE value_f64 <> 0", vec![0.0, 1e-17, 5.0]).await;
}

#[tokio::test(flavor = "multi_thread", worker_threads = 2)]
async fn equal_zero_delivers_non_zero_values() {
    check("SELECT * FROM metrics WHERE value_f64 = 0", vec![0.0, 1e-17, 5.0]).await;
}

#[tokio::test(flavor = "multi_thread", worker_threads = 2)]
async fn equality_inside_or() {
    check(
        "SELECT * FROM metrics WHERE value_f64 = 0.5 OR value_f64 > 4",
        vec![0.5, 0.5000000000000001, 5.0],
    )
    .await;
}

#[tokio::test(flavor = "multi_thread", worker_threads = 2)]
async fn nan_rows_are_lost_for_greater_than() {
    check("SELECT * FROM metrics WHERE value_f64 > 100", vec![1.0, f64::NAN, 500.0]).await;
}
