//! C18 defect 3: a comparison against a NEGATIVE numeric literal (`value_f64 < -1`,
//! `-1 > value_f64`, `value_i64 >= -5`) is dropped by `QueryFilter::from_sql`: sqlparser
//! yields `UnaryOp { Minus, Value }`, `parse_sql_value` only accepts `Expr::Value`, so no
//! predicate is produced. Inside an OR the whole disjunction is then dropped as well.
//!
//! Oracle: same flushed batch, delivered live vs. selected by `QueryNode::query(sql)`.
#![allow(unused_imports, dead_code)]

use arrow_array::{
    ArrayRef, DictionaryArray, Float64Array, Int64Array, RecordBatch, StringArray,
    TimestampNanosecondArray, UInt16Array, UInt64Array,
};
use arrow_schema::{Field, Schema};
use cardinalsin::ingester::{Ingester, IngesterConfig, WalConfig};
use cardinalsin::metadata::{LocalMetadataClient, MetadataClient};
use cardinalsin::query::{QueryConfig, QueryNode};
use cardinalsin::schema::MetricSchema;
use cardinalsin::StorageConfig;
use object_store::memory::InMemory;
use std::sync::Arc;
use std::time::Duration;

fn now_ns() -> i64 {
    chrono::Utc::now().timestamp_nanos_opt().unwrap()
}

fn ts(v: Vec<i64>) -> ArrayRef {
    Arc::new(TimestampNanosecondArray::from(v).with_timezone("UTC"))
}

fn batch(cols: Vec<(&str, ArrayRef)>) -> RecordBatch {
    let fields: Vec<Field> = cols
        .iter()
        .map(|(n, a)| Field::new(*n, a.data_type().clone(), true))
        .collect();
    RecordBatch::try_new(
        Arc::new(Schema::new(fields)),
        cols.into_iter().map(|(_, a)| a).collect(),
    )
    .unwrap()
}

struct Harness {
    ingester: Arc<Ingester>,
    node: QueryNode,
}

async fn harness() -> Harness {
    let store = Arc::new(InMemory::new());
    let metadata: Arc<dyn MetadataClient> = Arc::new(LocalMetadataClient::new());
    let cfg = IngesterConfig {
        flush_row_count: 1, // every write is flushed (and broadcast) at once
        wal: WalConfig {
            enabled: false,
            ..Default::default()
        },
        ..Default::default()
    };
    let ingester = Arc::new(Ingester::new(
        cfg,
        store.clone(),
        metadata.clone(),
        StorageConfig::default(),
        MetricSchema::default_metrics(),
    ));
    let mut node = QueryNode::new(
        QueryConfig::default(),
        store.clone(),
        metadata.clone(),
        StorageConfig::default(),
    )
    .await
    .unwrap();
    node.connect_broadcast(ingester.subscribe());
    Harness { ingester, node }
}

fn ids_of(batches: &[RecordBatch], min_id: i64) -> Vec<i64> {
    let mut out = Vec::new();
    for b in batches {
        let col = b
            .column_by_name("id")
            .expect("id column")
            .as_any()
            .downcast_ref::<Int64Array>()
            .expect("id is Int64");
        for i in 0..col.len() {
            if col.value(i) >= min_id {
                out.push(col.value(i));
            }
        }
    }
    out
}

/// Returns (ids delivered live, ids the engine selects from the same flushed batch).
/// Live rows must carry ids >= 1000, seed rows ids < 1000.
async fn live_vs_engine(
    h: &Harness,
    sql: &str,
    seeds: Vec<RecordBatch>,
    live: impl FnOnce() -> Vec<RecordBatch>,
) -> (Vec<i64>, Vec<i64>) {
    for s in seeds {
        h.ingester.write(s).await.unwrap();
    }
    let mut rx = h.node.query_stream(sql).await.expect("query_stream");
    // drain the historical part
    while let Ok(Some(r)) = tokio::time::timeout(Duration::from_millis(300), rx.recv()).await {
        r.expect("historical batch");
    }
    // built (timestamps = now, i.e. after the merge point) and flushed after the subscription
    for b in live() {
        h.ingester.write(b).await.unwrap();
    }
    let mut delivered = Vec::new();
    while let Ok(Some(r)) = tokio::time::timeout(Duration::from_millis(500), rx.recv()).await {
        delivered.push(r.expect("live batch"));
    }
    let live_ids = ids_of(&delivered, 1000);
    let engine = h.node.query(sql).await.expect("engine query");
    let mut engine_ids = ids_of(&engine, 1000);
    engine_ids.sort();
    (live_ids, engine_ids)
}

fn mk(t: i64, ids: Vec<i64>, hosts: Vec<&str>, vals: Vec<f64>) -> RecordBatch {
    let n = ids.len();
    batch(vec![
        ("timestamp", ts(vec![t; n])),
        ("metric_name", Arc::new(StringArray::from(vec!["temperature"; n]))),
        ("id", Arc::new(Int64Array::from(ids))),
        ("host", Arc::new(StringArray::from(hosts))),
        ("value_f64", Arc::new(Float64Array::from(vals))),
    ])
}

async fn check(sql: &str) {
    let h = harness().await;
    let seed = mk(now_ns() - 60_000_000_000, vec![1], vec!["a"], vec![0.0]);
    let live = || {
        vec![mk(
            now_ns(),
            vec![1000, 1001, 1002, 1003],
            vec!["a", "b", "c", "d"],
            vec![-20.0, -0.5, 3.0, 40.0],
        )]
    };
    let (live_ids, engine_ids) = live_vs_engine(&h, sql, vec![seed], live).await;
    println!("sql={sql}\n live tail delivered ids {live_ids:?}\n engine selects ids     {engine_ids:?}");
    assert_eq!(
        live_ids, engine_ids,
        "C18 violated: for `{sql}` the live tail delivered rows {live_ids:?} but the engine selects \
         {engine_ids:?} from the same flushed batch (comparison with a negative literal is ignored)"
    );
}

#[tokio::test(flavor = "multi_thread", worker_threads = 2)]
async fn negative_literal_comparison() {
    check("SELECT * FROM metrics WHERE value_f64 < -1").await;
}

#[tokio::test(flavor = "multi_thread", worker_threads = 2)]
async fn negative_literal_reversed_operands() {
    check("SELECT * FROM metrics WHERE -1 > value_f64").await;
}

#[tokio::test(flavor = "multi_thread", worker_threads = 2)]
async fn negative_literal_inside_and() {
    check("SELECT * FROM metrics WHERE host <> 'd' AND value_f64 >= -1.0").await;
}

#[tokio::test(flavor = "multi_thread", worker_threads = 2)]
async fn negative_literal_inside_or_drops_the_whole_disjunction() {
    check("SELECT * FROM metrics WHERE host = 'd' OR value_f64 < -1").await;
}
