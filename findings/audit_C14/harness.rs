//! C14 audit: exhaustive single / nested fault injection over a shard split.
//! Scratch harness (exploration); confirmed findings are extracted into defectK.rs.

use arrow::array::{Int64Array, RecordBatch};
use arrow::datatypes::{DataType, Field, Schema};
use async_trait::async_trait;
use bytes::Bytes;
use cardinalsin::ingester::ChunkMetadata;
use cardinalsin::metadata::{
    CompactionJob, CompactionStatus, LocalMetadataClient, MetadataClient, ObjectStoreMetadataClient,
    ObjectStoreMetadataConfig, SplitState, TimeIndexEntry, TimeRange,
};
use cardinalsin::sharding::{ReplicaInfo, ShardMetadata, ShardSplitter, ShardState, SplitPhase};
use futures::stream::BoxStream;
use futures::StreamExt;
use object_store::memory::InMemory;
use object_store::path::Path;
use object_store::{
    GetOptions, GetResult, ListResult, MultipartUpload, ObjectMeta, ObjectStore, PutMultipartOpts,
    PutOptions, PutPayload, PutResult,
};
use parquet::arrow::arrow_reader::ParquetRecordBatchReaderBuilder;
use parquet::arrow::ArrowWriter;
use std::collections::BTreeMap;
use std::sync::atomic::{AtomicBool, AtomicUsize, Ordering};
use std::sync::{Arc, Mutex, OnceLock};

const OLD: &str = "shard-old";
const SP: i64 = 600_000_000_000; // 10 min in ns == round_to_5min(mid of [0, 20min])
const MAX_T: i64 = 1_200_000_000_000;

// ───────────────────────── fault controller ─────────────────────────

#[derive(Clone, Copy, Debug, PartialEq)]
enum When {
    Before,
    After,
}
#[derive(Clone, Copy, Debug, PartialEq)]
enum Kind {
    /// the process dies: every later request fails too until restart()
    Crash,
    /// a single request fails, the process goes on
    Error,
}
enum Act {
    Go,
    FailBefore,
    FailAfter,
}

#[derive(Default)]
struct Ctl {
    counter: AtomicUsize,
    plan: Mutex<Option<(usize, When, Kind)>>,
    dead: AtomicBool,
    fired: AtomicBool,
    log: Mutex<Vec<String>>,
    violations: Mutex<Vec<String>>,
}
impl Ctl {
    fn arm(&self, k: usize, w: When, kind: Kind) {
        self.counter.store(0, Ordering::SeqCst);
        self.fired.store(false, Ordering::SeqCst);
        self.dead.store(false, Ordering::SeqCst);
        *self.plan.lock().unwrap() = Some((k, w, kind));
    }
    fn disarm(&self) {
        self.counter.store(0, Ordering::SeqCst);
        self.dead.store(false, Ordering::SeqCst);
        *self.plan.lock().unwrap() = None;
    }
    fn on(&self, desc: String) -> Act {
        if self.dead.load(Ordering::SeqCst) {
            return Act::FailBefore;
        }
        let i = self.counter.fetch_add(1, Ordering::SeqCst);
        self.log.lock().unwrap().push(format!("{i}: {desc}"));
        let plan = *self.plan.lock().unwrap();
        if let Some((k, w, kind)) = plan {
            if i == k {
                self.fired.store(true, Ordering::SeqCst);
                *self.plan.lock().unwrap() = None;
                if kind == Kind::Crash {
                    self.dead.store(true, Ordering::SeqCst);
                }
                self.log
                    .lock()
                    .unwrap()
                    .push(format!("   ^^^ injected {w:?}/{kind:?}"));
                return match w {
                    When::Before => Act::FailBefore,
                    When::After => Act::FailAfter,
                };
            }
        }
        Act::Go
    }
}

fn os_err() -> object_store::Error {
    object_store::Error::Generic {
        store: "FaultStore",
        source: "injected fault".into(),
    }
}

// ───────────────────────── faulty object store ─────────────────────────

struct FaultStore {
    inner: Arc<InMemory>,
    ctl: Arc<Ctl>,
    oracle: OnceLock<Arc<dyn MetadataClient>>,
    last_progress: Mutex<Option<Vec<u8>>>,
}
impl std::fmt::Debug for FaultStore {
    fn fmt(&self, f: &mut std::fmt::Formatter<'_>) -> std::fmt::Result {
        write!(f, "FaultStore")
    }
}
impl std::fmt::Display for FaultStore {
    fn fmt(&self, f: &mut std::fmt::Formatter<'_>) -> std::fmt::Result {
        write!(f, "FaultStore")
    }
}

#[async_trait]
impl ObjectStore for FaultStore {
    async fn put_opts(
        &self,
        location: &Path,
        payload: PutPayload,
        opts: PutOptions,
    ) -> object_store::Result<PutResult> {
        let is_progress = location.as_ref().contains("split-progress");
        let bytes: Vec<u8> = if is_progress {
            payload.iter().flat_map(|b| b.to_vec()).collect()
        } else {
            Vec::new()
        };
        match self.ctl.on(format!("os.put {location}")) {
            Act::FailBefore => Err(os_err()),
            Act::FailAfter => {
                let r = self.inner.put_opts(location, payload, opts).await;
                if r.is_ok() && is_progress {
                    *self.last_progress.lock().unwrap() = Some(bytes);
                }
                r?;
                Err(os_err())
            }
            Act::Go => {
                let r = self.inner.put_opts(location, payload, opts).await;
                if r.is_ok() && is_progress {
                    *self.last_progress.lock().unwrap() = Some(bytes);
                }
                r
            }
        }
    }
    async fn put_multipart_opts(
        &self,
        location: &Path,
        opts: PutMultipartOpts,
    ) -> object_store::Result<Box<dyn MultipartUpload>> {
        self.inner.put_multipart_opts(location, opts).await
    }
    async fn get_opts(
        &self,
        location: &Path,
        options: GetOptions,
    ) -> object_store::Result<GetResult> {
        match self.ctl.on(format!("os.get {location}")) {
            Act::FailBefore | Act::FailAfter => Err(os_err()),
            Act::Go => self.inner.get_opts(location, options).await,
        }
    }
    async fn delete(&self, location: &Path) -> object_store::Result<()> {
        // invariant: no old-shard data removed before the cut-over has completed
        if location.as_ref().starts_with(&format!("{OLD}/")) {
            if let Some(o) = self.oracle.get() {
                let st = o.get_split_state(OLD).await.ok().flatten();
                let old = o.get_shard_metadata(OLD).await.ok().flatten();
                let deact = matches!(
                    old.map(|m| m.state),
                    Some(ShardState::PendingDeletion { .. })
                );
                if st.is_some() || !deact {
                    self.ctl.violations.lock().unwrap().push(format!(
                        "old-shard object {location} deleted before cut-over completed \
                         (split state present: {}, old shard deactivated: {deact})",
                        st.is_some()
                    ));
                }
            }
        }
        match self.ctl.on(format!("os.delete {location}")) {
            Act::FailBefore => Err(os_err()),
            Act::FailAfter => {
                self.inner.delete(location).await?;
                Err(os_err())
            }
            Act::Go => self.inner.delete(location).await,
        }
    }
    fn list(&self, prefix: Option<&Path>) -> BoxStream<'_, object_store::Result<ObjectMeta>> {
        self.inner.list(prefix)
    }
    async fn list_with_delimiter(&self, prefix: Option<&Path>) -> object_store::Result<ListResult> {
        self.inner.list_with_delimiter(prefix).await
    }
    async fn copy(&self, from: &Path, to: &Path) -> object_store::Result<()> {
        self.inner.copy(from, to).await
    }
    async fn copy_if_not_exists(&self, from: &Path, to: &Path) -> object_store::Result<()> {
        self.inner.copy_if_not_exists(from, to).await
    }
}

// ───────────────────────── faulty metadata client (wraps Local) ─────────────────────────

struct FaultMeta {
    inner: Arc<dyn MetadataClient>,
    ctl: Arc<Ctl>,
}
fn md_err() -> cardinalsin::Error {
    cardinalsin::Error::Metadata("injected fault".into())
}
macro_rules! faulty {
    ($self:ident, $desc:expr, $call:expr) => {{
        match $self.ctl.on($desc) {
            Act::FailBefore => Err(md_err()),
            Act::FailAfter => {
                $call.await?;
                Err(md_err())
            }
            Act::Go => $call.await,
        }
    }};
}

#[async_trait]
impl MetadataClient for FaultMeta {
    async fn register_chunk(&self, path: &str, metadata: &ChunkMetadata) -> cardinalsin::Result<()> {
        faulty!(
            self,
            format!("md.register_chunk {path}"),
            self.inner.register_chunk(path, metadata)
        )
    }
    async fn get_chunks(&self, range: TimeRange) -> cardinalsin::Result<Vec<TimeIndexEntry>> {
        self.inner.get_chunks(range).await
    }
    async fn get_chunk(&self, path: &str) -> cardinalsin::Result<Option<ChunkMetadata>> {
        self.inner.get_chunk(path).await
    }
    async fn delete_chunk(&self, path: &str) -> cardinalsin::Result<()> {
        faulty!(
            self,
            format!("md.delete_chunk {path}"),
            self.inner.delete_chunk(path)
        )
    }
    async fn list_chunks(&self) -> cardinalsin::Result<Vec<TimeIndexEntry>> {
        self.inner.list_chunks().await
    }
    async fn get_l0_candidates(&self, min_count: usize) -> cardinalsin::Result<Vec<Vec<String>>> {
        self.inner.get_l0_candidates(min_count).await
    }
    async fn get_level_candidates(
        &self,
        level: usize,
        target_size: usize,
    ) -> cardinalsin::Result<Vec<Vec<String>>> {
        self.inner.get_level_candidates(level, target_size).await
    }
    async fn create_compaction_job(&self, job: CompactionJob) -> cardinalsin::Result<()> {
        self.inner.create_compaction_job(job).await
    }
    async fn complete_compaction(
        &self,
        source_chunks: &[String],
        target_chunk: &str,
    ) -> cardinalsin::Result<()> {
        self.inner.complete_compaction(source_chunks, target_chunk).await
    }
    async fn update_compaction_status(
        &self,
        job_id: &str,
        status: CompactionStatus,
    ) -> cardinalsin::Result<()> {
        self.inner.update_compaction_status(job_id, status).await
    }
    async fn get_pending_compaction_jobs(&self) -> cardinalsin::Result<Vec<CompactionJob>> {
        self.inner.get_pending_compaction_jobs().await
    }
    async fn start_split(
        &self,
        old_shard: &str,
        new_shards: Vec<String>,
        split_point: Vec<u8>,
    ) -> cardinalsin::Result<()> {
        faulty!(
            self,
            format!("md.start_split {old_shard}"),
            self.inner
                .start_split(old_shard, new_shards.clone(), split_point.clone())
        )
    }
    async fn get_split_state(&self, shard_id: &str) -> cardinalsin::Result<Option<SplitState>> {
        match self.ctl.on(format!("md.get_split_state {shard_id}")) {
            Act::FailBefore | Act::FailAfter => Err(md_err()),
            Act::Go => self.inner.get_split_state(shard_id).await,
        }
    }
    async fn update_split_progress(
        &self,
        shard_id: &str,
        progress: f64,
        phase: SplitPhase,
    ) -> cardinalsin::Result<()> {
        faulty!(
            self,
            format!("md.update_split_progress {shard_id} {progress} {phase:?}"),
            self.inner.update_split_progress(shard_id, progress, phase)
        )
    }
    async fn complete_split(&self, old_shard: &str) -> cardinalsin::Result<()> {
        faulty!(
            self,
            format!("md.complete_split {old_shard}"),
            self.inner.complete_split(old_shard)
        )
    }
    async fn get_chunks_for_shard(&self, shard_id: &str) -> cardinalsin::Result<Vec<TimeIndexEntry>> {
        match self.ctl.on(format!("md.get_chunks_for_shard {shard_id}")) {
            Act::FailBefore | Act::FailAfter => Err(md_err()),
            Act::Go => self.inner.get_chunks_for_shard(shard_id).await,
        }
    }
    async fn get_shard_metadata(&self, shard_id: &str) -> cardinalsin::Result<Option<ShardMetadata>> {
        match self.ctl.on(format!("md.get_shard_metadata {shard_id}")) {
            Act::FailBefore | Act::FailAfter => Err(md_err()),
            Act::Go => self.inner.get_shard_metadata(shard_id).await,
        }
    }
    async fn update_shard_metadata(
        &self,
        shard_id: &str,
        metadata: &ShardMetadata,
        expected_generation: u64,
    ) -> cardinalsin::Result<()> {
        faulty!(
            self,
            format!("md.update_shard_metadata {shard_id} gen={expected_generation}"),
            self.inner
                .update_shard_metadata(shard_id, metadata, expected_generation)
        )
    }
    async fn has_active_split(&self) -> cardinalsin::Result<bool> {
        self.inner.has_active_split().await
    }
}

// ───────────────────────── environment ─────────────────────────

#[derive(Clone, Copy, Debug, PartialEq)]
enum Backend {
    Local,
    S3,
}

struct Env {
    backend: Backend,
    raw: Arc<InMemory>,
    ctl: Arc<Ctl>,
    store: Arc<FaultStore>,
    local: Arc<LocalMetadataClient>,
    oracle: Arc<dyn MetadataClient>,
    rows: BTreeMap<(i64, i64), usize>,
    shard: ShardMetadata,
}

fn batch(rows: &[(i64, i64)]) -> RecordBatch {
    let schema = Arc::new(Schema::new(vec![
        Field::new("timestamp", DataType::Int64, false),
        Field::new("value", DataType::Int64, false),
    ]));
    RecordBatch::try_new(
        schema,
        vec![
            Arc::new(Int64Array::from(rows.iter().map(|r| r.0).collect::<Vec<_>>())),
            Arc::new(Int64Array::from(rows.iter().map(|r| r.1).collect::<Vec<_>>())),
        ],
    )
    .unwrap()
}
fn parquet_bytes(b: &RecordBatch) -> Vec<u8> {
    let mut buf = Vec::new();
    let mut w = ArrowWriter::try_new(&mut buf, b.schema(), None).unwrap();
    w.write(b).unwrap();
    w.close().unwrap();
    buf
}
fn read_rows(bytes: Bytes) -> Vec<(i64, i64)> {
    let reader = ParquetRecordBatchReaderBuilder::try_new(bytes)
        .unwrap()
        .build()
        .unwrap();
    let mut out = Vec::new();
    for b in reader {
        let b = b.unwrap();
        let ts = b
            .column_by_name("timestamp")
            .unwrap()
            .as_any()
            .downcast_ref::<Int64Array>()
            .unwrap()
            .clone();
        let v = b
            .column_by_name("value")
            .unwrap()
            .as_any()
            .downcast_ref::<Int64Array>()
            .unwrap()
            .clone();
        for i in 0..b.num_rows() {
            out.push((ts.value(i), v.value(i)));
        }
    }
    out
}

fn dataset(big: bool) -> Vec<(String, Vec<(i64, i64)>)> {
    let mut d = vec![
        (
            format!("{OLD}/c1.parquet"),
            vec![(SP - 3, 1), (SP - 2, 2), (SP - 1, 3), (SP, 4), (SP + 1, 5)],
        ),
        (
            format!("{OLD}/c2.parquet"),
            vec![(100, 6), (200, 7), (SP, 8), (SP, 9), (SP + 5, 10)],
        ),
        (format!("{OLD}/c3.parquet"), vec![(1, 11), (2, 12), (3, 13)]),
        (format!("{OLD}/c4.parquet"), vec![(SP, 14), (SP + 10, 15)]),
    ];
    if big {
        // > 8192 rows so the back-fill reader yields several batches
        let rows: Vec<(i64, i64)> = (0..9000i64)
            .map(|i| (SP - 4500 + i, 1000 + i))
            .collect();
        d.push((format!("{OLD}/c5.parquet"), rows));
    }
    d
}

impl Env {
    async fn new(backend: Backend, big: bool) -> Env {
        let raw = Arc::new(InMemory::new());
        let ctl = Arc::new(Ctl::default());
        let store = Arc::new(FaultStore {
            inner: raw.clone(),
            ctl: ctl.clone(),
            oracle: OnceLock::new(),
            last_progress: Mutex::new(None),
        });
        let local = Arc::new(LocalMetadataClient::new());
        let oracle: Arc<dyn MetadataClient> = match backend {
            Backend::Local => local.clone(),
            Backend::S3 => Arc::new(ObjectStoreMetadataClient::new(
                raw.clone(),
                ObjectStoreMetadataConfig {
                    enable_cache: false,
                    ..Default::default()
                },
            )),
        };
        let _ = store.oracle.set(oracle.clone());

        let shard = ShardMetadata {
            shard_id: OLD.to_string(),
            generation: 1,
            key_range: (vec![0u8; 8], vec![255u8; 8]),
            replicas: vec![ReplicaInfo {
                replica_id: "r1".into(),
                node_id: "n1".into(),
                is_leader: true,
            }],
            state: ShardState::Active,
            min_time: 0,
            max_time: MAX_T,
        };
        oracle
            .update_shard_metadata(OLD, &shard, 0)
            .await
            .unwrap();

        let mut rows = BTreeMap::new();
        for (path, rs) in dataset(big) {
            let b = batch(&rs);
            let bytes = parquet_bytes(&b);
            let len = bytes.len();
            raw.put(&Path::from(path.as_str()), bytes.into()).await.unwrap();
            oracle
                .register_chunk(
                    &path,
                    &ChunkMetadata {
                        path: path.clone(),
                        min_timestamp: rs.iter().map(|r| r.0).min().unwrap(),
                        max_timestamp: rs.iter().map(|r| r.0).max().unwrap(),
                        row_count: rs.len() as u64,
                        size_bytes: len as u64,
                    },
                )
                .await
                .unwrap();
            for r in rs {
                *rows.entry(r).or_insert(0) += 1;
            }
        }
        Env {
            backend,
            raw,
            ctl,
            store,
            local,
            oracle,
            rows,
            shard,
        }
    }

    /// A splitter as a freshly started process would build it.
    fn splitter(&self) -> ShardSplitter {
        let meta: Arc<dyn MetadataClient> = match self.backend {
            Backend::Local => Arc::new(FaultMeta {
                inner: self.local.clone(),
                ctl: self.ctl.clone(),
            }),
            Backend::S3 => Arc::new(ObjectStoreMetadataClient::new(
                self.store.clone(),
                ObjectStoreMetadataConfig::default(),
            )),
        };
        ShardSplitter::new(meta, self.store.clone())
    }

    fn new_shards(&self) -> Option<Vec<String>> {
        let p = self.store.last_progress.lock().unwrap().clone()?;
        let v: serde_json::Value = serde_json::from_slice(&p).ok()?;
        Some(
            v["new_shards"]
                .as_array()?
                .iter()
                .map(|s| s.as_str().unwrap().to_string())
                .collect(),
        )
    }

    async fn check_final(&self) -> Vec<String> {
        let mut v: Vec<String> = self.ctl.violations.lock().unwrap().clone();
        // fresh client: the object-store client serves chunk listings from a 60 s cache
        let fresh: Arc<dyn MetadataClient> = match self.backend {
            Backend::Local => self.local.clone(),
            Backend::S3 => Arc::new(ObjectStoreMetadataClient::new(
                self.raw.clone(),
                ObjectStoreMetadataConfig::default(),
            )),
        };
        let o = &fresh;
        if o.get_split_state(OLD).await.unwrap().is_some() {
            v.push("split state left behind".into());
        }
        let prog = Path::from(format!("metadata/split-progress/{OLD}.json"));
        if self.raw.get(&prog).await.is_ok() {
            v.push("progress file left behind".into());
        }
        match o.get_shard_metadata(OLD).await.unwrap() {
            Some(m) if matches!(m.state, ShardState::PendingDeletion { .. }) => {}
            other => v.push(format!("old shard not marked for deletion: {:?}", other.map(|m| m.state))),
        }
        let Some(ns) = self.new_shards() else {
            v.push("no progress file was ever written".into());
            return v;
        };
        let sp_bytes = SP.to_be_bytes().to_vec();
        let expect = [
            ((self.shard.key_range.0.clone(), sp_bytes.clone()), 0, SP),
            ((sp_bytes.clone(), self.shard.key_range.1.clone()), SP, MAX_T),
        ];
        let mut union: BTreeMap<(i64, i64), usize> = BTreeMap::new();
        for (i, id) in ns.iter().enumerate() {
            match o.get_shard_metadata(id).await.unwrap() {
                Some(m) => {
                    if m.state != ShardState::Active {
                        v.push(format!("new shard {i} not active: {:?}", m.state));
                    }
                    if m.key_range != expect[i].0 || m.min_time != expect[i].1 || m.max_time != expect[i].2 {
                        v.push(format!(
                            "new shard {i} has wrong range {:?} [{}, {}]",
                            m.key_range, m.min_time, m.max_time
                        ));
                    }
                }
                None => v.push(format!("new shard {i} ({id}) has no metadata")),
            }
            for c in o.get_chunks_for_shard(id).await.unwrap() {
                match self.raw.get(&Path::from(c.chunk_path.as_str())).await {
                    Ok(r) => {
                        for row in read_rows(r.bytes().await.unwrap()) {
                            let side_ok = if i == 0 { row.0 < SP } else { row.0 >= SP };
                            if !side_ok {
                                v.push(format!("row {row:?} on the wrong side in new shard {i}"));
                            }
                            *union.entry(row).or_insert(0) += 1;
                        }
                    }
                    Err(e) => v.push(format!("new-shard chunk {} unreadable: {e}", c.chunk_path)),
                }
            }
        }
        if union != self.rows {
            let missing: usize = self
                .rows
                .iter()
                .map(|(k, n)| n.saturating_sub(*union.get(k).unwrap_or(&0)))
                .sum();
            let extra: usize = union
                .iter()
                .map(|(k, n)| n.saturating_sub(*self.rows.get(k).unwrap_or(&0)))
                .sum();
            v.push(format!(
                "rows not conserved: {missing} old-shard rows missing from the new shards, {extra} surplus copies"
            ));
        }
        // old shard gone
        let left = o.get_chunks_for_shard(OLD).await.unwrap();
        if !left.is_empty() {
            v.push(format!(
                "{} old-shard chunk(s) still in the catalog: {:?}",
                left.len(),
                left.iter().map(|c| c.chunk_path.clone()).collect::<Vec<_>>()
            ));
        }
        let mut objs = self.raw.list(Some(&Path::from(OLD)));
        let mut n = 0;
        while let Some(m) = objs.next().await {
            if m.is_ok() {
                n += 1;
            }
        }
        if n > 0 {
            v.push(format!("{n} old-shard object(s) still in the store"));
        }
        // dangling catalog entries
        for c in o.list_chunks().await.unwrap() {
            if self.raw.head(&Path::from(c.chunk_path.as_str())).await.is_err() {
                v.push(format!("catalog entry {} points to a missing object", c.chunk_path));
            }
        }
        v
    }
}

/// Run a split with the given fault, then resume until it reports success.
/// Optionally inject a second fault into the first resumed run.
async fn run_plan(
    backend: Backend,
    big: bool,
    first: Option<(usize, When, Kind)>,
    second: Option<(usize, When, Kind)>,
) -> (Vec<String>, bool, bool, Vec<String>, usize) {
    let env = Env::new(backend, big).await;
    let mut splitter = env.splitter();
    match first {
        Some((k, w, kind)) => env.ctl.arm(k, w, kind),
        None => env.ctl.disarm(),
    }
    let mut res = splitter.execute_split(&env.shard).await;
    let n_requests = env.ctl.counter.load(Ordering::SeqCst);
    let fired1 = env.ctl.fired.load(Ordering::SeqCst);
    let mut fired2 = false;
    let mut notes = Vec::new();
    let mut attempts = 0;
    let mut second = second;
    // the driver: resume as long as the last run did not report success; after a crash the
    // driver does not know the outcome, so it always resumes at least once.
    let crashed = matches!(first, Some((_, _, Kind::Crash))) && fired1;
    let mut must_resume = res.is_err() || crashed;
    while must_resume && attempts < 8 {
        attempts += 1;
        let was_crash = env.ctl.dead.load(Ordering::SeqCst);
        if was_crash {
            splitter = env.splitter(); // new process, new metadata client
        }
        match second.take() {
            Some((k, w, kind)) => env.ctl.arm(k, w, kind),
            None => env.ctl.disarm(),
        }
        let r = splitter.resume_split(OLD).await;
        if attempts == 1 {
            fired2 = env.ctl.fired.load(Ordering::SeqCst);
        }
        let crashed_now = env.ctl.dead.load(Ordering::SeqCst);
        match r {
            Ok(found) => {
                notes.push(format!("resume#{attempts} -> Ok({found})"));
                res = Ok(());
                must_resume = crashed_now;
            }
            Err(e) => {
                notes.push(format!("resume#{attempts} -> Err({e})"));
                res = Err(e);
                must_resume = true;
            }
        }
    }
    env.ctl.disarm();
    let mut v = Vec::new();
    if let Err(e) = &res {
        v.push(format!("split never finished: last error {e}; {notes:?}"));
    }
    v.extend(env.check_final().await);
    let log = env.ctl.log.lock().unwrap().clone();
    (v, fired1, fired2, log, n_requests)
}

async fn sweep(backend: Backend, big: bool, nested: bool) -> Vec<String> {
    let (v, _, _, log, n) = run_plan(backend, big, None, None).await;
    println!("=== {backend:?} big={big}: reference run issues {n} requests; violations: {v:?}");
    for l in &log {
        println!("    {l}");
    }
    let mut report = Vec::new();
    if !v.is_empty() {
        report.push(format!("[{backend:?}] reference run: {v:?}"));
    }
    for k in 0..n {
        for w in [When::Before, When::After] {
            for kind in [Kind::Crash, Kind::Error] {
                let (v, fired, _, log, _) = run_plan(backend, big, Some((k, w, kind)), None).await;
                if !fired {
                    continue;
                }
                if !v.is_empty() {
                    let at = log
                        .iter()
                        .position(|l| l.contains("^^^ injected"))
                        .map(|i| log[i - 1].clone())
                        .unwrap_or_default();
                    report.push(format!("[{backend:?}] fault {k} {w:?}/{kind:?} at <{at}>: {v:?}"));
                }
                if nested {
                    let mut j = 0;
                    loop {
                        let (v2, f1, f2, log2, _) =
                            run_plan(backend, big, Some((k, w, kind)), Some((j, w, kind))).await;
                        if !f1 || !f2 {
                            break;
                        }
                        if !v2.is_empty() && v2 != v {
                            let at: Vec<String> = log2
                                .iter()
                                .enumerate()
                                .filter(|(_, l)| l.contains("^^^ injected"))
                                .map(|(i, _)| log2[i - 1].clone())
                                .collect();
                            report.push(format!(
                                "[{backend:?}] nested fault {k}+{j} {w:?}/{kind:?} at {at:?}: {v2:?}"
                            ));
                        }
                        j += 1;
                    }
                }
            }
        }
    }
    report
}

#[tokio::test(start_paused = true)]
async fn sweep_local_single() {
    let r = sweep(Backend::Local, true, false).await;
    for l in &r {
        println!("VIOLATION {l}");
    }
    assert!(r.is_empty(), "{} violating fault plans", r.len());
}

#[tokio::test(start_paused = true)]
async fn sweep_s3_single() {
    let r = sweep(Backend::S3, true, false).await;
    for l in &r {
        println!("VIOLATION {l}");
    }
    assert!(r.is_empty(), "{} violating fault plans", r.len());
}

#[tokio::test(start_paused = true)]
async fn sweep_local_nested() {
    let r = sweep(Backend::Local, false, true).await;
    for l in &r {
        println!("VIOLATION {l}");
    }
    assert!(r.is_empty(), "{} violating fault plans", r.len());
}

#[tokio::test(start_paused = true)]
async fn sweep_s3_nested() {
    let r = sweep(Backend::S3, false, true).await;
    for l in &r {
        println!("VIOLATION {l}");
    }
    assert!(r.is_empty(), "{} violating fault plans", r.len());
}
