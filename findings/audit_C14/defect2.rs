//! C14 defect 2 (object-store catalog backend): the back-fill takes its list of old-shard
//! chunks from `ObjectStoreMetadataClient::get_chunks_for_shard`, which answers from the
//! client's 60-second catalog cache (`load_catalog_cached`; the `enable_cache` switch is never
//! consulted). The split runs inside the compactor process, whose client refreshes that cache
//! in the compaction cycle that immediately precedes every sharding cycle. A chunk that an
//! ingester (another process, another client) registered for the old shard after that refresh
//! but before the split even started is therefore invisible to the back-fill. The split
//! nevertheless reaches 100 %, cuts over - and the clean-up, which runs after the 300 s grace
//! period with an expired cache (or in a resumed process with an empty one), does see the
//! chunk and deletes it. Its rows are in neither new shard: they are lost.
//!
//! History below: ingester registers c1; compactor lists chunks (cache warm); ingester
//! registers c2; compactor starts the split of the shard; the compactor process dies during
//! the grace period; a new process resumes the split to completion.

use arrow::array::{Int64Array, RecordBatch};
use arrow::datatypes::{DataType, Field, Schema};
use cardinalsin::ingester::ChunkMetadata;
use cardinalsin::metadata::{MetadataClient, ObjectStoreMetadataClient, ObjectStoreMetadataConfig};
use cardinalsin::sharding::{ReplicaInfo, ShardMetadata, ShardSplitter, ShardState};
use futures::StreamExt;
use object_store::memory::InMemory;
use object_store::path::Path;
use object_store::ObjectStore;
use parquet::arrow::arrow_reader::ParquetRecordBatchReaderBuilder;
use parquet::arrow::ArrowWriter;
use std::collections::BTreeMap;
use std::sync::Arc;
use std::time::Duration;

const OLD: &str = "shard-old";
const SP: i64 = 600_000_000_000; // the split point execute_split computes for [0, 20 min]
const MAX_T: i64 = 1_200_000_000_000;

fn old_shard() -> ShardMetadata {
    ShardMetadata {
        shard_id: OLD.to_string(),
        generation: 1,
        key_range: (vec![0u8; 8], vec![255u8; 8]),
        replicas: vec![ReplicaInfo {
            replica_id: "r1".into(),
            node_id: "n1".into(),
            is_leader: true,
        }],
        state: ShardState::Active,
        min_time: 0,
        max_time: MAX_T,
    }
}

fn client(store: &Arc<InMemory>) -> Arc<ObjectStoreMetadataClient> {
    Arc::new(ObjectStoreMetadataClient::new(
        store.clone(),
        ObjectStoreMetadataConfig {
            // no effect on the catalog cache: load_catalog_cached never looks at it
            enable_cache: false,
            ..Default::default()
        },
    ))
}

async fn flush_chunk(
    store: &Arc<InMemory>,
    ingester_catalog: &Arc<ObjectStoreMetadataClient>,
    name: &str,
    rows: &[(i64, i64)],
) {
    let schema = Arc::new(Schema::new(vec![
        Field::new("timestamp", DataType::Int64, false),
        Field::new("value_i64", DataType::Int64, false),
    ]));
    let b = RecordBatch::try_new(
        schema.clone(),
        vec![
            Arc::new(Int64Array::from(rows.iter().map(|r| r.0).collect::<Vec<_>>())),
            Arc::new(Int64Array::from(rows.iter().map(|r| r.1).collect::<Vec<_>>())),
        ],
    )
    .unwrap();
    let mut buf = Vec::new();
    let mut w = ArrowWriter::try_new(&mut buf, schema, None).unwrap();
    w.write(&b).unwrap();
    w.close().unwrap();
    let path = format!("{OLD}/{name}.parquet");
    let len = buf.len() as u64;
    store.put(&Path::from(path.as_str()), buf.into()).await.unwrap();
    ingester_catalog
        .register_chunk(
            &path,
            &ChunkMetadata {
                path: path.clone(),
                min_timestamp: rows.iter().map(|r| r.0).min().unwrap(),
                max_timestamp: rows.iter().map(|r| r.0).max().unwrap(),
                row_count: rows.len() as u64,
                size_bytes: len,
            },
        )
        .await
        .unwrap();
}

async fn rows_of(store: &Arc<InMemory>, path: &str) -> Vec<(i64, i64)> {
    let bytes = store
        .get(&Path::from(path))
        .await
        .unwrap()
        .bytes()
        .await
        .unwrap();
    let mut out = Vec::new();
    for b in ParquetRecordBatchReaderBuilder::try_new(bytes)
        .unwrap()
        .build()
        .unwrap()
    {
        let b = b.unwrap();
        let ts = b.column(0).as_any().downcast_ref::<Int64Array>().unwrap();
        let v = b.column(1).as_any().downcast_ref::<Int64Array>().unwrap();
        for i in 0..b.num_rows() {
            out.push((ts.value(i), v.value(i)));
        }
    }
    out
}

#[tokio::test(start_paused = true)]
async fn chunk_registered_by_another_client_is_skipped_by_backfill_and_deleted_by_cleanup() {
    let store = Arc::new(InMemory::new());

    // two processes, two catalog clients over the same bucket
    let ingester_catalog = client(&store);
    let compactor_catalog = client(&store);

    ingester_catalog
        .update_shard_metadata(OLD, &old_shard(), 0)
        .await
        .unwrap();

    let c1 = [(SP - 2, 1), (SP - 1, 2), (SP, 3), (SP + 1, 4)];
    let c2 = [(100, 5), (SP, 6), (SP + 5, 7)];

    flush_chunk(&store, &ingester_catalog, "c1", &c1).await;
    // the compactor's compaction cycle looks at the catalog (this is what run_cycle does right
    // before run_sharding_cycle); its client now holds a cached catalog for the next 60 s
    let seen = compactor_catalog.list_chunks().await.unwrap();
    assert_eq!(seen.len(), 1);
    // the ingester flushes one more chunk of the (hot) shard - the split has not started yet
    flush_chunk(&store, &ingester_catalog, "c2", &c2).await;

    let mut expected: BTreeMap<(i64, i64), usize> = BTreeMap::new();
    for r in c1.iter().chain(c2.iter()) {
        *expected.entry(*r).or_insert(0) += 1;
    }

    // the compactor starts the split; it dies 100 s later, i.e. during the 300 s grace period
    let splitter = ShardSplitter::new(compactor_catalog.clone(), store.clone());
    let first = tokio::time::timeout(Duration::from_secs(100), splitter.execute_split(&old_shard())).await;
    assert!(first.is_err(), "expected the first run to be cut off in the grace period, got {first:?}");
    drop(splitter);

    // what the catalog says at the moment of the crash (fresh client = any other process)
    let fresh = client(&store);
    assert!(
        fresh.get_split_state(OLD).await.unwrap().is_none(),
        "cut-over completed before the crash"
    );
    let progress = store
        .get(&Path::from(format!("metadata/split-progress/{OLD}.json")))
        .await
        .unwrap()
        .bytes()
        .await
        .unwrap();
    let progress: serde_json::Value = serde_json::from_slice(&progress).unwrap();
    println!("progress file at the crash: {progress}");
    let new_shards: Vec<String> = progress["new_shards"]
        .as_array()
        .unwrap()
        .iter()
        .map(|s| s.as_str().unwrap().to_string())
        .collect();

    // a new compactor process resumes the split
    let restarted = ShardSplitter::new(client(&store), store.clone());
    let resumed = restarted.resume_split(OLD).await;
    println!("resume_split -> {resumed:?}");
    assert!(matches!(resumed, Ok(true)));

    // end state
    let fresh = client(&store);
    let mut got: BTreeMap<(i64, i64), usize> = BTreeMap::new();
    for (i, id) in new_shards.iter().enumerate() {
        let m = fresh.get_shard_metadata(id).await.unwrap().expect("new shard exists");
        assert_eq!(m.state, ShardState::Active);
        for c in fresh.get_chunks_for_shard(id).await.unwrap() {
            for r in rows_of(&store, &c.chunk_path).await {
                assert!(if i == 0 { r.0 < SP } else { r.0 >= SP });
                *got.entry(r).or_insert(0) += 1;
            }
        }
    }
    let mut old_objects = Vec::new();
    let mut it = store.list(Some(&Path::from(OLD)));
    while let Some(m) = it.next().await {
        old_objects.push(m.unwrap().location.to_string());
    }
    println!("old-shard objects left in the store: {old_objects:?}");
    println!("rows in the new shards: {got:?}");

    let lost: Vec<_> = expected
        .iter()
        .filter(|(k, n)| got.get(*k).copied().unwrap_or(0) < **n)
        .map(|(k, _)| *k)
        .collect();
    assert!(
        lost.is_empty(),
        "C14 violated: the split finished (resume_split -> {resumed:?}, split state gone, old shard's objects \
         left in the store: {old_objects:?}) but {} of {} old-shard rows are in neither new shard: {lost:?}. \
         They are exactly the rows of {OLD}/c2.parquet, which was registered before the split started by \
         another catalog client; the back-fill listed the old shard's chunks from the splitter's 60 s \
         catalog cache and never saw it, the clean-up listed them afresh and deleted it.",
        lost.len(),
        expected.values().sum::<usize>(),
    );
}
