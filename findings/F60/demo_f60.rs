//! C06 audit, defect 1: the WAL flush mark moves BACKWARDS, so a graceful restart
//! stores rows a second time.
//!
//! `append_to_buffer_and_maybe_flush` publishes a write's WAL sequence number with
//! `self.last_wal_seq.store(seq)` once the batch is in the buffer.  WAL sequence numbers are
//! assigned BEFORE the buffer lock is taken, and a writer whose schema differs from the
//! buffered one first flushes the old buffer (object-store upload, catalog CAS - slow) and
//! only then appends.  Writers that came later (larger sequence numbers) get into the buffer
//! first, and when the early writer finally appends it overwrites `last_wal_seq` with its own
//! SMALLER number.  The next flush persists that smaller number as the "flushed up to" mark,
//! although entries with larger numbers are already in registered chunks.  On the next start
//! `ensure_wal` replays every entry above the mark: rows that are already stored are stored
//! again.
//!
//! No crash, no storage error, no split: three accepted writes, alternating schemas, one
//! graceful shutdown (final flush through the shutdown token) and one start.

use arrow_array::cast::AsArray;
use arrow_array::types::{Float64Type, Int64Type, TimestampNanosecondType};
use arrow_array::{Float64Array, Int64Array, RecordBatch};
use arrow_schema::{DataType, Field, Schema, TimeUnit};
use async_trait::async_trait;
use bytes::Bytes;
use cardinalsin::ingester::{load_flushed_seq, Ingester, IngesterConfig, WalConfig, WalSyncMode};
use cardinalsin::metadata::{LocalMetadataClient, MetadataClient};
use cardinalsin::schema::MetricSchema;
use cardinalsin::{CloudProvider, StorageConfig};
use futures::stream::BoxStream;
use object_store::memory::InMemory;
use object_store::path::Path;
use object_store::{
    GetOptions, GetResult, ListResult, MultipartUpload, ObjectMeta, ObjectStore, PutMultipartOpts,
    PutOptions, PutPayload, PutResult,
};
use parquet::arrow::arrow_reader::ParquetRecordBatchReaderBuilder;
use std::collections::BTreeMap;
use std::fmt;
use std::sync::atomic::{AtomicBool, Ordering};
use std::sync::Arc;
use std::time::Duration;
use tempfile::TempDir;
use tokio::sync::Notify;

/// InMemory object store whose next `.parquet` upload can be held back (a slow upload,
/// not a failing one) so that the interleaving is deterministic.
struct GateStore {
    inner: InMemory,
    armed: AtomicBool,
    entered: Notify,
    release: Notify,
}

impl GateStore {
    fn new() -> Self {
        Self {
            inner: InMemory::new(),
            armed: AtomicBool::new(false),
            entered: Notify::new(),
            release: Notify::new(),
        }
    }
}

impl fmt::Display for GateStore {
    fn fmt(&self, f: &mut fmt::Formatter<'_>) -> fmt::Result {
        write!(f, "GateStore")
    }
}
impl fmt::Debug for GateStore {
    fn fmt(&self, f: &mut fmt::Formatter<'_>) -> fmt::Result {
        write!(f, "GateStore")
    }
}

#[async_trait]
impl ObjectStore for GateStore {
    async fn put_opts(
        &self,
        location: &Path,
        payload: PutPayload,
        opts: PutOptions,
    ) -> object_store::Result<PutResult> {
        if location.as_ref().ends_with(".parquet") && self.armed.swap(false, Ordering::SeqCst) {
            self.entered.notify_one();
            self.release.notified().await;
        }
        self.inner.put_opts(location, payload, opts).await
    }
    async fn put_multipart_opts(
        &self,
        location: &Path,
        opts: PutMultipartOpts,
    ) -> object_store::Result<Box<dyn MultipartUpload>> {
        self.inner.put_multipart_opts(location, opts).await
    }
    async fn get_opts(&self, location: &Path, options: GetOptions) -> object_store::Result<GetResult> {
        self.inner.get_opts(location, options).await
    }
    async fn delete(&self, location: &Path) -> object_store::Result<()> {
        self.inner.delete(location).await
    }
    fn list(&self, prefix: Option<&Path>) -> BoxStream<'_, object_store::Result<ObjectMeta>> {
        self.inner.list(prefix)
    }
    async fn list_with_delimiter(&self, prefix: Option<&Path>) -> object_store::Result<ListResult> {
        self.inner.list_with_delimiter(prefix).await
    }
    async fn copy(&self, from: &Path, to: &Path) -> object_store::Result<()> {
        self.inner.copy(from, to).await
    }
    async fn copy_if_not_exists(&self, from: &Path, to: &Path) -> object_store::Result<()> {
        self.inner.copy_if_not_exists(from, to).await
    }
}

fn ts_field() -> Field {
    Field::new(
        "timestamp",
        DataType::Timestamp(TimeUnit::Nanosecond, None),
        false,
    )
}

/// Schema A: (timestamp, value: Int64)
fn batch_a(ts: &[i64]) -> RecordBatch {
    let schema = Arc::new(Schema::new(vec![
        ts_field(),
        Field::new("value", DataType::Int64, false),
    ]));
    RecordBatch::try_new(
        schema,
        vec![
            Arc::new(arrow_array::PrimitiveArray::<TimestampNanosecondType>::from(ts.to_vec())),
            Arc::new(Int64Array::from(ts.to_vec())),
        ],
    )
    .unwrap()
}

/// Schema B: (timestamp, value: Float64)
fn batch_b(ts: &[i64]) -> RecordBatch {
    let schema = Arc::new(Schema::new(vec![
        ts_field(),
        Field::new("value", DataType::Float64, false),
    ]));
    RecordBatch::try_new(
        schema,
        vec![
            Arc::new(arrow_array::PrimitiveArray::<TimestampNanosecondType>::from(ts.to_vec())),
            Arc::new(Float64Array::from(
                ts.iter().map(|v| *v as f64).collect::<Vec<_>>(),
            )),
        ],
    )
    .unwrap()
}

/// One printable key per row, "timestamp|value".
fn row_keys(batch: &RecordBatch) -> Vec<String> {
    let ts = batch
        .column_by_name("timestamp")
        .unwrap()
        .as_primitive::<TimestampNanosecondType>();
    let v = batch.column_by_name("value").unwrap();
    (0..batch.num_rows())
        .map(|i| {
            let val = if let Some(a) = v.as_primitive_opt::<Int64Type>() {
                format!("i64:{}", a.value(i))
            } else {
                format!("f64:{}", v.as_primitive::<Float64Type>().value(i))
            };
            format!("{}|{}", ts.value(i), val)
        })
        .collect()
}

fn multiset(keys: impl IntoIterator<Item = String>) -> BTreeMap<String, usize> {
    let mut m = BTreeMap::new();
    for k in keys {
        *m.entry(k).or_insert(0) += 1;
    }
    m
}

/// Decode every chunk the catalog lists and return the multiset of stored rows.
async fn stored_rows(
    store: &Arc<dyn ObjectStore>,
    metadata: &Arc<dyn MetadataClient>,
) -> BTreeMap<String, usize> {
    let mut keys = Vec::new();
    for entry in metadata.list_chunks().await.unwrap() {
        let bytes: Bytes = store
            .get(&Path::from(entry.chunk_path.as_str()))
            .await
            .unwrap()
            .bytes()
            .await
            .unwrap();
        let reader = ParquetRecordBatchReaderBuilder::try_new(bytes)
            .unwrap()
            .build()
            .unwrap();
        let mut rows = 0u64;
        for b in reader {
            let b = b.unwrap();
            rows += b.num_rows() as u64;
            keys.extend(row_keys(&b));
        }
        assert_eq!(rows, entry.row_count, "catalog row_count vs decoded chunk");
    }
    multiset(keys)
}

fn config(dir: &TempDir) -> IngesterConfig {
    IngesterConfig {
        // thresholds far away: only schema changes and the shutdown flush write chunks
        flush_row_count: 1_000_000,
        flush_size_bytes: 1 << 30,
        flush_interval: Duration::from_secs(3600),
        wal: WalConfig {
            wal_dir: dir.path().to_path_buf(),
            max_segment_size: 64 * 1024 * 1024,
            sync_mode: WalSyncMode::None,
            enabled: true,
        },
        ..Default::default()
    }
}

async fn start_ingester(
    dir: &TempDir,
    store: Arc<dyn ObjectStore>,
    metadata: Arc<dyn MetadataClient>,
) -> Arc<Ingester> {
    let storage_config = StorageConfig {
        provider: CloudProvider::Memory,
        container: "bucket".to_string(),
        tenant_id: "tenant".to_string(),
    };
    let mut ing = Ingester::new(
        config(dir),
        store,
        metadata,
        storage_config,
        MetricSchema::default_metrics(),
    );
    ing.ensure_wal().await.unwrap();
    Arc::new(ing)
}

/// Graceful stop: cancel the shutdown token, let the flush timer do its final flush.
async fn graceful_stop(ing: Arc<Ingester>) {
    ing.shutdown_token().cancel();
    tokio::time::timeout(Duration::from_secs(10), ing.run_flush_timer())
        .await
        .expect("final flush finishes");
    assert_eq!(
        ing.buffer_stats().await.row_count,
        0,
        "buffer is empty after the final flush"
    );
}

#[tokio::test(flavor = "multi_thread", worker_threads = 4)]
async fn wal_mark_regresses_and_graceful_restart_duplicates_rows() {
    let dir = TempDir::new().unwrap();
    let gate = Arc::new(GateStore::new());
    let store: Arc<dyn ObjectStore> = gate.clone();
    let metadata: Arc<dyn MetadataClient> = Arc::new(LocalMetadataClient::new());

    let a1 = batch_a(&[1_000, 2_000, 3_000]);
    let b1 = batch_b(&[10_000, 20_000]);
    let a2 = batch_a(&[100_000, 200_000, 300_000, 400_000]);
    let accepted = multiset(
        row_keys(&a1)
            .into_iter()
            .chain(row_keys(&b1))
            .chain(row_keys(&a2)),
    );

    // ---- first life of the ingester -------------------------------------------------
    let ing = start_ingester(&dir, store.clone(), metadata.clone()).await;

    // WAL seq 1, schema A, stays in the buffer.
    ing.write(a1).await.expect("write A1 accepted");

    // WAL seq 2, schema B: must first flush the buffered A1; that upload is slow.
    gate.armed.store(true, Ordering::SeqCst);
    let w_b1 = {
        let ing = ing.clone();
        tokio::spawn(async move { ing.write(b1).await })
    };
    tokio::time::timeout(Duration::from_secs(10), gate.entered.notified())
        .await
        .expect("B1's schema-change flush reached the upload");

    // WAL seq 3, schema A, arrives while B1 is still uploading A1: the buffer is empty, so it
    // is appended at once and publishes last_wal_seq = 3.
    ing.write(a2).await.expect("write A2 accepted");

    // The upload finishes.  B1 finds A2 (other schema) in the buffer, flushes it as well,
    // appends itself and publishes last_wal_seq = 2.
    gate.release.notify_one();
    w_b1.await.unwrap().expect("write B1 accepted");

    // Graceful shutdown: final flush of [B1]; persists the mark it reads from last_wal_seq.
    graceful_stop(ing.clone()).await;
    drop(ing);

    let after_first_life = stored_rows(&store, &metadata).await;
    assert_eq!(
        after_first_life, accepted,
        "sanity: before the restart the registered chunks hold exactly the accepted rows"
    );
    let mark = load_flushed_seq(dir.path()).unwrap();
    eprintln!(
        "persisted WAL flush mark after a complete, graceful shutdown: {mark} \
         (entries 1..=3 are all in registered chunks)"
    );

    // ---- second life: plain start, nothing written -----------------------------------
    let ing2 = start_ingester(&dir, store.clone(), metadata.clone()).await;
    let replayed = ing2.buffer_stats().await.row_count;
    eprintln!("rows replayed from the WAL into the buffer at start: {replayed}");
    graceful_stop(ing2.clone()).await;
    drop(ing2);

    let stored = stored_rows(&store, &metadata).await;
    let repeated: Vec<_> = stored
        .iter()
        .filter(|(k, n)| **n > accepted.get(*k).copied().unwrap_or(0))
        .map(|(k, n)| format!("{k} x{n}"))
        .collect();
    assert!(
        stored == accepted,
        "C06 violated (rows repeated): after a graceful restart with no crash and no storage \
         error the registered chunks hold rows of accepted write A2 (WAL seq 3) twice. \
         persisted flush mark went back to {mark} although seq 3 was already flushed; \
         {replayed} rows were replayed. repeated rows: {repeated:?}; \
         stored total = {}, accepted total = {}",
        stored.values().sum::<usize>(),
        accepted.values().sum::<usize>(),
    );
}

/// Control: the same three writes, same schemas, strictly one after the other, same
/// shutdown / start sequence - the harness itself finds the store exact.
#[tokio::test(flavor = "multi_thread", worker_threads = 4)]
async fn control_sequential_writes_survive_restart_exactly() {
    let dir = TempDir::new().unwrap();
    let store: Arc<dyn ObjectStore> = Arc::new(GateStore::new());
    let metadata: Arc<dyn MetadataClient> = Arc::new(LocalMetadataClient::new());

    let a1 = batch_a(&[1_000, 2_000, 3_000]);
    let b1 = batch_b(&[10_000, 20_000]);
    let a2 = batch_a(&[100_000, 200_000, 300_000, 400_000]);
    let accepted = multiset(
        row_keys(&a1)
            .into_iter()
            .chain(row_keys(&b1))
            .chain(row_keys(&a2)),
    );

    let ing = start_ingester(&dir, store.clone(), metadata.clone()).await;
    ing.write(a1).await.unwrap();
    ing.write(b1).await.unwrap();
    ing.write(a2).await.unwrap();
    graceful_stop(ing.clone()).await;
    drop(ing);

    let ing2 = start_ingester(&dir, store.clone(), metadata.clone()).await;
    assert_eq!(ing2.buffer_stats().await.row_count, 0, "nothing to replay");
    graceful_stop(ing2.clone()).await;
    drop(ing2);

    assert_eq!(stored_rows(&store, &metadata).await, accepted);
}
