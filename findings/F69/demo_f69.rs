//! C18 defect 1: a WHERE comparison on a column whose Arrow type is not exactly
//! Utf8 / Int64 / Float64 is silently dropped by the live filter, so the live tail
//! delivers rows the engine rejects for the same flushed batch.
//!
//! Oracle: the same flushed batch is (a) delivered on the `query_stream` receiver and
//! (b) registered as a chunk; `QueryNode::query(sql)` over that chunk is the engine's own
//! evaluation of the WHERE clause on the same rows. Rows are identified by an `id` column.

use arrow_array::{
    ArrayRef, DictionaryArray, Float64Array, Int64Array, RecordBatch, StringArray,
    TimestampNanosecondArray, UInt16Array, UInt64Array,
};
use arrow_schema::{Field, Schema};
use cardinalsin::ingester::{Ingester, IngesterConfig, WalConfig};
use cardinalsin::metadata::{LocalMetadataClient, MetadataClient};
use cardinalsin::query::{QueryConfig, QueryNode};
use cardinalsin::schema::MetricSchema;
use cardinalsin::StorageConfig;
use object_store::memory::InMemory;
use std::sync::Arc;
use std::time::Duration;

fn now_ns() -> i64 {
    chrono::Utc::now().timestamp_nanos_opt().unwrap()
}

fn ts(v: Vec<i64>) -> ArrayRef {
    Arc::new(TimestampNanosecondArray::from(v).with_timezone("UTC"))
}

fn batch(cols: Vec<(&str, ArrayRef)>) -> RecordBatch {
    let fields: Vec<Field> = cols
        .iter()
        .map(|(n, a)| Field::new(*n, a.data_type().clone(), true))
        .collect();
    RecordBatch::try_new(
        Arc::new(Schema::new(fields)),
        cols.into_iter().map(|(_, a)| a).collect(),
    )
    .unwrap()
}

struct Harness {
    ingester: Arc<Ingester>,
    node: QueryNode,
}

async fn harness() -> Harness {
    let store = Arc::new(InMemory::new());
    let metadata: Arc<dyn MetadataClient> = Arc::new(LocalMetadataClient::new());
    let cfg = IngesterConfig {
        flush_row_count: 1, // every write is flushed (and broadcast) at once
        wal: WalConfig {
            enabled: false,
            ..Default::default()
        },
        ..Default::default()
    };
    let ingester = Arc::new(Ingester::new(
        cfg,
        store.clone(),
        metadata.clone(),
        StorageConfig::default(),
        MetricSchema::default_metrics(),
    ));
    let mut node = QueryNode::new(
        QueryConfig::default(),
        store.clone(),
        metadata.clone(),
        StorageConfig::default(),
    )
    .await
    .unwrap();
    node.connect_broadcast(ingester.subscribe());
    Harness { ingester, node }
}

fn ids_of(batches: &[RecordBatch], min_id: i64) -> Vec<i64> {
    let mut out = Vec::new();
    for b in batches {
        let col = b
            .column_by_name("id")
            .expect("id column")
            .as_any()
            .downcast_ref::<Int64Array>()
            .expect("id is Int64");
        for i in 0..col.len() {
            if col.value(i) >= min_id {
                out.push(col.value(i));
            }
        }
    }
    out
}

/// Returns (ids delivered live, ids the engine selects from the same flushed batch).
/// Live rows must carry ids >= 1000, seed rows ids < 1000.
async fn live_vs_engine(
    h: &Harness,
    sql: &str,
    seeds: Vec<RecordBatch>,
    live: impl FnOnce() -> Vec<RecordBatch>,
) -> (Vec<i64>, Vec<i64>) {
    for s in seeds {
        h.ingester.write(s).await.unwrap();
    }
    let mut rx = h.node.query_stream(sql).await.expect("query_stream");
    // drain the historical part
    while let Ok(Some(r)) = tokio::time::timeout(Duration::from_millis(300), rx.recv()).await {
        r.expect("historical batch");
    }
    // built (timestamps = now, i.e. after the merge point) and flushed after the subscription
    for b in live() {
        h.ingester.write(b).await.unwrap();
    }
    let mut delivered = Vec::new();
    while let Ok(Some(r)) = tokio::time::timeout(Duration::from_millis(500), rx.recv()).await {
        delivered.push(r.expect("live batch"));
    }
    let live_ids = ids_of(&delivered, 1000);
    let engine = h.node.query(sql).await.expect("engine query");
    let mut engine_ids = ids_of(&engine, 1000);
    engine_ids.sort();
    (live_ids, engine_ids)
}

/// `value_u64` (UInt64) is a column every Prometheus remote-write batch carries.
#[tokio::test(flavor = "multi_thread", worker_threads = 2)]
async fn uint64_column_comparison_is_ignored_by_live_filter() {
    let h = harness().await;
    let mk = |t: i64, ids: Vec<i64>, vals: Vec<u64>| {
        let n = ids.len();
        batch(vec![
            ("timestamp", ts(vec![t; n])),
            ("metric_name", Arc::new(StringArray::from(vec!["requests"; n]))),
            ("id", Arc::new(Int64Array::from(ids))),
            ("value_u64", Arc::new(UInt64Array::from(vals))),
        ])
    };
    let seed = mk(now_ns() - 60_000_000_000, vec![1], vec![1]);
    let live = move || vec![mk(now_ns(), vec![1000, 1001, 1002], vec![1, 10, 100])];
    let sql = "SELECT * FROM metrics WHERE value_u64 > 5";
    let (live_ids, engine_ids) = live_vs_engine(&h, sql, vec![seed], live).await;
    println!("sql={sql}\n live tail delivered ids {live_ids:?}\n engine selects ids     {engine_ids:?}");
    assert_eq!(
        live_ids, engine_ids,
        "C18 violated: live tail delivered rows {live_ids:?} but the engine's WHERE `value_u64 > 5` \
         selects {engine_ids:?} from the same flushed batch (UInt64 column: predicate silently ignored)"
    );
}

/// The project's own MetricSchema declares metric_name / labels as Dictionary(UInt16, Utf8).
#[tokio::test(flavor = "multi_thread", worker_threads = 2)]
async fn dictionary_label_comparison_is_ignored_by_live_filter() {
    let h = harness().await;
    let mk = |t: i64, ids: Vec<i64>, names: Vec<&str>| {
        let n = ids.len();
        // dictionary ["cpu","memory"]
        let keys: Vec<u16> = names.iter().map(|s| if *s == "cpu" { 0 } else { 1 }).collect();
        let dict = DictionaryArray::new(
            UInt16Array::from(keys),
            Arc::new(StringArray::from(vec!["cpu", "memory"])) as ArrayRef,
        );
        batch(vec![
            ("timestamp", ts(vec![t; n])),
            ("metric_name", Arc::new(dict)),
            ("id", Arc::new(Int64Array::from(ids))),
            ("value_f64", Arc::new(Float64Array::from(vec![1.0; n]))),
        ])
    };
    // type check against the project's schema
    assert_eq!(
        MetricSchema::default_metrics()
            .arrow_schema()
            .field_with_name("metric_name")
            .unwrap()
            .data_type(),
        mk(0, vec![0], vec!["cpu"]).schema().field(1).data_type()
    );
    let seed = mk(now_ns() - 60_000_000_000, vec![1, 2], vec!["cpu", "memory"]);
    let live = move || vec![mk(now_ns(), vec![1000, 1001, 1002], vec!["cpu", "memory", "memory"])];
    let sql = "SELECT * FROM metrics WHERE metric_name = 'cpu'";
    let (live_ids, engine_ids) = live_vs_engine(&h, sql, vec![seed], live).await;
    println!("sql={sql}\n live tail delivered ids {live_ids:?}\n engine selects ids     {engine_ids:?}");
    assert_eq!(
        live_ids, engine_ids,
        "C18 violated: live tail delivered rows {live_ids:?} but the engine's WHERE `metric_name = 'cpu'` \
         selects {engine_ids:?} from the same flushed batch (dictionary-encoded column: predicate silently ignored)"
    );
}

/// A comparison on the `timestamp` column itself (Timestamp(ns,UTC), the type every ingest path
/// produces) is ignored by the live filter, whether the literal is a string or an integer.
#[tokio::test(flavor = "multi_thread", worker_threads = 2)]
async fn timestamp_column_comparison_is_ignored_by_live_filter() {
    let h = harness().await;
    let mk = |tsv: Vec<i64>, ids: Vec<i64>| {
        let n = ids.len();
        batch(vec![
            ("timestamp", ts(tsv)),
            ("metric_name", Arc::new(StringArray::from(vec!["cpu"; n]))),
            ("id", Arc::new(Int64Array::from(ids))),
            ("value_f64", Arc::new(Float64Array::from(vec![1.0; n]))),
        ])
    };
    let now = now_ns();
    let cutoff = chrono::DateTime::from_timestamp_nanos(now + 60_000_000_000)
        .to_rfc3339_opts(chrono::SecondsFormat::Nanos, true);
    let seed = mk(vec![now - 60_000_000_000], vec![1]);
    // two rows before the cut-off, one after it (a sender whose clock is 10 minutes ahead)
    let live = move || {
        let t = now_ns();
        vec![mk(vec![t, t + 1, t + 600_000_000_000], vec![1000, 1001, 1002])]
    };
    let sql = format!("SELECT * FROM metrics WHERE timestamp < '{cutoff}'");
    let (live_ids, engine_ids) = live_vs_engine(&h, &sql, vec![seed], live).await;
    println!("sql={sql}\n live tail delivered ids {live_ids:?}\n engine selects ids     {engine_ids:?}");
    assert_eq!(
        live_ids, engine_ids,
        "C18 violated: live tail delivered rows {live_ids:?} but the engine's WHERE `timestamp < <cutoff>` \
         selects {engine_ids:?} from the same flushed batch (Timestamp column: predicate silently ignored)"
    );
}
