//! C08 defect 1: a compaction that is ABANDONED on an error path keeps its lease alive forever.
//!
//! `Compactor::compact_l0` / `compact_level` acquire a lease, spawn the background renewal
//! task and then run five fallible metadata calls with `?`
//! (create_compaction_job, complete_compaction, update_compaction_status, complete_lease,
//! fail_lease).  When any of them returns an error the function returns early:
//! `renewal_handle.abort()` and `fail_lease` are never reached.  Dropping a tokio
//! `JoinHandle` does NOT cancel the task, so the detached renewal task keeps calling
//! `renew_lease` every 120 s for as long as the process lives.  The holder has stopped
//! working on the chunks, but the lease never expires and nobody (not even the same node)
//! can ever acquire those chunks again.
//!
//! Two triggers are shown (one test each):
//!  1. one transient object-store error (503) on the PUT of compaction-jobs.json;
//!  2. NO injected error at all: the merge fails (source objects absent) and the
//!     `fail_lease` call that should release the lease loses its five CAS attempts against
//!     ordinary lease operations of another node ("conflict-retry exhaustion", which the
//!     property's quantifier names explicitly) and returns `TooManyRetries`.
//!
//! The lease code reads the wall clock (`chrono::Utc::now()`), which a test cannot move.
//! The lease protocol only ever compares the timestamps stored in `compaction-leases.json`
//! with `Utc::now()`, so "every node's clock advances by D" is exactly equivalent to
//! "every stored timestamp is shifted back by D".  The test advances time that way (and
//! advances tokio's paused timer clock by the same D so the renewal task's 120 s interval
//! fires at the right moments).  A CONTROL lease whose holder really stopped renewing goes
//! through the very same time shifts and does become acquirable, which shows that the time
//! simulation is faithful.

use async_trait::async_trait;
use cardinalsin::compactor::{Compactor, CompactorConfig};
use cardinalsin::ingester::ChunkMetadata;
use cardinalsin::metadata::{
    CompactionLeases, LeaseStatus, MetadataClient, S3MetadataClient, S3MetadataConfig,
};
use cardinalsin::sharding::{HotShardConfig, ShardMonitor};
use cardinalsin::StorageConfig;
use futures::stream::BoxStream;
use futures::StreamExt;
use object_store::memory::InMemory;
use object_store::path::Path;
use object_store::{
    GetOptions, GetResult, ListResult, MultipartUpload, ObjectMeta, ObjectStore, PutMultipartOpts,
    PutOptions, PutPayload, PutResult,
};
use std::fmt;
use std::sync::atomic::{AtomicBool, AtomicUsize, Ordering};
use std::sync::Arc;
use std::time::Duration;

/// Object store of node A: InMemory plus ONE injected transient failure (think "503 Slow
/// Down") on the first PUT of compaction-jobs.json.  Everything else is passed through.
struct FaultyStore {
    inner: Arc<InMemory>,
    fail_next_jobs_put: AtomicBool,
    lease_file_puts: AtomicUsize,
    /// Second scenario (no injected error at all): while `races_left > 0`, just before each
    /// of A's conditional PUTs of the lease file reaches the store, node C completes an
    /// ordinary `acquire_lease` on unrelated chunks, so A's PUT legitimately loses the CAS.
    node_c: S3MetadataClient,
    races_left: AtomicUsize,
    races_done: AtomicUsize,
    /// Arm five races when A's merge starts reading its source chunks (i.e. after A's
    /// acquire_lease went through).
    arm_races_on_chunk_read: AtomicBool,
}

impl fmt::Debug for FaultyStore {
    fn fmt(&self, f: &mut fmt::Formatter<'_>) -> fmt::Result {
        write!(f, "FaultyStore")
    }
}
impl fmt::Display for FaultyStore {
    fn fmt(&self, f: &mut fmt::Formatter<'_>) -> fmt::Result {
        write!(f, "FaultyStore")
    }
}

#[async_trait]
impl ObjectStore for FaultyStore {
    async fn put_opts(
        &self,
        location: &Path,
        payload: PutPayload,
        opts: PutOptions,
    ) -> object_store::Result<PutResult> {
        let loc = location.to_string();
        if loc.ends_with("compaction-jobs.json")
            && self.fail_next_jobs_put.swap(false, Ordering::SeqCst)
        {
            return Err(object_store::Error::Generic {
                store: "FaultyStore",
                source: "injected transient failure: 503 Slow Down".into(),
            });
        }
        if loc.ends_with("compaction-leases.json") {
            let raced = self
                .races_left
                .fetch_update(Ordering::SeqCst, Ordering::SeqCst, |n| n.checked_sub(1))
                .is_ok();
            if raced {
                let n = self.races_done.fetch_add(1, Ordering::SeqCst);
                self.node_c
                    .acquire_lease("node-C", &[format!("unrelated_{}.parquet", n)], 1)
                    .await
                    .expect("node C's acquire on unrelated chunks");
            }
        }
        let res = self.inner.put_opts(location, payload, opts).await;
        if loc.ends_with("compaction-leases.json") && res.is_ok() {
            self.lease_file_puts.fetch_add(1, Ordering::SeqCst);
        }
        res
    }
    async fn put_multipart_opts(
        &self,
        location: &Path,
        opts: PutMultipartOpts,
    ) -> object_store::Result<Box<dyn MultipartUpload>> {
        self.inner.put_multipart_opts(location, opts).await
    }
    async fn get_opts(
        &self,
        location: &Path,
        options: GetOptions,
    ) -> object_store::Result<GetResult> {
        if location.to_string().ends_with(".parquet")
            && self.arm_races_on_chunk_read.swap(false, Ordering::SeqCst)
        {
            self.races_left.store(5, Ordering::SeqCst);
        }
        self.inner.get_opts(location, options).await
    }
    async fn delete(&self, location: &Path) -> object_store::Result<()> {
        self.inner.delete(location).await
    }
    fn list(&self, prefix: Option<&Path>) -> BoxStream<'_, object_store::Result<ObjectMeta>> {
        self.inner.list(prefix)
    }
    async fn list_with_delimiter(&self, prefix: Option<&Path>) -> object_store::Result<ListResult> {
        self.inner.list_with_delimiter(prefix).await
    }
    async fn copy(&self, from: &Path, to: &Path) -> object_store::Result<()> {
        self.inner.copy(from, to).await
    }
    async fn copy_if_not_exists(&self, from: &Path, to: &Path) -> object_store::Result<()> {
        self.inner.copy_if_not_exists(from, to).await
    }
}

fn cfg() -> S3MetadataConfig {
    S3MetadataConfig {
        bucket: "test-bucket".to_string(),
        metadata_prefix: "test/".to_string(),
        enable_cache: false,
        allow_unsafe_overwrite: false,
    }
}

async fn lease_file_location(store: &InMemory) -> Path {
    let mut listing = store.list(None);
    while let Some(meta) = listing.next().await {
        let meta = meta.unwrap();
        if meta.location.to_string().ends_with("compaction-leases.json") {
            return meta.location;
        }
    }
    panic!("no compaction-leases.json in the store");
}

/// Let `secs` seconds pass for every node: shift every timestamp stored in the lease file
/// back by `secs` (equivalent to the shared wall clock moving forward by `secs`), move
/// tokio's paused timer clock forward by the same amount, then let background tasks run
/// until they are all idle again.
async fn let_time_pass(store: &InMemory, secs: i64) {
    let loc = lease_file_location(store).await;
    let bytes = store.get(&loc).await.unwrap().bytes().await.unwrap();
    let mut leases: CompactionLeases = serde_json::from_slice(&bytes).unwrap();
    for lease in leases.leases.values_mut() {
        lease.acquired_at -= chrono::Duration::seconds(secs);
        lease.expires_at -= chrono::Duration::seconds(secs);
    }
    store
        .put(&loc, serde_json::to_vec_pretty(&leases).unwrap().into())
        .await
        .unwrap();

    tokio::time::advance(Duration::from_secs(secs as u64)).await;
    // With the clock paused this returns only once every other task is parked on a timer.
    tokio::time::sleep(Duration::from_millis(1)).await;
}

#[derive(Clone, Copy, Debug, PartialEq)]
enum Trigger {
    /// One transient 503 on the PUT of compaction-jobs.json (create_compaction_job fails).
    TransientPutError,
    /// No injected error: merge fails, then fail_lease exhausts its CAS retries.
    FailLeaseRetryExhaustion,
}

#[tokio::test(start_paused = true)]
async fn abandoned_compaction_keeps_its_lease_alive_forever_after_transient_put_error() {
    scenario(Trigger::TransientPutError).await;
}

#[tokio::test(start_paused = true)]
async fn abandoned_compaction_keeps_its_lease_alive_forever_after_fail_lease_retry_exhaustion() {
    scenario(Trigger::FailLeaseRetryExhaustion).await;
}

async fn scenario(trigger: Trigger) {
    let inner = Arc::new(InMemory::new());

    // Node A: the shipped Compactor over the shipped object-store metadata client.
    let store_a = Arc::new(FaultyStore {
        inner: inner.clone(),
        fail_next_jobs_put: AtomicBool::new(trigger == Trigger::TransientPutError),
        lease_file_puts: AtomicUsize::new(0),
        node_c: S3MetadataClient::new(inner.clone(), cfg()),
        races_left: AtomicUsize::new(0),
        races_done: AtomicUsize::new(0),
        arm_races_on_chunk_read: AtomicBool::new(trigger == Trigger::FailLeaseRetryExhaustion),
    });
    let meta_a: Arc<dyn MetadataClient> = Arc::new(S3MetadataClient::new(store_a.clone(), cfg()));

    // Node B: another process, its own metadata client on the same bucket.
    let meta_b = S3MetadataClient::new(inner.clone(), cfg());

    // Two L0 chunks in the same hour bucket => one L0 compaction group.
    let group: Vec<String> = vec!["l0_a.parquet".to_string(), "l0_b.parquet".to_string()];
    for (i, path) in group.iter().enumerate() {
        let chunk = ChunkMetadata {
            path: path.clone(),
            min_timestamp: 1_000 + i as i64,
            max_timestamp: 2_000 + i as i64,
            row_count: 10,
            size_bytes: 1024,
        };
        meta_b.register_chunk(path, &chunk).await.unwrap();
    }

    let compactor_a = Compactor::new(
        CompactorConfig {
            l0_merge_threshold: 2,
            sharding_enabled: false,
            ..Default::default()
        },
        store_a.clone(),
        meta_a.clone(),
        StorageConfig::default(),
        Arc::new(ShardMonitor::new(HotShardConfig::default())),
    );

    // A starts compacting the group and acquires the lease.  Then either the single PUT of
    // compaction-jobs.json fails transiently, or the merge fails and fail_lease runs out of
    // CAS retries; either way compact_l0 bails out with `?`.
    println!("--- trigger: {:?}", trigger);
    let cycle = compactor_a.run_compaction_cycle().await;
    assert!(
        cycle.is_err(),
        "precondition: the compaction cycle must end with an error, got {:?}",
        cycle
    );
    println!("node A: compaction cycle aborted with: {}", cycle.unwrap_err());
    if trigger == Trigger::FailLeaseRetryExhaustion {
        assert_eq!(
            store_a.races_done.load(Ordering::SeqCst),
            5,
            "precondition: fail_lease lost exactly five CAS races, nothing else was disturbed"
        );
    }

    let leases = meta_b.load_leases().await.unwrap();
    let zombie = leases
        .leases
        .values()
        .find(|l| l.holder_id.starts_with("compactor-"))
        .expect("precondition: A's lease is on file")
        .clone();
    assert_eq!(zombie.status, LeaseStatus::Active);
    assert!(zombie.holder_id.starts_with("compactor-"));
    {
        let mut leased = zombie.chunks.clone();
        leased.sort();
        assert_eq!(leased, group, "precondition: the lease covers the L0 group");
    }
    println!(
        "node A abandoned the compaction but left lease {} Active (ttl 300 s)",
        zombie.lease_id
    );
    let puts_at_abandon = store_a.lease_file_puts.load(Ordering::SeqCst);

    // CONTROL: node C leases two other chunks and crashes (it really stops renewing).
    let control_chunks = vec!["ctl_x.parquet".to_string(), "ctl_y.parquet".to_string()];
    meta_b
        .acquire_lease("node-C-crashed", &control_chunks, 0)
        .await
        .unwrap();

    // 700 s pass (more than two lease TTLs).  Node A is alive but is NOT compacting: its
    // run_compaction_cycle() returned long ago.
    for _ in 0..7 {
        let_time_pass(&inner, 100).await;
    }

    let renewals = store_a.lease_file_puts.load(Ordering::SeqCst) - puts_at_abandon;
    let now = chrono::Utc::now();
    let leases = meta_b.load_leases().await.unwrap();
    if let Some(z) = leases.leases.get(&zombie.lease_id) {
        println!(
            "700 s after A abandoned the compaction: lease {} status {:?}, age {} s, still {} s to live, \
             renewed {} times by A's orphaned renewal task",
            z.lease_id,
            z.status,
            (now - z.acquired_at).num_seconds(),
            (z.expires_at - now).num_seconds(),
            renewals
        );
    }

    // Control: the lease whose holder really stopped renewing is reclaimable after its TTL.
    meta_b
        .acquire_lease("node-B", &control_chunks, 0)
        .await
        .expect("control: a lease that is no longer renewed must be acquirable after 700 s");
    println!("control: node C's unrenewed lease was reclaimed by node B after 700 s, as expected");

    // Property: A stopped working on these chunks 700 s ago (> 2 x TTL); they must be
    // acquirable by another compactor.
    let res = meta_b.acquire_lease("node-B", &group, 0).await;
    assert!(
        res.is_ok(),
        "C08 VIOLATED (lease not reclaimable): node A abandoned its compaction of {:?} 700 s ago \
         (run_compaction_cycle returned an error; trigger {:?}), yet its lease {} \
         is still live because the renewal task that compact_l0 spawned was never aborted and has \
         renewed it {} times since; node B's acquire_lease returned {:?}. The lease can never expire \
         while process A lives, so these chunks can never be compacted again.",
        group,
        trigger,
        zombie.lease_id,
        renewals,
        res.as_ref().err()
    );
}
