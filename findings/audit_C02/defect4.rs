//! C02 audit, defect 4 (configuration): `ObjectStoreMetadataConfig::enable_cache` is never
//! read. A client constructed with `enable_cache: false` (the maintenance binaries
//! rebuild_metadata / backfill_levels and most integration tests do that) still answers
//! get_chunk / get_chunks / list_chunks / get_l0_candidates / get_level_candidates from a
//! catalog copy that may be 60 s old, i.e. it does not see mutations other nodes have
//! completed successfully.
//!
//! Property C02: "every mutation that reports success is reflected in the catalog" - for a
//! reader that explicitly asked for uncached reads there is no TTL to hide behind.

use cardinalsin::ingester::ChunkMetadata;
use cardinalsin::metadata::{MetadataClient, S3MetadataClient, S3MetadataConfig};
use object_store::memory::InMemory;
use std::sync::Arc;

fn chunk(path: &str) -> ChunkMetadata {
    ChunkMetadata {
        path: path.to_string(),
        min_timestamp: 1,
        max_timestamp: 1000,
        row_count: 100,
        size_bytes: 4096,
    }
}

#[tokio::test]
async fn uncached_client_sees_other_nodes_successful_mutations() {
    let store = Arc::new(InMemory::new());
    let uncached = S3MetadataClient::new(
        store.clone(),
        S3MetadataConfig {
            bucket: "test-bucket".to_string(),
            metadata_prefix: "test/".to_string(),
            enable_cache: false, // <- asks for every read to go to the object store
            allow_unsafe_overwrite: false,
        },
    );
    let writer = S3MetadataClient::new(
        store.clone(),
        S3MetadataConfig {
            bucket: "test-bucket".to_string(),
            metadata_prefix: "test/".to_string(),
            enable_cache: true,
            allow_unsafe_overwrite: false,
        },
    );

    writer.register_chunk("a.parquet", &chunk("a.parquet")).await.unwrap();
    assert_eq!(uncached.list_chunks().await.unwrap().len(), 1);

    writer.register_chunk("b.parquet", &chunk("b.parquet")).await.unwrap();
    writer.delete_chunk("a.parquet").await.unwrap();

    let mut seen: Vec<String> = uncached
        .list_chunks()
        .await
        .unwrap()
        .into_iter()
        .map(|c| c.chunk_path)
        .collect();
    seen.sort();
    println!("enable_cache=false client lists: {:?}", seen);
    assert_eq!(
        seen,
        vec!["b.parquet".to_string()],
        "C02 violated: a metadata client configured with enable_cache=false does not reflect \
         two mutations (register b, delete a) that another node completed successfully - the \
         flag is ignored and reads are served from a 60 s cache"
    );
}
