//! C02 audit, defect 5 (defaults / wiring): the object store that `ComponentFactory` builds
//! for CLOUD_PROVIDER=aws (AWS S3, MinIO, any S3 endpoint) can never execute a conditional
//! PUT. `create_object_store_for` uses `AmazonS3Builder::new()` without
//! `.with_conditional_put(S3ConditionalPut::ETagMatch)` (and, not being `from_env()`, it does
//! not pick up AWS_CONDITIONAL_PUT either), and object_store 0.11 answers
//! `PutMode::Create` / `PutMode::Update` on such a store with `Error::NotImplemented`
//! *client-side*, without talking to the server.
//!
//! Consequence: on the S3 backend the catalog's only concurrency mechanism (put_with_cas) is
//! unreachable. Every catalog mutation fails ("CAS conditional writes are required ...")
//! unless S3_METADATA_ALLOW_UNSAFE_OVERWRITE=true - which is what the shipped
//! deploy/docker-compose.yml sets for the ingester, the query node AND the compactor, i.e.
//! for several concurrent catalog writers. With it, every save is a blind overwrite and
//! C02 ("every mutation that reports success is reflected in the catalog") does not hold:
//! test 2 replays GET/GET/PUT/PUT against a store that answers like the factory-built one.

use async_trait::async_trait;
use cardinalsin::config::ComponentFactory;
use cardinalsin::ingester::ChunkMetadata;
use cardinalsin::metadata::{MetadataClient, S3MetadataClient, S3MetadataConfig};
use cardinalsin::{CloudProvider, StorageConfig};
use futures::stream::BoxStream;
use object_store::memory::InMemory;
use object_store::path::Path;
use object_store::{
    GetOptions, GetResult, ListResult, MultipartUpload, ObjectMeta, ObjectStore, PutMode,
    PutMultipartOpts, PutOptions, PutPayload, PutResult, Result as OsResult,
};
use std::fmt;
use std::sync::{Arc, Mutex};
use std::time::Duration;
use tokio::sync::Notify;

/// 1. The store the factory builds for the AWS provider rejects conditional PUTs locally.
#[tokio::test]
async fn factory_built_s3_store_can_do_the_conditional_put_the_catalog_needs() {
    // keep any accidental request on this machine
    std::env::set_var("S3_ENDPOINT", "http://127.0.0.1:9");
    std::env::set_var("AWS_ACCESS_KEY_ID", "test");
    std::env::set_var("AWS_SECRET_ACCESS_KEY", "test");

    let store = ComponentFactory::create_object_store_for(&StorageConfig {
        provider: CloudProvider::Aws,
        container: "cardinalsin-data".to_string(),
        tenant_id: "default".to_string(),
    })
    .await
    .expect("store builds without network access");

    let path = Path::from("metadata/catalog.json");
    for (name, mode) in [
        ("create-if-absent", PutMode::Create),
        (
            "update-if-ETag-matches",
            PutMode::Update(object_store::UpdateVersion {
                e_tag: Some("\"abc\"".to_string()),
                version: None,
            }),
        ),
    ] {
        let opts = PutOptions {
            mode,
            ..Default::default()
        };
        let started = std::time::Instant::now();
        let outcome = tokio::time::timeout(
            Duration::from_secs(20),
            store.put_opts(&path, PutPayload::from_static(b"{}"), opts),
        )
        .await;
        println!(
            "{}: {:?} after {:?}",
            name,
            outcome.as_ref().map(|r| r.as_ref().map(|_| ())),
            started.elapsed()
        );
        // A store that supports the mode sends the request (here: fails to connect / times
        // out). NotImplemented means the mode is refused before any request is made.
        let refused_locally = matches!(outcome, Ok(Err(object_store::Error::NotImplemented)));
        assert!(
            !refused_locally,
            "C02 mechanism unreachable: the S3 object store built by ComponentFactory refuses \
             the {} PUT with Error::NotImplemented (conditional put is never enabled on the \
             builder), so on S3 / MinIO the catalog can only be written with \
             allow_unsafe_overwrite=true, i.e. without any protection against lost updates",
            name
        );
    }
}

/// 1b. Same wiring problem on CLOUD_PROVIDER=gcp, failing safe: GCS preconditions use the object
/// *generation* (`UpdateVersion::version`); put_with_cas passes `version: None` and only the
/// ETag, so object_store refuses every update-if-matches PUT client-side with MissingVersion.
/// After catalog.json has been created by the first registration, no catalog mutation can
/// ever succeed on GCS (not an atomicity violation - nothing can be written at all).
#[tokio::test]
async fn factory_built_gcs_store_accepts_the_update_the_catalog_sends() {
    let store = match ComponentFactory::create_object_store_for(&StorageConfig {
        provider: CloudProvider::Gcp,
        container: "cardinalsin-data".to_string(),
        tenant_id: "default".to_string(),
    })
    .await
    {
        Ok(s) => s,
        Err(e) => {
            println!("GCS store does not build in this environment, skipped: {}", e);
            return;
        }
    };
    let opts = PutOptions {
        // exactly what put_with_cas builds from the ETag of the GET
        mode: PutMode::Update(object_store::UpdateVersion {
            e_tag: Some("\"abc\"".to_string()),
            version: None,
        }),
        ..Default::default()
    };
    let outcome = tokio::time::timeout(
        Duration::from_secs(20),
        store.put_opts(
            &Path::from("metadata/catalog.json"),
            PutPayload::from_static(b"{}"),
            opts,
        ),
    )
    .await;
    println!("GCS update-if-ETag-matches: {:?}", outcome);
    let refused_locally = match &outcome {
        Ok(Err(e)) => e.to_string().contains("MissingVersion") || format!("{:?}", e).contains("MissingVersion"),
        _ => false,
    };
    assert!(
        !refused_locally,
        "on GCS the catalog update PUT is refused client-side (MissingVersion): put_with_cas \
         sends only an ETag, GCS needs the generation - no catalog mutation after the first can succeed"
    );
}

// ---------------------------------------------------------------------------------------

/// InMemory store that answers conditional PUTs the way the factory-built S3 store does
/// (NotImplemented) and lets the test hold back one catalog GET response.
struct S3AsBuiltByFactory {
    inner: Arc<InMemory>,
    slow_get: Mutex<Option<(Arc<Notify>, Arc<Notify>)>>,
}

impl fmt::Display for S3AsBuiltByFactory {
    fn fmt(&self, f: &mut fmt::Formatter<'_>) -> fmt::Result {
        write!(f, "S3AsBuiltByFactory")
    }
}
impl fmt::Debug for S3AsBuiltByFactory {
    fn fmt(&self, f: &mut fmt::Formatter<'_>) -> fmt::Result {
        write!(f, "S3AsBuiltByFactory")
    }
}

#[async_trait]
impl ObjectStore for S3AsBuiltByFactory {
    async fn put_opts(
        &self,
        location: &Path,
        payload: PutPayload,
        opts: PutOptions,
    ) -> OsResult<PutResult> {
        match opts.mode {
            PutMode::Overwrite => self.inner.put_opts(location, payload, opts).await,
            PutMode::Create | PutMode::Update(_) => Err(object_store::Error::NotImplemented),
        }
    }
    async fn put_multipart_opts(
        &self,
        location: &Path,
        opts: PutMultipartOpts,
    ) -> OsResult<Box<dyn MultipartUpload>> {
        self.inner.put_multipart_opts(location, opts).await
    }
    async fn get_opts(&self, location: &Path, options: GetOptions) -> OsResult<GetResult> {
        let gate = if location.as_ref().ends_with("catalog.json") {
            self.slow_get.lock().unwrap().take()
        } else {
            None
        };
        let res = self.inner.get_opts(location, options).await;
        if let Some((reached, release)) = gate {
            reached.notify_one();
            release.notified().await;
        }
        res
    }
    async fn delete(&self, location: &Path) -> OsResult<()> {
        self.inner.delete(location).await
    }
    fn list(&self, prefix: Option<&Path>) -> BoxStream<'_, OsResult<ObjectMeta>> {
        self.inner.list(prefix)
    }
    async fn list_with_delimiter(&self, prefix: Option<&Path>) -> OsResult<ListResult> {
        self.inner.list_with_delimiter(prefix).await
    }
    async fn copy(&self, from: &Path, to: &Path) -> OsResult<()> {
        self.inner.copy(from, to).await
    }
    async fn copy_if_not_exists(&self, from: &Path, to: &Path) -> OsResult<()> {
        self.inner.copy_if_not_exists(from, to).await
    }
}

fn chunk(path: &str) -> ChunkMetadata {
    ChunkMetadata {
        path: path.to_string(),
        min_timestamp: 1,
        max_timestamp: 1000,
        row_count: 100,
        size_bytes: 4096,
    }
}

/// 2. What that means for the shipped deployment (docker-compose: ingester + compactor, both
/// with S3_METADATA_ALLOW_UNSAFE_OVERWRITE=true): a successful registration is lost.
#[tokio::test]
async fn shipped_s3_configuration_keeps_every_successful_registration() {
    let store = Arc::new(S3AsBuiltByFactory {
        inner: Arc::new(InMemory::new()),
        slow_get: Mutex::new(None),
    });
    let cfg = |unsafe_overwrite: bool| S3MetadataConfig {
        bucket: "cardinalsin-data".to_string(),
        metadata_prefix: "metadata/".to_string(),
        enable_cache: true,
        allow_unsafe_overwrite: unsafe_overwrite,
    };

    // Safe mode (the default) cannot write at all on this store:
    let safe = S3MetadataClient::new(store.clone(), cfg(false));
    let r = safe.register_chunk("x.parquet", &chunk("x.parquet")).await;
    println!("allow_unsafe_overwrite=false: register_chunk -> {:?}", r.as_ref().map_err(|e| e.to_string()));
    assert!(r.is_err());

    // The shipped setting:
    let ingester = Arc::new(S3MetadataClient::new(store.clone(), cfg(true)));
    let compactor = S3MetadataClient::new(store.clone(), cfg(true));

    let reached = Arc::new(Notify::new());
    let release = Arc::new(Notify::new());
    *store.slow_get.lock().unwrap() = Some((reached.clone(), release.clone()));

    let flush = {
        let ingester = ingester.clone();
        tokio::spawn(async move { ingester.register_chunk("a.parquet", &chunk("a.parquet")).await })
    };
    reached.notified().await; // ingester: GET catalog done
    compactor
        .register_chunk("merged.parquet", &chunk("merged.parquet"))
        .await
        .expect("compactor registration reports success"); // GET + PUT
    release.notify_one();
    flush.await.unwrap().expect("ingester registration reports success"); // PUT

    let fresh = S3MetadataClient::new(store.clone(), cfg(true));
    let mut listed: Vec<String> = fresh
        .list_chunks()
        .await
        .unwrap()
        .into_iter()
        .map(|c| c.chunk_path)
        .collect();
    listed.sort();
    println!("catalog after two successful registrations: {:?}", listed);
    assert_eq!(
        listed,
        vec!["a.parquet".to_string(), "merged.parquet".to_string()],
        "C02 violated in the only configuration that runs on the factory-built S3 store: both \
         register_chunk calls reported success, one of them is not in the catalog (lost update, \
         GET/GET/PUT/PUT)"
    );
}
