//! C02 audit, defect 3: registering a path that is already in the catalog appends the path
//! to the time index AGAIN. The chunk map is keyed by path (the second insert replaces the
//! first), the time index is a list per hour bucket (the second push adds a duplicate), so
//! the written catalog version no longer satisfies "the time index is exactly the index of
//! the chunk map". If the two registrations describe different time ranges, the index also
//! keeps the chunk under buckets its (current) metadata does not cover.
//!
//! A path is registered twice
//!  (a) by design: a resumed shard-split backfill re-writes its deterministic
//!      `backfill_<source>_<batch>_<a|b>.parquet` paths (ShardSplitter::write_chunk_to_path), and
//!  (b) inside register_chunk itself: when a conditional PUT is applied but answered with a
//!      5xx, object_store re-sends it, the re-sent PUT fails its If-Match with 412, the client
//!      maps that to Error::Conflict, reloads the catalog (which already contains its own
//!      write) and pushes the path a second time.
//!
//! Property C02: "No reader ever observes a catalog version in which the chunk list and the
//! time index disagree" / observe_at "every version of catalog.json written".
//!
//! Both the object-store backend and LocalMetadataClient behave the same way; the object-store
//! catalog is inspected here because every written version is observable.

use async_trait::async_trait;
use cardinalsin::ingester::ChunkMetadata;
use cardinalsin::metadata::{MetadataCatalog, MetadataClient, S3MetadataClient, S3MetadataConfig};
use futures::stream::BoxStream;
use futures::TryStreamExt;
use object_store::memory::InMemory;
use object_store::path::Path;
use object_store::{
    GetOptions, GetResult, ListResult, MultipartUpload, ObjectMeta, ObjectStore, PutMultipartOpts,
    PutOptions, PutPayload, PutResult, Result as OsResult,
};
use std::collections::{BTreeMap, BTreeSet};
use std::fmt;
use std::sync::atomic::{AtomicBool, Ordering};
use std::sync::Arc;

const HOUR: i64 = 3_600_000_000_000;

fn config() -> S3MetadataConfig {
    S3MetadataConfig {
        bucket: "test-bucket".to_string(),
        metadata_prefix: "test/".to_string(),
        enable_cache: true,
        allow_unsafe_overwrite: false,
    }
}

fn chunk(path: &str, min: i64, max: i64) -> ChunkMetadata {
    ChunkMetadata {
        path: path.to_string(),
        min_timestamp: min,
        max_timestamp: max,
        row_count: 100,
        size_bytes: 4096,
    }
}

/// Read catalog.json as it is stored.
async fn stored_catalog(store: &dyn ObjectStore) -> MetadataCatalog {
    let objects: Vec<ObjectMeta> = store.list(None).try_collect().await.unwrap();
    let meta = objects
        .into_iter()
        .find(|m| m.location.as_ref().ends_with("catalog.json"))
        .expect("catalog.json exists");
    let bytes = store.get(&meta.location).await.unwrap().bytes().await.unwrap();
    serde_json::from_slice(&bytes).unwrap()
}

/// The index a catalog's chunk map implies: chunk -> every hour bucket of [min, max], once.
fn implied_index(catalog: &MetadataCatalog) -> BTreeMap<i64, Vec<String>> {
    let mut idx: BTreeMap<i64, BTreeSet<String>> = BTreeMap::new();
    for (path, c) in &catalog.chunks {
        let mut b = (c.base.min_timestamp / HOUR) * HOUR;
        let end = (c.base.max_timestamp / HOUR) * HOUR;
        while b <= end {
            idx.entry(b).or_default().insert(path.clone());
            b += HOUR;
        }
    }
    idx.into_iter()
        .map(|(k, v)| (k, v.into_iter().collect()))
        .collect()
}

fn sorted_index(catalog: &MetadataCatalog) -> BTreeMap<i64, Vec<String>> {
    catalog
        .time_index
        .iter()
        .map(|(k, v)| {
            let mut v = v.clone();
            v.sort();
            (*k, v)
        })
        .collect()
}

/// (a) the same path registered twice (resumed split backfill), second time with the range the
/// re-written file really has.
#[tokio::test]
async fn reregistering_a_path_keeps_index_and_chunk_map_in_agreement() {
    let store = Arc::new(InMemory::new());
    let client = S3MetadataClient::new(store.clone(), config());

    let p = "shard-b/backfill_6f6c64_0_a.parquet";
    client
        .register_chunk(p, &chunk(p, HOUR + 5, 2 * HOUR + 5))
        .await
        .unwrap();
    // resume: the deterministic path is written and registered again
    client
        .register_chunk(p, &chunk(p, HOUR + 5, 2 * HOUR + 5))
        .await
        .unwrap();
    // and once more describing a narrower file
    client
        .register_chunk(p, &chunk(p, 2 * HOUR + 1, 2 * HOUR + 5))
        .await
        .unwrap();

    let catalog = stored_catalog(store.as_ref()).await;
    println!("chunks     : {:?}", catalog.chunks.keys().collect::<Vec<_>>());
    println!(
        "chunk range: [{}, {}]",
        catalog.chunks[p].base.min_timestamp, catalog.chunks[p].base.max_timestamp
    );
    println!("time_index : {:?}", catalog.time_index);
    println!("implied    : {:?}", implied_index(&catalog));

    assert_eq!(
        sorted_index(&catalog),
        implied_index(&catalog),
        "C02 violated: the stored catalog version has a time index that disagrees with its chunk \
         map - one chunk, listed several times per bucket and under an hour bucket its metadata \
         does not cover"
    );
}

/// InMemory store that applies one conditional catalog PUT and answers it like a re-sent
/// request would be answered: 412 Precondition Failed.
struct ResentPutStore {
    inner: Arc<InMemory>,
    armed: AtomicBool,
}

impl fmt::Display for ResentPutStore {
    fn fmt(&self, f: &mut fmt::Formatter<'_>) -> fmt::Result {
        write!(f, "ResentPutStore")
    }
}
impl fmt::Debug for ResentPutStore {
    fn fmt(&self, f: &mut fmt::Formatter<'_>) -> fmt::Result {
        write!(f, "ResentPutStore")
    }
}

#[async_trait]
impl ObjectStore for ResentPutStore {
    async fn put_opts(
        &self,
        location: &Path,
        payload: PutPayload,
        opts: PutOptions,
    ) -> OsResult<PutResult> {
        let is_catalog = location.as_ref().ends_with("catalog.json");
        let res = self.inner.put_opts(location, payload, opts).await;
        if is_catalog && res.is_ok() && self.armed.swap(false, Ordering::SeqCst) {
            // first attempt applied + 503, transparent re-send -> If-Match fails
            return Err(object_store::Error::Precondition {
                path: location.to_string(),
                source: "412 Precondition Failed (answer to the re-sent PUT)".into(),
            });
        }
        res
    }
    async fn put_multipart_opts(
        &self,
        location: &Path,
        opts: PutMultipartOpts,
    ) -> OsResult<Box<dyn MultipartUpload>> {
        self.inner.put_multipart_opts(location, opts).await
    }
    async fn get_opts(&self, location: &Path, options: GetOptions) -> OsResult<GetResult> {
        self.inner.get_opts(location, options).await
    }
    async fn delete(&self, location: &Path) -> OsResult<()> {
        self.inner.delete(location).await
    }
    fn list(&self, prefix: Option<&Path>) -> BoxStream<'_, OsResult<ObjectMeta>> {
        self.inner.list(prefix)
    }
    async fn list_with_delimiter(&self, prefix: Option<&Path>) -> OsResult<ListResult> {
        self.inner.list_with_delimiter(prefix).await
    }
    async fn copy(&self, from: &Path, to: &Path) -> OsResult<()> {
        self.inner.copy(from, to).await
    }
    async fn copy_if_not_exists(&self, from: &Path, to: &Path) -> OsResult<()> {
        self.inner.copy_if_not_exists(from, to).await
    }
}

/// (b) ONE call of register_chunk whose first PUT was applied but answered as a conflict.
#[tokio::test]
async fn a_single_register_chunk_indexes_the_chunk_once() {
    let store = Arc::new(ResentPutStore {
        inner: Arc::new(InMemory::new()),
        armed: AtomicBool::new(false),
    });
    let client = S3MetadataClient::new(store.clone(), config());
    client
        .register_chunk("a.parquet", &chunk("a.parquet", HOUR + 1, HOUR + 9))
        .await
        .unwrap();

    store.armed.store(true, Ordering::SeqCst);
    client
        .register_chunk("b.parquet", &chunk("b.parquet", HOUR + 1, HOUR + 9))
        .await
        .expect("register_chunk(b) succeeds after its internal CAS retry");

    let catalog = stored_catalog(store.as_ref()).await;
    println!("time_index : {:?}", catalog.time_index);
    println!("implied    : {:?}", implied_index(&catalog));
    assert_eq!(
        sorted_index(&catalog),
        implied_index(&catalog),
        "C02 violated: one successful register_chunk(\"b.parquet\") left b.parquet twice in its \
         hour bucket - the CAS retry re-applied the mutation on top of its own committed write"
    );
}
