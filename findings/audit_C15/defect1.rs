//! C15 audit, defect 1: while ANY split is in DualWrite/Backfill, the query path
//! collapses genuine exact duplicates (rows the client really ingested twice),
//! because the whole-row result de-duplication cannot tell a double-written copy
//! from a second ingested row. The same query with no split returns them all.
//!
//! Public APIs only; unchanged code; deterministic.

use arrow_array::{Float64Array, Int64Array, RecordBatch, StringArray};
use arrow_schema::{DataType, Field, Schema};
use cardinalsin::ingester::{Ingester, IngesterConfig};
use cardinalsin::metadata::{LocalMetadataClient, MetadataClient};
use cardinalsin::query::{QueryConfig, QueryNode};
use cardinalsin::schema::MetricSchema;
use cardinalsin::sharding::{ShardKey, SplitPhase};
use cardinalsin::StorageConfig;
use object_store::memory::InMemory;
use std::sync::Arc;

const BASE: i64 = 1_700_000_000_000_000_000;
const SEC: i64 = 1_000_000_000;

/// Same formula as the (private) `Ingester::compute_shard_id`.
fn shard_id_for(metric: &str, ts: i64) -> String {
    let key = ShardKey::new(0, metric, ts);
    format!(
        "shard-{:x}",
        u64::from_be_bytes(key.to_bytes()[0..8].try_into().unwrap())
    )
}

fn batch(rows: &[(i64, &str, f64, &str)]) -> RecordBatch {
    let schema = Arc::new(Schema::new(vec![
        Field::new("timestamp", DataType::Int64, false),
        Field::new("metric_name", DataType::Utf8, false),
        Field::new("value_f64", DataType::Float64, false),
        Field::new("host", DataType::Utf8, false),
    ]));
    RecordBatch::try_new(
        schema,
        vec![
            Arc::new(Int64Array::from(
                rows.iter().map(|r| r.0).collect::<Vec<_>>(),
            )),
            Arc::new(StringArray::from(
                rows.iter().map(|r| r.1.to_string()).collect::<Vec<_>>(),
            )),
            Arc::new(Float64Array::from(
                rows.iter().map(|r| r.2).collect::<Vec<_>>(),
            )),
            Arc::new(StringArray::from(
                rows.iter().map(|r| r.3.to_string()).collect::<Vec<_>>(),
            )),
        ],
    )
    .unwrap()
}

struct Env {
    store: Arc<InMemory>,
    metadata: Arc<LocalMetadataClient>,
    ingester: Ingester,
}

/// flush_row_count = 1: every write is flushed inline, so the old-shard copy is
/// query-visible right after `write` returns.
fn env() -> Env {
    let store = Arc::new(InMemory::new());
    let metadata = Arc::new(LocalMetadataClient::new());
    let mut cfg = IngesterConfig::default();
    cfg.wal.enabled = false;
    cfg.flush_row_count = 1;
    let ingester = Ingester::new(
        cfg,
        store.clone(),
        metadata.clone(),
        StorageConfig::default(),
        MetricSchema::default_metrics(),
    );
    Env {
        store,
        metadata,
        ingester,
    }
}

async fn start_dual_write(e: &Env, shard: &str, split_ts: i64) {
    e.metadata
        .start_split(
            shard,
            vec!["new-a".into(), "new-b".into()],
            split_ts.to_be_bytes().to_vec(),
        )
        .await
        .unwrap();
    e.metadata
        .update_split_progress(shard, 0.0, SplitPhase::DualWrite)
        .await
        .unwrap();
}

async fn query_rows(e: &Env, sql: &str) -> usize {
    let q = QueryNode::new(
        QueryConfig::default(),
        e.store.clone(),
        e.metadata.clone(),
        StorageConfig::default(),
    )
    .await
    .unwrap();
    let res = q.query(sql).await.unwrap();
    println!(
        "{sql}\n{}",
        arrow::util::pretty::pretty_format_batches(&res).unwrap()
    );
    res.iter().map(|b| b.num_rows()).sum()
}

/// The ingested history: one batch holding the same sample twice plus another
/// sample, then a second request that sends the first sample once more (e.g. two
/// scrapers / an at-least-once producer). 4 ingested rows in total.
async fn ingest_history(e: &Env) {
    let t = BASE + 10 * SEC;
    e.ingester
        .write(batch(&[
            (t, "cpu", 1.0, "h1"),
            (t, "cpu", 1.0, "h1"),
            (t + SEC, "cpu", 2.0, "h1"),
        ]))
        .await
        .unwrap();
    e.ingester
        .write(batch(&[(t, "cpu", 1.0, "h1")]))
        .await
        .unwrap();
}

const SQL: &str = "SELECT * FROM metrics WHERE timestamp >= 0 ORDER BY timestamp";

#[tokio::test]
async fn control_no_split_returns_every_ingested_row() {
    let e = env();
    ingest_history(&e).await;
    assert_eq!(query_rows(&e, SQL).await, 4);
}

#[tokio::test]
async fn genuine_duplicates_are_collapsed_during_dual_write() {
    let e = env();
    start_dual_write(&e, &shard_id_for("cpu", BASE), BASE + 100 * SEC).await;
    ingest_history(&e).await;
    let n = query_rows(&e, SQL).await;
    assert_eq!(
        n, 4,
        "C15 violated: 4 rows were ingested (3 of them genuine exact duplicates of one \
         sample) and the same query with no split returns 4, but during DualWrite the \
         query returned {n}: genuine duplicates were suppressed together with the \
         double-written copies"
    );
}

/// The switch is global (`has_active_split`), so a split of an UNRELATED shard
/// changes the answer for data that is not being split or dual-written at all.
#[tokio::test]
async fn genuine_duplicates_are_collapsed_by_an_unrelated_split() {
    let e = env();
    let unrelated = shard_id_for("some_other_metric", BASE);
    assert_ne!(unrelated, shard_id_for("cpu", BASE));
    start_dual_write(&e, &unrelated, BASE + 100 * SEC).await;
    ingest_history(&e).await;
    // nothing was dual-written: cpu's shard is not splitting
    assert!(e
        .metadata
        .get_chunks_for_shard("new-a")
        .await
        .unwrap()
        .is_empty());
    let n = query_rows(&e, SQL).await;
    assert_eq!(
        n, 4,
        "C15 violated: no row of this query was double-written, 4 rows were ingested, \
         but because some other shard is in DualWrite the query returned {n}"
    );
}
