//! C15 audit, defect 5: whether a query suppresses double-written copies is decided by
//! ONE read of the split-state flag (`has_active_split`), taken after the chunk list
//! was fetched - not by whether the chunk list actually contains both copies. The flag
//! disappears at `complete_split`, the copies do not.
//!
//!  a. (literally inside C15) a query issued while the shard is in Backfill whose
//!     chunk listing precedes the splitter's `complete_split` and whose
//!     `has_active_split` read follows it returns every dual-written row twice;
//!  b. (the same hole, wide open) after the split has run to completion - back-fill,
//!     cut-over, clean-up with the real `ShardSplitter` - every row that was ingested
//!     during DualWrite/Backfill is returned twice, forever: the old-shard copies were
//!     flushed by the ingester under `<tenant>/data/year=...` paths that carry no shard
//!     id, so neither back-fill nor clean-up ever finds them
//!     (`get_chunks_for_shard` matches on the path), and nothing de-duplicates any more.
//!
//! Public APIs only; unchanged code under src/; deterministic.

use cardinalsin::sharding::{ShardSplitter, ShardState};
use std::time::Duration;
use arrow_array::{Float64Array, Int64Array, RecordBatch, StringArray};
use arrow_schema::{DataType, Field, Schema};
use async_trait::async_trait;
use cardinalsin::ingester::{ChunkMetadata, Ingester, IngesterConfig};
use cardinalsin::metadata::{
    ColumnPredicate, CompactionJob, CompactionStatus, LocalMetadataClient, MetadataClient,
    SplitState, TimeIndexEntry, TimeRange,
};
use cardinalsin::query::{QueryConfig, QueryNode};
use cardinalsin::schema::MetricSchema;
use cardinalsin::sharding::{ShardKey, ShardMetadata, SplitPhase};
use cardinalsin::{Error, Result, StorageConfig};
use object_store::memory::InMemory;
use std::sync::{Arc, Mutex};

const BASE: i64 = 1_700_000_000_000_000_000;
const SEC: i64 = 1_000_000_000;

/// Same formula as the (private) `Ingester::compute_shard_id`.
fn shard_id_for(metric: &str, ts: i64) -> String {
    let key = ShardKey::new(0, metric, ts);
    format!(
        "shard-{:x}",
        u64::from_be_bytes(key.to_bytes()[0..8].try_into().unwrap())
    )
}

fn batch(rows: &[(i64, &str, f64, &str)]) -> RecordBatch {
    let schema = Arc::new(Schema::new(vec![
        Field::new("timestamp", DataType::Int64, false),
        Field::new("metric_name", DataType::Utf8, false),
        Field::new("value_f64", DataType::Float64, false),
        Field::new("host", DataType::Utf8, false),
    ]));
    RecordBatch::try_new(
        schema,
        vec![
            Arc::new(Int64Array::from(
                rows.iter().map(|r| r.0).collect::<Vec<_>>(),
            )),
            Arc::new(StringArray::from(
                rows.iter().map(|r| r.1.to_string()).collect::<Vec<_>>(),
            )),
            Arc::new(Float64Array::from(
                rows.iter().map(|r| r.2).collect::<Vec<_>>(),
            )),
            Arc::new(StringArray::from(
                rows.iter().map(|r| r.3.to_string()).collect::<Vec<_>>(),
            )),
        ],
    )
    .unwrap()
}

/// A metadata client that forwards everything to the in-memory backend and can
///  * fail ONE `register_chunk` whose path contains a given substring (a transient
///    catalog error: CAS retries exhausted, 503, timeout ...), and
///  * let a concurrent actor's `complete_split` land right after the chunk listing
///    of a query (forces one particular, legal interleaving).
struct Hooked {
    inner: Arc<LocalMetadataClient>,
    fail_register_once_containing: Mutex<Option<String>>,
    complete_split_after_listing: Mutex<Option<String>>,
}

impl Hooked {
    fn new() -> Arc<Self> {
        Arc::new(Self {
            inner: Arc::new(LocalMetadataClient::new()),
            fail_register_once_containing: Mutex::new(None),
            complete_split_after_listing: Mutex::new(None),
        })
    }
}

#[async_trait]
impl MetadataClient for Hooked {
    async fn register_chunk(&self, path: &str, metadata: &ChunkMetadata) -> Result<()> {
        let hit = {
            let mut g = self.fail_register_once_containing.lock().unwrap();
            match g.as_deref() {
                Some(s) if path.contains(s) => {
                    *g = None;
                    true
                }
                _ => false,
            }
        };
        if hit {
            return Err(Error::Metadata(format!(
                "injected transient failure registering {path}"
            )));
        }
        self.inner.register_chunk(path, metadata).await
    }
    async fn get_chunks(&self, range: TimeRange) -> Result<Vec<TimeIndexEntry>> {
        self.inner.get_chunks(range).await
    }
    async fn get_chunks_with_predicates(
        &self,
        range: TimeRange,
        predicates: &[ColumnPredicate],
    ) -> Result<Vec<TimeIndexEntry>> {
        let listed = self
            .inner
            .get_chunks_with_predicates(range, predicates)
            .await?;
        let shard = self.complete_split_after_listing.lock().unwrap().take();
        if let Some(shard) = shard {
            // the splitter, in another process, reaches the end of its cutover now
            self.inner.complete_split(&shard).await?;
        }
        Ok(listed)
    }
    async fn get_chunk(&self, path: &str) -> Result<Option<ChunkMetadata>> {
        self.inner.get_chunk(path).await
    }
    async fn delete_chunk(&self, path: &str) -> Result<()> {
        self.inner.delete_chunk(path).await
    }
    async fn list_chunks(&self) -> Result<Vec<TimeIndexEntry>> {
        self.inner.list_chunks().await
    }
    async fn get_l0_candidates(&self, min_count: usize) -> Result<Vec<Vec<String>>> {
        self.inner.get_l0_candidates(min_count).await
    }
    async fn get_level_candidates(
        &self,
        level: usize,
        target_size: usize,
    ) -> Result<Vec<Vec<String>>> {
        self.inner.get_level_candidates(level, target_size).await
    }
    async fn create_compaction_job(&self, job: CompactionJob) -> Result<()> {
        self.inner.create_compaction_job(job).await
    }
    async fn complete_compaction(&self, source_chunks: &[String], target: &str) -> Result<()> {
        self.inner.complete_compaction(source_chunks, target).await
    }
    async fn update_compaction_status(&self, id: &str, status: CompactionStatus) -> Result<()> {
        self.inner.update_compaction_status(id, status).await
    }
    async fn get_pending_compaction_jobs(&self) -> Result<Vec<CompactionJob>> {
        self.inner.get_pending_compaction_jobs().await
    }
    async fn start_split(
        &self,
        old_shard: &str,
        new_shards: Vec<String>,
        split_point: Vec<u8>,
    ) -> Result<()> {
        self.inner.start_split(old_shard, new_shards, split_point).await
    }
    async fn get_split_state(&self, shard_id: &str) -> Result<Option<SplitState>> {
        self.inner.get_split_state(shard_id).await
    }
    async fn update_split_progress(
        &self,
        shard_id: &str,
        progress: f64,
        phase: SplitPhase,
    ) -> Result<()> {
        self.inner
            .update_split_progress(shard_id, progress, phase)
            .await
    }
    async fn complete_split(&self, old_shard: &str) -> Result<()> {
        self.inner.complete_split(old_shard).await
    }
    async fn get_chunks_for_shard(&self, shard_id: &str) -> Result<Vec<TimeIndexEntry>> {
        self.inner.get_chunks_for_shard(shard_id).await
    }
    async fn get_shard_metadata(&self, shard_id: &str) -> Result<Option<ShardMetadata>> {
        self.inner.get_shard_metadata(shard_id).await
    }
    async fn update_shard_metadata(
        &self,
        shard_id: &str,
        metadata: &ShardMetadata,
        expected_generation: u64,
    ) -> Result<()> {
        self.inner
            .update_shard_metadata(shard_id, metadata, expected_generation)
            .await
    }
    async fn has_active_split(&self) -> Result<bool> {
        self.inner.has_active_split().await
    }
}

struct Env {
    store: Arc<InMemory>,
    metadata: Arc<Hooked>,
    ingester: Ingester,
}

/// `flush_rows` = 1 flushes every write inline (old-shard copy immediately
/// query-visible); a large value keeps the rows in the write buffer.
fn env(flush_rows: usize) -> Env {
    let store = Arc::new(InMemory::new());
    let metadata = Hooked::new();
    let mut cfg = IngesterConfig::default();
    cfg.wal.enabled = false;
    cfg.flush_row_count = flush_rows;
    let ingester = Ingester::new(
        cfg,
        store.clone(),
        metadata.clone(),
        StorageConfig::default(),
        MetricSchema::default_metrics(),
    );
    Env {
        store,
        metadata,
        ingester,
    }
}

async fn start_dual_write(e: &Env, shard: &str, split_ts: i64) {
    e.metadata
        .start_split(
            shard,
            vec!["new-a".into(), "new-b".into()],
            split_ts.to_be_bytes().to_vec(),
        )
        .await
        .unwrap();
    e.metadata
        .update_split_progress(shard, 0.0, SplitPhase::DualWrite)
        .await
        .unwrap();
}

async fn query_node(e: &Env) -> QueryNode {
    QueryNode::new(
        QueryConfig::default(),
        e.store.clone(),
        e.metadata.clone(),
        StorageConfig::default(),
    )
    .await
    .unwrap()
}

async fn run(q: &QueryNode, sql: &str) -> usize {
    let res = q.query(sql).await.unwrap();
    println!(
        "{sql}\n{}",
        arrow::util::pretty::pretty_format_batches(&res).unwrap()
    );
    res.iter().map(|b| b.num_rows()).sum()
}

const SQL: &str = "SELECT * FROM metrics WHERE timestamp >= 0 ORDER BY timestamp";

async fn ingest_two_rows(e: &Env, split_ts: i64) {
    e.ingester
        .write(batch(&[
            (split_ts - SEC, "cpu", 1.0, "h1"),
            (split_ts, "cpu", 2.0, "h1"),
        ]))
        .await
        .unwrap();
}

#[tokio::test]
async fn a_query_racing_with_complete_split_returns_copies() {
    let e = env(1);
    let split_ts = BASE + 100 * SEC;
    let shard = shard_id_for("cpu", BASE);
    start_dual_write(&e, &shard, split_ts).await;
    ingest_two_rows(&e, split_ts).await;
    e.metadata
        .update_split_progress(&shard, 1.0, SplitPhase::Backfill)
        .await
        .unwrap();

    let q = query_node(&e).await;
    assert_eq!(run(&q, SQL).await, 2, "sanity: exact while nothing races");

    // The query is issued while the shard is in Backfill ...
    assert!(e.metadata.has_active_split().await.unwrap());
    // ... and the splitter's complete_split lands between the two metadata reads.
    *e.metadata.complete_split_after_listing.lock().unwrap() = Some(shard.clone());
    let n = run(&q, SQL).await;
    assert_eq!(
        n, 2,
        "C15 violated: 2 rows were ingested; a query issued during Backfill returned {n} \
         rows because the split finished between its chunk listing (both copies listed) \
         and its has_active_split check (suppression switched off)"
    );
}

#[tokio::test]
async fn b_after_the_split_completes_every_dual_written_row_is_returned_twice() {
    let e = env(1);
    let split_ts = BASE + 100 * SEC;
    let shard = shard_id_for("cpu", BASE);
    let new_shards = vec!["new-a".to_string(), "new-b".to_string()];
    let split_point = split_ts.to_be_bytes().to_vec();

    // the shard being split exists in the catalog
    let meta = ShardMetadata {
        shard_id: shard.clone(),
        generation: 0,
        key_range: (vec![0; 8], vec![255; 8]),
        replicas: vec![],
        state: ShardState::Active,
        min_time: BASE,
        max_time: BASE + 200 * SEC,
    };
    e.metadata
        .update_shard_metadata(&shard, &meta, 0)
        .await
        .unwrap();

    start_dual_write(&e, &shard, split_ts).await;
    ingest_two_rows(&e, split_ts).await;

    let q = query_node(&e).await;
    assert_eq!(run(&q, SQL).await, 2, "sanity: exact during DualWrite");

    // Remaining phases, with the real splitter.
    let splitter = ShardSplitter::new(e.metadata.clone(), e.store.clone());
    splitter
        .run_backfill(&shard, &new_shards, &split_point)
        .await
        .unwrap();
    assert_eq!(run(&q, SQL).await, 2, "sanity: exact during Backfill");
    splitter.cutover(&shard).await.unwrap();
    splitter.cleanup(&shard, Duration::ZERO).await.unwrap();
    assert!(e.metadata.get_split_state(&shard).await.unwrap().is_none());

    for c in e.metadata.list_chunks().await.unwrap() {
        println!("catalog after the split: {} ({} rows)", c.chunk_path, c.row_count);
    }
    let n = run(&q, SQL).await;
    assert_eq!(
        n, 2,
        "C15 (extended past the phase boundary) violated: 2 rows were ingested during \
         DualWrite; after the split ran to completion (backfill, cutover, cleanup) the \
         query returns {n} rows: the old-shard copies are still in the catalog next to the \
         new-shard copies and the suppression is gone with the split state"
    );
}
