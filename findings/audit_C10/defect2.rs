//! C10 audit, defect 2.
//!
//! Before `QueryNode::query_for_tenant` (and `StreamingQueryExecutor::execute`) selects
//! its own chunk set it plans the statement twice, in `extract_time_range` and in
//! `extract_column_predicates`. Both go through `plan_read_only_sql`, which resolves
//! `metrics` to whatever table is bound in the shared session at that moment, i.e. to
//! the chunk set selected for the most recent *other* query. When that chunk set has
//! no column the statement mentions (label columns differ from chunk to chunk), this
//! planning fails with a schema error and the query is rejected, although every chunk
//! the query itself would select has the column and the query succeeds when run alone.

use arrow_array::cast::AsArray;
use arrow_array::{Float64Array, Int64Array, RecordBatch, StringArray};
use arrow_schema::{DataType, Field, Schema};
use async_trait::async_trait;
use bytes::Bytes;
use cardinalsin::ingester::ChunkMetadata;
use cardinalsin::metadata::{LocalMetadataClient, MetadataClient};
use cardinalsin::query::{QueryConfig, QueryNode};
use cardinalsin::StorageConfig;
use datafusion::prelude::SessionContext;
use futures::stream::BoxStream;
use object_store::memory::InMemory;
use object_store::path::Path;
use object_store::{
    GetOptions, GetResult, ListResult, MultipartUpload, ObjectMeta, ObjectStore, PutMultipartOpts,
    PutOptions, PutPayload, PutResult, Result as OsResult,
};
use std::ops::Range;
use std::sync::atomic::{AtomicBool, Ordering};
use std::sync::{Arc, OnceLock};
use tokio::sync::Semaphore;

const W1: i64 = 1_600_000_000_000_000_000; // window of chunk X (has `datacenter`)
const W2: i64 = 1_650_000_000_000_000_000; // window of chunk Y (has `rack` instead)
const Y_PATH: &str = "default/data/y.parquet";

/// Object store that parks the first data read of chunk Y which happens AFTER the
/// query reading it has bound `metrics` to {Y} (recognised by the bound table no longer
/// having the `datacenter` column), i.e. while that query executes its statement,
/// outside the registration lock.
struct GateStore {
    inner: Arc<InMemory>,
    ctx: OnceLock<SessionContext>,
    armed: AtomicBool,
    reached: Semaphore,
    release: Semaphore,
}

impl GateStore {
    async fn gate(&self, location: &Path) {
        if location.as_ref() != Y_PATH || !self.armed.load(Ordering::SeqCst) {
            return;
        }
        let Some(ctx) = self.ctx.get() else { return };
        let Ok(provider) = ctx.table_provider("metrics").await else {
            return;
        };
        if provider.schema().field_with_name("datacenter").is_ok() {
            return; // still the previous binding: the reader is registering, under the lock
        }
        if self.armed.swap(false, Ordering::SeqCst) {
            self.reached.add_permits(1);
            self.release.acquire().await.unwrap().forget();
        }
    }
}

impl std::fmt::Display for GateStore {
    fn fmt(&self, f: &mut std::fmt::Formatter<'_>) -> std::fmt::Result {
        write!(f, "GateStore")
    }
}
impl std::fmt::Debug for GateStore {
    fn fmt(&self, f: &mut std::fmt::Formatter<'_>) -> std::fmt::Result {
        write!(f, "GateStore")
    }
}

#[async_trait]
impl ObjectStore for GateStore {
    async fn put_opts(&self, l: &Path, p: PutPayload, o: PutOptions) -> OsResult<PutResult> {
        self.inner.put_opts(l, p, o).await
    }
    async fn put_multipart_opts(
        &self,
        l: &Path,
        o: PutMultipartOpts,
    ) -> OsResult<Box<dyn MultipartUpload>> {
        self.inner.put_multipart_opts(l, o).await
    }
    async fn get_opts(&self, l: &Path, o: GetOptions) -> OsResult<GetResult> {
        self.gate(l).await;
        self.inner.get_opts(l, o).await
    }
    async fn get_range(&self, l: &Path, r: Range<usize>) -> OsResult<Bytes> {
        self.gate(l).await;
        self.inner.get_range(l, r).await
    }
    async fn get_ranges(&self, l: &Path, r: &[Range<usize>]) -> OsResult<Vec<Bytes>> {
        self.gate(l).await;
        self.inner.get_ranges(l, r).await
    }
    async fn head(&self, l: &Path) -> OsResult<ObjectMeta> {
        self.gate(l).await;
        self.inner.head(l).await
    }
    async fn delete(&self, l: &Path) -> OsResult<()> {
        self.inner.delete(l).await
    }
    fn list(&self, p: Option<&Path>) -> BoxStream<'_, OsResult<ObjectMeta>> {
        self.inner.list(p)
    }
    async fn list_with_delimiter(&self, p: Option<&Path>) -> OsResult<ListResult> {
        self.inner.list_with_delimiter(p).await
    }
    async fn copy(&self, a: &Path, b: &Path) -> OsResult<()> {
        self.inner.copy(a, b).await
    }
    async fn copy_if_not_exists(&self, a: &Path, b: &Path) -> OsResult<()> {
        self.inner.copy_if_not_exists(a, b).await
    }
}

async fn put_chunk(
    store: &Arc<InMemory>,
    metadata: &Arc<LocalMetadataClient>,
    path: &str,
    base_ts: i64,
    label: &str,
) {
    let schema = Arc::new(Schema::new(vec![
        Field::new("timestamp", DataType::Int64, false),
        Field::new("metric_name", DataType::Utf8, false),
        Field::new("value_f64", DataType::Float64, false),
        Field::new(label, DataType::Utf8, false),
    ]));
    let batch = RecordBatch::try_new(
        schema.clone(),
        vec![
            Arc::new(Int64Array::from(vec![base_ts, base_ts + 1, base_ts + 2])),
            Arc::new(StringArray::from(vec!["cpu", "cpu", "cpu"])),
            Arc::new(Float64Array::from(vec![1.0, 2.0, 3.0])),
            Arc::new(StringArray::from(vec!["east", "east", "west"])),
        ],
    )
    .unwrap();
    let mut buf = Vec::new();
    {
        let mut w = parquet::arrow::ArrowWriter::try_new(&mut buf, schema, None).unwrap();
        w.write(&batch).unwrap();
        w.close().unwrap();
    }
    let size = buf.len() as u64;
    store.put(&Path::from(path), buf.into()).await.unwrap();
    metadata
        .register_chunk(
            path,
            &ChunkMetadata {
                path: path.to_string(),
                min_timestamp: base_ts,
                max_timestamp: base_ts + 2,
                row_count: 3,
                size_bytes: size,
            },
        )
        .await
        .unwrap();
}

fn count_of(batches: &[RecordBatch]) -> i64 {
    batches
        .iter()
        .filter(|b| b.num_rows() > 0)
        .map(|b| {
            b.column(0)
                .as_primitive::<arrow_array::types::Int64Type>()
                .value(0)
        })
        .sum()
}

#[tokio::test(flavor = "multi_thread", worker_threads = 4)]
async fn query_is_rejected_because_another_query_with_a_different_window_is_running() {
    let mem = Arc::new(InMemory::new());
    let metadata = Arc::new(LocalMetadataClient::new());
    put_chunk(&mem, &metadata, "default/data/x.parquet", W1, "datacenter").await;
    put_chunk(&mem, &metadata, Y_PATH, W2, "rack").await;

    let gate = Arc::new(GateStore {
        inner: mem.clone(),
        ctx: OnceLock::new(),
        armed: AtomicBool::new(false),
        reached: Semaphore::new(0),
        release: Semaphore::new(0),
    });
    let node = Arc::new(
        QueryNode::new(
            QueryConfig::default(),
            gate.clone(),
            metadata.clone(),
            StorageConfig::default(),
        )
        .await
        .unwrap(),
    );
    let _ = gate.ctx.set(node.engine.context().clone());

    let query_a = format!(
        "SELECT count(*) FROM metrics WHERE datacenter = 'east' \
         AND timestamp >= {} AND timestamp <= {}",
        W1,
        W1 + 10
    );
    let query_b = format!(
        "SELECT count(*) FROM metrics WHERE timestamp >= {} AND timestamp <= {}",
        W2,
        W2 + 10
    );

    // A dashboard-style query over everything: binds `metrics` to {X, Y}.
    let all = node
        .query("SELECT count(*) FROM metrics WHERE timestamp >= 0")
        .await
        .unwrap();
    assert_eq!(count_of(&all), 6);

    // Query A alone on this node and this data: 2 rows, repeatably.
    assert_eq!(count_of(&node.query(&query_a).await.unwrap()), 2);
    assert_eq!(count_of(&node.query(&query_a).await.unwrap()), 2);

    // Query B (different window, different chunk set) starts and is held while it
    // executes its statement (it has bound its table and released the lock).
    gate.armed.store(true, Ordering::SeqCst);
    let b_task = {
        let node = node.clone();
        let query_b = query_b.clone();
        tokio::spawn(async move { node.query(&query_b).await })
    };
    gate.reached.acquire().await.unwrap().forget();

    // Query A again, now concurrently with B.
    let a_concurrent = node.query(&query_a).await;

    gate.release.add_permits(1);
    let b = b_task.await.unwrap().unwrap();
    assert_eq!(count_of(&b), 3, "query B itself is answered correctly");

    match a_concurrent {
        Ok(batches) => assert_eq!(count_of(&batches), 2),
        Err(e) => panic!(
            "C10 violated: query A returns 2 rows when run alone, but is rejected while query B \
             (different window, different chunk set) is executing on the same node, because A's \
             pruning-phase planning resolved `metrics` to the chunk set selected for B: {}",
            e
        ),
    }
}
