//! C10 audit, defect 1.
//!
//! `QueryEngine::with_metrics_table` plans the statement while it holds the
//! registration lock and then releases the lock before the statement runs, on the
//! ground that "the planned statement keeps the table it resolved". That is true
//! for `FROM metrics`, but not for `information_schema.*`: DataFusion's information
//! schema tables walk the *live* session catalog when the plan is EXECUTED, i.e.
//! after the lock has been released. A statement such as
//!
//!   SELECT DISTINCT column_name FROM information_schema.columns WHERE table_name = 'metrics'
//!
//! (issued verbatim by the Prometheus `/labels` and `/series` handlers, and in
//! similar form by the Flight SQL catalog calls) therefore reports the columns of
//! whichever chunk set the most recent concurrent query bound to `metrics`, not the
//! chunk set selected for itself.

use arrow_array::cast::AsArray;
use arrow_array::{Array, Float64Array, Int64Array, RecordBatch, StringArray};
use arrow_schema::{DataType, Field, Schema};
use cardinalsin::ingester::ChunkMetadata;
use cardinalsin::metadata::{LocalMetadataClient, MetadataClient};
use cardinalsin::query::{QueryConfig, QueryNode};
use cardinalsin::StorageConfig;
use object_store::memory::InMemory;
use object_store::path::Path;
use object_store::ObjectStore;
use std::collections::BTreeSet;
use std::sync::atomic::{AtomicUsize, Ordering};
use std::sync::Arc;

const COLUMNS_SQL: &str =
    "SELECT DISTINCT column_name FROM information_schema.columns WHERE table_name = 'metrics'";

const OLD_BASE: i64 = 1_600_000_000_000_000_000; // Sept 2020

/// Write a three-row chunk whose only label column is `label`.
async fn put_chunk(
    store: &Arc<InMemory>,
    metadata: &Arc<LocalMetadataClient>,
    path: &str,
    base_ts: i64,
    label: &str,
) {
    let schema = Arc::new(Schema::new(vec![
        Field::new("timestamp", DataType::Int64, false),
        Field::new("metric_name", DataType::Utf8, false),
        Field::new("value_f64", DataType::Float64, false),
        Field::new(label, DataType::Utf8, false),
    ]));
    let batch = RecordBatch::try_new(
        schema.clone(),
        vec![
            Arc::new(Int64Array::from(vec![base_ts, base_ts + 1, base_ts + 2])),
            Arc::new(StringArray::from(vec!["cpu", "cpu", "cpu"])),
            Arc::new(Float64Array::from(vec![1.0, 2.0, 3.0])),
            Arc::new(StringArray::from(vec!["a", "b", "c"])),
        ],
    )
    .unwrap();
    let mut buf = Vec::new();
    {
        let mut w = parquet::arrow::ArrowWriter::try_new(&mut buf, schema, None).unwrap();
        w.write(&batch).unwrap();
        w.close().unwrap();
    }
    let size = buf.len() as u64;
    store.put(&Path::from(path), buf.into()).await.unwrap();
    metadata
        .register_chunk(
            path,
            &ChunkMetadata {
                path: path.to_string(),
                min_timestamp: base_ts,
                max_timestamp: base_ts + 2,
                row_count: 3,
                size_bytes: size,
            },
        )
        .await
        .unwrap();
}

fn column_names(batches: &[RecordBatch]) -> BTreeSet<String> {
    let mut out = BTreeSet::new();
    for b in batches {
        let col = b.column_by_name("column_name").expect("column_name");
        let col = arrow::compute::cast(col, &DataType::Utf8).unwrap();
        let arr = col.as_string::<i32>();
        for i in 0..arr.len() {
            out.insert(arr.value(i).to_string());
        }
    }
    out
}

fn count_of(batches: &[RecordBatch]) -> i64 {
    batches
        .iter()
        .filter(|b| b.num_rows() > 0)
        .map(|b| {
            b.column(0)
                .as_primitive::<arrow_array::types::Int64Type>()
                .value(0)
        })
        .sum()
}

struct Fixture {
    node: Arc<QueryNode>,
    recent_path: String,
    old_sql: String,
}

async fn fixture() -> Fixture {
    let store = Arc::new(InMemory::new());
    let metadata = Arc::new(LocalMetadataClient::new());
    let now = chrono::Utc::now().timestamp_nanos_opt().unwrap();

    // The chunk of the last hour (what the label/series query selects: it has no time
    // predicate, so QueryNode uses the default window "last hour") has label `pod_uid`.
    let recent_path = "default/data/recent.parquet".to_string();
    put_chunk(
        &store,
        &metadata,
        &recent_path,
        now - 60_000_000_000,
        "pod_uid",
    )
    .await;
    // A chunk from 2020 (what the other query selects) has label `datacenter`.
    put_chunk(
        &store,
        &metadata,
        "default/data/old.parquet",
        OLD_BASE,
        "datacenter",
    )
    .await;

    let node = Arc::new(
        QueryNode::new(
            QueryConfig::default(),
            store.clone(),
            metadata.clone(),
            StorageConfig::default(),
        )
        .await
        .unwrap(),
    );
    let old_sql = format!(
        "SELECT count(*) FROM metrics WHERE timestamp >= {} AND timestamp <= {}",
        OLD_BASE,
        OLD_BASE + 10
    );
    Fixture {
        node,
        recent_path,
        old_sql,
    }
}

/// Deterministic schedule. The closure passed to `with_metrics_table` is the one
/// `QueryNode::query_for_tenant` passes (`execute_planned`), preceded by a pause
/// that stands for the scheduler running another request's task first.
#[tokio::test(flavor = "multi_thread", worker_threads = 4)]
async fn information_schema_query_sees_the_chunk_set_of_a_concurrent_query() {
    let fx = fixture().await;
    let node = fx.node.clone();

    // The answer of the column-listing query when it runs alone (twice, to show it is stable).
    let alone = column_names(&node.query(COLUMNS_SQL).await.unwrap());
    let alone_again = column_names(&node.query(COLUMNS_SQL).await.unwrap());
    assert_eq!(alone, alone_again);
    assert!(
        alone.contains("pod_uid") && !alone.contains("datacenter"),
        "alone, the query lists the columns of the last hour's chunk: {:?}",
        alone
    );

    // Same statement, same chunk set; the other query runs between "statement planned,
    // registration lock released" and "statement executed".
    let other = node.clone();
    let old_sql = fx.old_sql.clone();
    let concurrent = node
        .engine
        .with_metrics_table(&[fx.recent_path.clone()], COLUMNS_SQL, |df| async {
            // <- here QueryNode::query_for_tenant calls execute_planned(df) directly
            let n = count_of(&other.query(&old_sql).await.unwrap());
            assert_eq!(n, 3, "the other query is answered correctly");
            node.engine.execute_planned(df).await
        })
        .await
        .unwrap();
    let concurrent = column_names(&concurrent);

    assert_eq!(
        concurrent, alone,
        "C10 violated: the column-listing statement was planned for chunk set {{recent.parquet}} \
         but was evaluated against the chunk set another query registered afterwards \
         (alone: {:?}, with a concurrent query: {:?})",
        alone, concurrent
    );
}

/// The same through `QueryNode::query` only, on the multi-threaded runtime.
#[tokio::test(flavor = "multi_thread", worker_threads = 8)]
async fn information_schema_query_under_concurrent_load() {
    let fx = fixture().await;
    let node = fx.node.clone();

    let alone = column_names(&node.query(COLUMNS_SQL).await.unwrap());
    assert!(alone.contains("pod_uid") && !alone.contains("datacenter"));

    let wrong = Arc::new(AtomicUsize::new(0));
    let total = Arc::new(AtomicUsize::new(0));
    let first_wrong = Arc::new(parking_lot::Mutex::new(None::<BTreeSet<String>>));
    let mut tasks = Vec::new();
    for _ in 0..4 {
        let node = node.clone();
        let alone = alone.clone();
        let wrong = wrong.clone();
        let total = total.clone();
        let first_wrong = first_wrong.clone();
        tasks.push(tokio::spawn(async move {
            for _ in 0..150 {
                let got = column_names(&node.query(COLUMNS_SQL).await.unwrap());
                total.fetch_add(1, Ordering::SeqCst);
                if got != alone {
                    wrong.fetch_add(1, Ordering::SeqCst);
                    first_wrong.lock().get_or_insert(got);
                }
            }
        }));
    }
    for _ in 0..4 {
        let node = node.clone();
        let old_sql = fx.old_sql.clone();
        tasks.push(tokio::spawn(async move {
            for _ in 0..150 {
                let n = count_of(&node.query(&old_sql).await.unwrap());
                assert_eq!(n, 3);
            }
        }));
    }
    for t in tasks {
        t.await.unwrap();
    }

    let wrong = wrong.load(Ordering::SeqCst);
    let total = total.load(Ordering::SeqCst);
    assert_eq!(
        wrong,
        0,
        "C10 violated: {} of {} column-listing queries issued through QueryNode::query returned \
         a different answer than the same query run alone, because other queries were running \
         (alone: {:?}, first differing answer: {:?})",
        wrong,
        total,
        alone,
        first_wrong.lock().clone()
    );
}
