//! C11 audit: the query interfaces cannot modify stored data or change what later
//! queries see.

use arrow_array::{Float64Array, Int64Array, RecordBatch, StringArray};
use arrow_schema::{DataType, Field, Schema};
use cardinalsin::ingester::{Ingester, IngesterConfig};
use cardinalsin::metadata::{LocalMetadataClient, MetadataClient};
use cardinalsin::query::{QueryConfig, QueryNode};
use cardinalsin::schema::MetricSchema;
use cardinalsin::StorageConfig;
use futures::TryStreamExt;
use object_store::memory::InMemory;
use object_store::ObjectStore;
use std::sync::Arc;

const HOUR: i64 = 3_600_000_000_000;

fn ts_field() -> Field {
    // Int64 nanoseconds: the ingester accepts it (extract_min_timestamp) and it is the
    // form the Prometheus API and extract_time_range compare against integer literals.
    Field::new("timestamp", DataType::Int64, false)
}

/// 20 rows starting at `start`, WITHOUT a `host` column.
fn batch_without_host(start: i64) -> RecordBatch {
    let schema = Arc::new(Schema::new(vec![
        ts_field(),
        Field::new("metric_name", DataType::Utf8, false),
        Field::new("value_f64", DataType::Float64, true),
    ]));
    let ts: Vec<i64> = (0..20).map(|i| start + i * 1_000_000).collect();
    RecordBatch::try_new(
        schema,
        vec![
            Arc::new(Int64Array::from(ts)),
            Arc::new(StringArray::from(vec!["mem"; 20])),
            Arc::new(Float64Array::from(vec![1.0; 20])),
        ],
    )
    .unwrap()
}

/// 20 rows starting at `start`, WITH a `host` label column.
fn batch_with_host(start: i64) -> RecordBatch {
    let schema = Arc::new(Schema::new(vec![
        ts_field(),
        Field::new("metric_name", DataType::Utf8, false),
        Field::new("value_f64", DataType::Float64, true),
        Field::new("host", DataType::Utf8, true),
    ]));
    let ts: Vec<i64> = (0..20).map(|i| start + i * 1_000_000).collect();
    RecordBatch::try_new(
        schema,
        vec![
            Arc::new(Int64Array::from(ts)),
            Arc::new(StringArray::from(vec!["cpu"; 20])),
            Arc::new(Float64Array::from(vec![2.0; 20])),
            Arc::new(StringArray::from(vec!["web-1"; 20])),
        ],
    )
    .unwrap()
}

async fn listing(store: &Arc<InMemory>) -> Vec<(String, usize, Option<String>)> {
    let mut v: Vec<_> = store
        .list(None)
        .try_collect::<Vec<_>>()
        .await
        .unwrap()
        .into_iter()
        .map(|m| (m.location.to_string(), m.size, m.e_tag))
        .collect();
    v.sort();
    v
}

fn rows(b: &[RecordBatch]) -> usize {
    b.iter().map(|x| x.num_rows()).sum()
}

struct Fixture {
    store: Arc<InMemory>,
    metadata: Arc<dyn MetadataClient>,
    node: QueryNode,
    /// start of the chunk that has NO host column (older)
    t_old: i64,
    /// start of the chunk that HAS the host column (recent)
    t_new: i64,
}

async fn fixture() -> Fixture {
    let store = Arc::new(InMemory::new());
    let metadata: Arc<dyn MetadataClient> = Arc::new(LocalMetadataClient::new());
    let storage = StorageConfig::default();
    let mut cfg = IngesterConfig {
        flush_row_count: 10,
        ..Default::default()
    };
    cfg.wal.enabled = false;
    let ingester = Ingester::new(
        cfg,
        store.clone(),
        metadata.clone(),
        storage.clone(),
        MetricSchema::default_metrics(),
    );
    let now = chrono::Utc::now().timestamp_nanos_opt().unwrap();
    let t_old = now - 10 * HOUR;
    let t_new = now - 2 * HOUR;
    ingester.write(batch_without_host(t_old)).await.unwrap();
    ingester.write(batch_with_host(t_new)).await.unwrap();
    let chunks = metadata.list_chunks().await.unwrap();
    assert_eq!(chunks.len(), 2, "fixture: two flushed chunks: {:?}", chunks);

    let node = QueryNode::new(QueryConfig::default(), store.clone(), metadata.clone(), storage)
        .await
        .unwrap();
    Fixture {
        store,
        metadata,
        node,
        t_old,
        t_new,
    }
}

/// Battery of writing / redefining statements: every one must be rejected and leave
/// storage, catalog and a probe query unchanged.
#[tokio::test(flavor = "multi_thread", worker_threads = 4)]
async fn c11_write_statements_battery() {
    let f = fixture().await;
    let chunk_path = f.metadata.list_chunks().await.unwrap()[0].chunk_path.clone();
    let probe = format!(
        "SELECT count(*) AS c FROM metrics WHERE timestamp >= {} AND timestamp <= {}",
        f.t_old - HOUR,
        f.t_new + HOUR
    );
    let before_list = listing(&f.store).await;
    let before_chunks = format!("{:?}", f.metadata.list_chunks().await.unwrap());
    let before_probe = format!("{:?}", f.node.query(&probe).await.unwrap());

    let bucket = "s3://cardinalsin-data";
    let stmts: Vec<String> = vec![
        format!("COPY (SELECT 1 AS x) TO '{bucket}/evil.parquet' STORED AS PARQUET"),
        format!("COPY (SELECT 1 AS x) TO '{bucket}/{chunk_path}' STORED AS PARQUET"),
        format!("COPY metrics TO '{bucket}/evil2.parquet'"),
        format!("EXPLAIN ANALYZE COPY (SELECT 1 AS x) TO '{bucket}/evil3.parquet' STORED AS PARQUET"),
        format!("EXPLAIN COPY (SELECT 1 AS x) TO '{bucket}/evil4.parquet' STORED AS PARQUET"),
        format!("EXPLAIN VERBOSE COPY (SELECT 1 AS x) TO '{bucket}/evil5.parquet' STORED AS PARQUET"),
        "CREATE TABLE t AS SELECT 1 AS x".into(),
        "CREATE VIEW v AS SELECT 1 AS x".into(),
        "CREATE OR REPLACE VIEW metrics AS SELECT 1 AS x".into(),
        "CREATE OR REPLACE TABLE metrics AS SELECT 1 AS x".into(),
        "DROP TABLE metrics".into(),
        "DROP TABLE IF EXISTS metrics".into(),
        "DROP VIEW IF EXISTS metrics".into(),
        "INSERT INTO metrics SELECT * FROM metrics".into(),
        "EXPLAIN ANALYZE INSERT INTO metrics SELECT * FROM metrics".into(),
        "DELETE FROM metrics".into(),
        "UPDATE metrics SET value_f64 = 0".into(),
        "TRUNCATE TABLE metrics".into(),
        "SET datafusion.execution.batch_size = 1".into(),
        "SET datafusion.catalog.information_schema = false".into(),
        "SET datafusion.sql_parser.enable_ident_normalization = false".into(),
        "SET TIME ZONE = '+08:00'".into(),
        "SELECT 1; DROP TABLE metrics".into(),
        "SELECT 1; SELECT 2".into(),
        format!("CREATE EXTERNAL TABLE ext STORED AS PARQUET LOCATION '{bucket}/{chunk_path}'"),
        format!("CREATE EXTERNAL TABLE metrics STORED AS PARQUET LOCATION '{bucket}/{chunk_path}'"),
        "PREPARE p AS SELECT 1".into(),
        "EXECUTE p".into(),
        "DEALLOCATE p".into(),
        "SELECT 1 AS x INTO newt".into(),
        "CREATE FUNCTION f(DOUBLE) RETURNS DOUBLE RETURN $1 + 1".into(),
        "DROP FUNCTION f".into(),
        "CREATE SCHEMA s".into(),
        "CREATE DATABASE d".into(),
        "DROP SCHEMA public".into(),
        "BEGIN".into(),
        "COMMIT".into(),
        "CREATE INDEX i ON metrics (metric_name)".into(),
        "WITH a AS (SELECT 1) INSERT INTO metrics SELECT * FROM metrics".into(),
        "CREATE UNBOUNDED EXTERNAL TABLE u STORED AS CSV LOCATION '/tmp/audit-out/C11/u.csv'".into(),
        "COPY (SELECT 1 AS x) TO '/tmp/audit-out/C11/evil_local.csv'".into(),
        "COPY (SELECT 1 AS x) TO 'file:///tmp/audit-out/C11/evil_local2.csv'".into(),
    ];

    let mut violations = Vec::new();
    for s in &stmts {
        let r1 = f.node.query(s).await;
        let r2 = f.node.engine.execute(s).await;
        let r3 = f.node.engine.analyze(s).await;
        let r4 = f.node.engine.prepare(s).await;
        let r5 = f.node.engine.execute_stream(s).await.map(|_| ());
        println!(
            "{s}\n    query={:?}\n    execute={:?} analyze_ok={} prepare_ok={} stream_ok={}",
            r1.as_ref().map(|b| rows(b)).map_err(|e| e.to_string()),
            r2.as_ref().map(|b| rows(b)).map_err(|e| e.to_string()),
            r3.is_ok(),
            r4.is_ok(),
            r5.is_ok()
        );
        if r1.is_ok() || r2.is_ok() || r3.is_ok() || r4.is_ok() || r5.is_ok() {
            violations.push(format!("ACCEPTED: {s}"));
        }
        let l = listing(&f.store).await;
        if l != before_list {
            violations.push(format!("STORE CHANGED by: {s}: {:?}", l));
        }
        let c = format!("{:?}", f.metadata.list_chunks().await.unwrap());
        if c != before_chunks {
            violations.push(format!("CATALOG CHANGED by: {s}"));
        }
        let p = f
            .node
            .query(&probe)
            .await
            .map(|b| format!("{:?}", b))
            .unwrap_or_else(|e| format!("ERR {e}"));
        if p != before_probe {
            violations.push(format!("PROBE CHANGED by: {s}: {p}"));
        }
        for local in ["evil_local.csv", "evil_local2.csv", "u.csv"] {
            let pth = format!("/tmp/audit-out/C11/{local}");
            if std::path::Path::new(&pth).exists() {
                violations.push(format!("LOCAL FILE {pth} created by: {s}"));
                let _ = std::fs::remove_file(&pth);
                let _ = std::fs::remove_dir_all(&pth);
            }
        }
    }
    assert!(
        violations.is_empty(),
        "C11 violated: writing statements were not rejected / had effects:\n{}",
        violations.join("\n")
    );
}

/// A plain SELECT submitted through the SQL interface must not change what a later
/// (fixed) probe query sees.
#[tokio::test(flavor = "multi_thread", worker_threads = 4)]
async fn c11_select_changes_what_later_queries_see() {
    let f = fixture().await;

    // Fixed probe: rows of the recent chunk, which has a `host` label.
    let probe = format!(
        "SELECT host, count(*) AS c FROM metrics WHERE timestamp >= {} AND timestamp <= {} GROUP BY host",
        f.t_new - HOUR,
        f.t_new + HOUR
    );
    // The statement under test: an ordinary read of the older data (which was ingested
    // without a `host` label).
    let stmt = format!(
        "SELECT count(*) FROM metrics WHERE timestamp >= {} AND timestamp <= {}",
        f.t_old - HOUR,
        f.t_old + HOUR
    );

    let before_list = listing(&f.store).await;
    let before = f
        .node
        .query(&probe)
        .await
        .map(|b| arrow::util::pretty::pretty_format_batches(&b).unwrap().to_string())
        .unwrap_or_else(|e| format!("ERROR: {e}"));
    println!("probe before:\n{before}");
    assert!(before.contains("web-1"), "fixture: probe sees host web-1: {before}");

    let r = f.node.query(&stmt).await.unwrap();
    println!("statement under test returned {} rows", rows(&r));

    assert_eq!(before_list, listing(&f.store).await, "store unchanged");

    let after = f
        .node
        .query(&probe)
        .await
        .map(|b| arrow::util::pretty::pretty_format_batches(&b).unwrap().to_string())
        .unwrap_or_else(|e| format!("ERROR: {e}"));
    println!("probe after:\n{after}");

    assert_eq!(
        before, after,
        "C11 violated: a read-only SELECT submitted through the SQL interface changed what a \
         later fixed probe query sees (stored objects and catalog are unchanged).\n\
         statement: {stmt}\nprobe: {probe}"
    );
}

/// Silent variant: the catalog probe the Prometheus `/api/v1/labels` and `/api/v1/series`
/// handlers send (verbatim) answers successfully both times, but with different rows,
/// after an unrelated read-only SELECT.
#[tokio::test(flavor = "multi_thread", worker_threads = 4)]
async fn c11_select_changes_label_catalog_probe() {
    let f = fixture().await;
    // verbatim from src/api/query/prometheus_api.rs (labels / series handlers)
    let probe =
        "SELECT DISTINCT column_name FROM information_schema.columns WHERE table_name = 'metrics' ORDER BY column_name";
    let stmt = format!(
        "SELECT count(*) FROM metrics WHERE timestamp >= {} AND timestamp <= {}",
        f.t_old - HOUR,
        f.t_old + HOUR
    );
    let fmt = |b: Vec<RecordBatch>| {
        arrow::util::pretty::pretty_format_batches(&b)
            .unwrap()
            .to_string()
    };
    let before_list = listing(&f.store).await;
    let before_chunks = format!("{:?}", f.metadata.list_chunks().await.unwrap());
    let before = fmt(f.node.query(probe).await.unwrap());
    println!("label catalog before:\n{before}");

    f.node.query(&stmt).await.unwrap();

    assert_eq!(before_list, listing(&f.store).await, "store unchanged");
    assert_eq!(
        before_chunks,
        format!("{:?}", f.metadata.list_chunks().await.unwrap()),
        "catalog unchanged"
    );
    let after = fmt(f.node.query(probe).await.unwrap());
    println!("label catalog after:\n{after}");
    assert_eq!(
        before, after,
        "C11 violated: a read-only SELECT changed the rows a later fixed probe query returns \
         (the label catalog served to Prometheus clients), with storage and catalog unchanged.\n\
         statement: {stmt}"
    );
}
