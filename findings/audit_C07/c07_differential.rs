//! C07 supporting evidence (PASSES): sequential random histories, both backends against a reference map;
//! plus the min > max chunk observation (fails, see notes: input outside the property's domain).
#![allow(dead_code, unused_imports)]

use cardinalsin::ingester::ChunkMetadata;
use cardinalsin::metadata::{
    LocalMetadataClient, MetadataClient, ObjectStoreMetadataClient, ObjectStoreMetadataConfig,
    TimeRange,
};
use object_store::memory::InMemory;
use std::collections::{BTreeMap, BTreeSet};
use std::sync::Arc;

const H: i64 = 3_600_000_000_000;

fn s3_client(store: Arc<InMemory>) -> ObjectStoreMetadataClient {
    ObjectStoreMetadataClient::new(
        store,
        ObjectStoreMetadataConfig {
            bucket: "b".into(),
            metadata_prefix: "meta/".into(),
            enable_cache: false,
            allow_unsafe_overwrite: false,
        },
    )
}

fn meta(path: &str, min: i64, max: i64, tag: u64) -> ChunkMetadata {
    ChunkMetadata {
        path: path.to_string(),
        min_timestamp: min,
        max_timestamp: max,
        row_count: tag,
        size_bytes: tag * 10,
    }
}

type Row = (String, i64, i64, u64, u64);

async fn ranged(c: &dyn MetadataClient, r: TimeRange) -> Vec<Row> {
    let mut v: Vec<Row> = c
        .get_chunks(r)
        .await
        .unwrap()
        .into_iter()
        .map(|e| {
            (
                e.chunk_path,
                e.min_timestamp,
                e.max_timestamp,
                e.row_count,
                e.size_bytes,
            )
        })
        .collect();
    v.sort();
    v
}

async fn listed(c: &dyn MetadataClient) -> Vec<Row> {
    let mut v: Vec<Row> = c
        .list_chunks()
        .await
        .unwrap()
        .into_iter()
        .map(|e| {
            (
                e.chunk_path,
                e.min_timestamp,
                e.max_timestamp,
                e.row_count,
                e.size_bytes,
            )
        })
        .collect();
    v.sort();
    v
}

struct Rng(u64);
impl Rng {
    fn next(&mut self) -> u64 {
        let mut x = self.0;
        x ^= x << 13;
        x ^= x >> 7;
        x ^= x << 17;
        self.0 = x;
        x
    }
    fn below(&mut self, n: u64) -> u64 {
        self.next() % n
    }
    fn pick<T: Copy>(&mut self, xs: &[T]) -> T {
        xs[self.below(xs.len() as u64) as usize]
    }
}

fn points() -> Vec<i64> {
    let mut p = Vec::new();
    for k in [-50i64, -25, -3, -2, -1, 0, 1, 2, 3, 24, 49, 120] {
        for d in [-1i64, 0, 1] {
            p.push(k * H + d);
        }
        p.push(k * H + H / 2);
    }
    p
}

/// Reference model: path -> metadata of the live chunks.
fn model_query(model: &BTreeMap<String, ChunkMetadata>, r: TimeRange) -> Vec<Row> {
    let mut v: Vec<Row> = model
        .values()
        .filter(|m| r.start <= r.end && m.min_timestamp <= r.end && m.max_timestamp >= r.start)
        .map(|m| {
            (
                m.path.clone(),
                m.min_timestamp,
                m.max_timestamp,
                m.row_count,
                m.size_bytes,
            )
        })
        .collect();
    v.sort();
    v
}

/// Sequential differential test: random histories on both backends against a reference map.
#[tokio::test]
async fn differential_random_histories() {
    let pts = points();
    let mut extremes = pts.clone();
    extremes.extend([i64::MIN, i64::MIN + 1, i64::MAX - 1, i64::MAX]);
    let paths: Vec<String> = (0..6).map(|i| format!("t/data/chunk_{i}.parquet")).collect();

    for seed in 1..=12u64 {
        let mut rng = Rng(0x9E3779B97F4A7C15 ^ (seed * 0x1234567));
        let store = Arc::new(InMemory::new());
        let mut s3 = s3_client(store.clone());
        let local = LocalMetadataClient::new();
        let mut model: BTreeMap<String, ChunkMetadata> = BTreeMap::new();

        for step in 0..60u64 {
            let op = rng.below(10);
            let what;
            match op {
                0..=4 => {
                    let p = paths[rng.below(paths.len() as u64) as usize].clone();
                    let (a, b) = match rng.below(12) {
                        0 => (i64::MIN, i64::MIN + rng.below(3) as i64),
                        1 => (i64::MAX - rng.below(3) as i64, i64::MAX),
                        _ => {
                            let a = rng.pick(&pts);
                            let b = rng.pick(&pts);
                            (a.min(b), a.max(b))
                        }
                    };
                    let m = meta(&p, a, b, seed * 1000 + step);
                    what = format!("register {p} [{a},{b}]");
                    let r1 = s3.register_chunk(&p, &m).await;
                    let r2 = local.register_chunk(&p, &m).await;
                    assert!(r1.is_ok() && r2.is_ok(), "{what}: {r1:?} {r2:?}");
                    model.insert(p, m);
                }
                5 | 6 => {
                    let p = paths[rng.below(paths.len() as u64) as usize].clone();
                    what = format!("delete {p}");
                    s3.delete_chunk(&p).await.unwrap();
                    local.delete_chunk(&p).await.unwrap();
                    model.remove(&p);
                }
                7 | 8 => {
                    // compaction swap: target is never one of the sources here
                    let t = rng.below(paths.len() as u64) as usize;
                    let mut srcs = Vec::new();
                    for (i, p) in paths.iter().enumerate() {
                        if i != t && rng.below(3) == 0 {
                            srcs.push(p.clone());
                        }
                    }
                    let target = paths[t].clone();
                    what = format!("complete_compaction {srcs:?} -> {target}");
                    let r1 = s3.complete_compaction(&srcs, &target).await;
                    let r2 = local.complete_compaction(&srcs, &target).await;
                    let expect_ok = model.contains_key(&target);
                    assert_eq!(r1.is_ok(), expect_ok, "s3 {what}: {r1:?}");
                    assert_eq!(r2.is_ok(), expect_ok, "local {what}: {r2:?}");
                    if expect_ok {
                        for s in &srcs {
                            model.remove(s);
                        }
                    }
                }
                _ => {
                    // restart of the object-store backend: a new client over the same store
                    what = "restart s3 client".to_string();
                    s3 = s3_client(store.clone());
                }
            }

            // observe
            let want_all = model_query(&model, TimeRange::new(i64::MIN, i64::MAX));
            assert_eq!(listed(&s3).await, want_all, "seed {seed} step {step} ({what}): s3 list_chunks");
            assert_eq!(listed(&local).await, want_all, "seed {seed} step {step} ({what}): local list_chunks");
            for p in &paths {
                let g1 = s3.get_chunk(p).await.unwrap().map(|m| (m.min_timestamp, m.max_timestamp, m.row_count));
                let g2 = local.get_chunk(p).await.unwrap().map(|m| (m.min_timestamp, m.max_timestamp, m.row_count));
                let w = model.get(p).map(|m| (m.min_timestamp, m.max_timestamp, m.row_count));
                assert_eq!(g1, w, "seed {seed} step {step} ({what}): s3 get_chunk {p}");
                assert_eq!(g2, w, "seed {seed} step {step} ({what}): local get_chunk {p}");
            }
            for _ in 0..40 {
                let a = rng.pick(&extremes);
                let b = rng.pick(&extremes);
                let r = if rng.below(8) == 0 {
                    TimeRange::new(a, b) // possibly inverted
                } else {
                    TimeRange::new(a.min(b), a.max(b))
                };
                let want = model_query(&model, r);
                let got_s3 = ranged(&s3, r).await;
                let got_local = ranged(&local, r).await;
                assert_eq!(
                    got_s3, want,
                    "seed {seed} step {step} ({what}): object-store get_chunks({r:?}) is not exact"
                );
                assert_eq!(
                    got_local, want,
                    "seed {seed} step {step} ({what}): in-memory get_chunks({r:?}) is not exact"
                );
            }
        }
    }
}

/// Candidate E: a chunk whose interval is empty (min > max) intersects nothing.
#[tokio::test]
async fn inverted_chunk_interval() {
    let s3 = s3_client(Arc::new(InMemory::new()));
    let local = LocalMetadataClient::new();
    for c in [&s3 as &dyn MetadataClient, &local as &dyn MetadataClient] {
        c.register_chunk("same-bucket", &meta("same-bucket", 20, 10, 1)).await.unwrap();
        c.register_chunk("cross-bucket", &meta("cross-bucket", 2 * H + 5, H + 5, 2)).await.unwrap();
    }
    let r = TimeRange::new(0, 10 * H);
    let a: Vec<String> = ranged(&s3, r).await.into_iter().map(|x| x.0).collect();
    let b: Vec<String> = ranged(&local, r).await.into_iter().map(|x| x.0).collect();
    println!("inverted chunks: s3 {a:?} local {b:?}");
    assert!(
        a == b && (a.is_empty() || a.len() == 2),
        "chunks with min > max are treated inconsistently: of two such chunks, both covered by the query range, get_chunks returns {a:?} (object store) / {b:?} (in memory)"
    );
}

