//! C07 defect 3: a chunk registered under a key that differs from metadata.path is named differently by
//! get_chunks and list_chunks of the object-store backend, and differently by the two backends.
#![allow(dead_code, unused_imports)]

use cardinalsin::ingester::ChunkMetadata;
use cardinalsin::metadata::{
    LocalMetadataClient, MetadataClient, ObjectStoreMetadataClient, ObjectStoreMetadataConfig,
    TimeRange,
};
use object_store::memory::InMemory;
use std::collections::{BTreeMap, BTreeSet};
use std::sync::Arc;

const H: i64 = 3_600_000_000_000;

fn s3_client(store: Arc<InMemory>) -> ObjectStoreMetadataClient {
    ObjectStoreMetadataClient::new(
        store,
        ObjectStoreMetadataConfig {
            bucket: "b".into(),
            metadata_prefix: "meta/".into(),
            enable_cache: false,
            allow_unsafe_overwrite: false,
        },
    )
}

fn meta(path: &str, min: i64, max: i64, tag: u64) -> ChunkMetadata {
    ChunkMetadata {
        path: path.to_string(),
        min_timestamp: min,
        max_timestamp: max,
        row_count: tag,
        size_bytes: tag * 10,
    }
}

type Row = (String, i64, i64, u64, u64);

async fn ranged(c: &dyn MetadataClient, r: TimeRange) -> Vec<Row> {
    let mut v: Vec<Row> = c
        .get_chunks(r)
        .await
        .unwrap()
        .into_iter()
        .map(|e| {
            (
                e.chunk_path,
                e.min_timestamp,
                e.max_timestamp,
                e.row_count,
                e.size_bytes,
            )
        })
        .collect();
    v.sort();
    v
}

async fn listed(c: &dyn MetadataClient) -> Vec<Row> {
    let mut v: Vec<Row> = c
        .list_chunks()
        .await
        .unwrap()
        .into_iter()
        .map(|e| {
            (
                e.chunk_path,
                e.min_timestamp,
                e.max_timestamp,
                e.row_count,
                e.size_bytes,
            )
        })
        .collect();
    v.sort();
    v
}

struct Rng(u64);
impl Rng {
    fn next(&mut self) -> u64 {
        let mut x = self.0;
        x ^= x << 13;
        x ^= x >> 7;
        x ^= x << 17;
        self.0 = x;
        x
    }
    fn below(&mut self, n: u64) -> u64 {
        self.next() % n
    }
    fn pick<T: Copy>(&mut self, xs: &[T]) -> T {
        xs[self.below(xs.len() as u64) as usize]
    }
}

fn points() -> Vec<i64> {
    let mut p = Vec::new();
    for k in [-50i64, -25, -3, -2, -1, 0, 1, 2, 3, 24, 49, 120] {
        for d in [-1i64, 0, 1] {
            p.push(k * H + d);
        }
        p.push(k * H + H / 2);
    }
    p
}

/// Reference model: path -> metadata of the live chunks.
fn model_query(model: &BTreeMap<String, ChunkMetadata>, r: TimeRange) -> Vec<Row> {
    let mut v: Vec<Row> = model
        .values()
        .filter(|m| r.start <= r.end && m.min_timestamp <= r.end && m.max_timestamp >= r.start)
        .map(|m| {
            (
                m.path.clone(),
                m.min_timestamp,
                m.max_timestamp,
                m.row_count,
                m.size_bytes,
            )
        })
        .collect();
    v.sort();
    v
}

/// Candidate C: registration key differs from metadata.path.
#[tokio::test]
async fn registration_key_vs_metadata_path() {
    let s3 = s3_client(Arc::new(InMemory::new()));
    let local = LocalMetadataClient::new();
    let m = meta("inner-name.parquet", 0, 10, 1);
    s3.register_chunk("key.parquet", &m).await.unwrap();
    local.register_chunk("key.parquet", &m).await.unwrap();
    let r = TimeRange::new(0, 10);
    let a: Vec<String> = ranged(&s3, r).await.into_iter().map(|x| x.0).collect();
    let b: Vec<String> = ranged(&local, r).await.into_iter().map(|x| x.0).collect();
    let la: Vec<String> = listed(&s3).await.into_iter().map(|x| x.0).collect();
    assert!(
        a == b && a == la,
        "chunk registered under key.parquet: object-store get_chunks names it {a:?}, object-store list_chunks {la:?}, in-memory get_chunks {b:?}"
    );
}

