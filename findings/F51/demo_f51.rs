//! C15 audit, defect 4: the dual write is not atomic and leaves its effects behind
//! when it fails. `write_with_split_awareness` first appends the batch to the WAL and
//! the (old-shard) write buffer, then uploads+registers the lower half, then the upper
//! half. A failure in any later step makes `write` return `Err` although the rows are
//! already buffered for the old shard and possibly registered - and query-visible -
//! under one new shard. The client (Prometheus remote-write, OTLP exporters: retry on
//! 5xx) re-sends the request; the retry is accepted and repeats every step. The
//! accepted row therefore ends up TWICE in its new shard (and twice in the old shard),
//! which the split-time suppression hides only until the split completes.
//!
//! Public APIs only; unchanged code under src/; one injected transient metadata error;
//! deterministic.

use bytes::Bytes;
use object_store::ObjectStore;
use parquet::arrow::arrow_reader::ParquetRecordBatchReaderBuilder;
use arrow_array::{Float64Array, Int64Array, RecordBatch, StringArray};
use arrow_schema::{DataType, Field, Schema};
use async_trait::async_trait;
use cardinalsin::ingester::{ChunkMetadata, Ingester, IngesterConfig};
use cardinalsin::metadata::{
    ColumnPredicate, CompactionJob, CompactionStatus, LocalMetadataClient, MetadataClient,
    SplitState, TimeIndexEntry, TimeRange,
};
use cardinalsin::query::{QueryConfig, QueryNode};
use cardinalsin::schema::MetricSchema;
use cardinalsin::sharding::{ShardKey, ShardMetadata, SplitPhase};
use cardinalsin::{Error, Result, StorageConfig};
use object_store::memory::InMemory;
use std::sync::{Arc, Mutex};

const BASE: i64 = 1_700_000_000_000_000_000;
const SEC: i64 = 1_000_000_000;

/// Same formula as the (private) `Ingester::compute_shard_id`.
fn shard_id_for(metric: &str, ts: i64) -> String {
    let key = ShardKey::new(0, metric, ts);
    format!(
        "shard-{:x}",
        u64::from_be_bytes(key.to_bytes()[0..8].try_into().unwrap())
    )
}

fn batch(rows: &[(i64, &str, f64, &str)]) -> RecordBatch {
    let schema = Arc::new(Schema::new(vec![
        Field::new("timestamp", DataType::Int64, false),
        Field::new("metric_name", DataType::Utf8, false),
        Field::new("value_f64", DataType::Float64, false),
        Field::new("host", DataType::Utf8, false),
    ]));
    RecordBatch::try_new(
        schema,
        vec![
            Arc::new(Int64Array::from(
                rows.iter().map(|r| r.0).collect::<Vec<_>>(),
            )),
            Arc::new(StringArray::from(
                rows.iter().map(|r| r.1.to_string()).collect::<Vec<_>>(),
            )),
            Arc::new(Float64Array::from(
                rows.iter().map(|r| r.2).collect::<Vec<_>>(),
            )),
            Arc::new(StringArray::from(
                rows.iter().map(|r| r.3.to_string()).collect::<Vec<_>>(),
            )),
        ],
    )
    .unwrap()
}

/// A metadata client that forwards everything to the in-memory backend and can
///  * fail ONE `register_chunk` whose path contains a given substring (a transient
///    catalog error: CAS retries exhausted, 503, timeout ...), and
///  * let a concurrent actor's `complete_split` land right after the chunk listing
///    of a query (forces one particular, legal interleaving).
struct Hooked {
    inner: Arc<LocalMetadataClient>,
    fail_register_once_containing: Mutex<Option<String>>,
    complete_split_after_listing: Mutex<Option<String>>,
}

impl Hooked {
    fn new() -> Arc<Self> {
        Arc::new(Self {
            inner: Arc::new(LocalMetadataClient::new()),
            fail_register_once_containing: Mutex::new(None),
            complete_split_after_listing: Mutex::new(None),
        })
    }
}

#[async_trait]
impl MetadataClient for Hooked {
    async fn register_chunk(&self, path: &str, metadata: &ChunkMetadata) -> Result<()> {
        let hit = {
            let mut g = self.fail_register_once_containing.lock().unwrap();
            match g.as_deref() {
                Some(s) if path.contains(s) => {
                    *g = None;
                    true
                }
                _ => false,
            }
        };
        if hit {
            return Err(Error::Metadata(format!(
                "injected transient failure registering {path}"
            )));
        }
        self.inner.register_chunk(path, metadata).await
    }
    async fn get_chunks(&self, range: TimeRange) -> Result<Vec<TimeIndexEntry>> {
        self.inner.get_chunks(range).await
    }
    async fn get_chunks_with_predicates(
        &self,
        range: TimeRange,
        predicates: &[ColumnPredicate],
    ) -> Result<Vec<TimeIndexEntry>> {
        let listed = self
            .inner
            .get_chunks_with_predicates(range, predicates)
            .await?;
        let shard = self.complete_split_after_listing.lock().unwrap().take();
        if let Some(shard) = shard {
            // the splitter, in another process, reaches the end of its cutover now
            self.inner.complete_split(&shard).await?;
        }
        Ok(listed)
    }
    async fn get_chunk(&self, path: &str) -> Result<Option<ChunkMetadata>> {
        self.inner.get_chunk(path).await
    }
    async fn delete_chunk(&self, path: &str) -> Result<()> {
        self.inner.delete_chunk(path).await
    }
    async fn list_chunks(&self) -> Result<Vec<TimeIndexEntry>> {
        self.inner.list_chunks().await
    }
    async fn get_l0_candidates(&self, min_count: usize) -> Result<Vec<Vec<String>>> {
        self.inner.get_l0_candidates(min_count).await
    }
    async fn get_level_candidates(
        &self,
        level: usize,
        target_size: usize,
    ) -> Result<Vec<Vec<String>>> {
        self.inner.get_level_candidates(level, target_size).await
    }
    async fn create_compaction_job(&self, job: CompactionJob) -> Result<()> {
        self.inner.create_compaction_job(job).await
    }
    async fn complete_compaction(&self, source_chunks: &[String], target: &str) -> Result<()> {
        self.inner.complete_compaction(source_chunks, target).await
    }
    async fn update_compaction_status(&self, id: &str, status: CompactionStatus) -> Result<()> {
        self.inner.update_compaction_status(id, status).await
    }
    async fn get_pending_compaction_jobs(&self) -> Result<Vec<CompactionJob>> {
        self.inner.get_pending_compaction_jobs().await
    }
    async fn start_split(
        &self,
        old_shard: &str,
        new_shards: Vec<String>,
        split_point: Vec<u8>,
    ) -> Result<()> {
        self.inner.start_split(old_shard, new_shards, split_point).await
    }
    async fn get_split_state(&self, shard_id: &str) -> Result<Option<SplitState>> {
        self.inner.get_split_state(shard_id).await
    }
    async fn update_split_progress(
        &self,
        shard_id: &str,
        progress: f64,
        phase: SplitPhase,
    ) -> Result<()> {
        self.inner
            .update_split_progress(shard_id, progress, phase)
            .await
    }
    async fn complete_split(&self, old_shard: &str) -> Result<()> {
        self.inner.complete_split(old_shard).await
    }
    async fn get_chunks_for_shard(&self, shard_id: &str) -> Result<Vec<TimeIndexEntry>> {
        self.inner.get_chunks_for_shard(shard_id).await
    }
    async fn get_shard_metadata(&self, shard_id: &str) -> Result<Option<ShardMetadata>> {
        self.inner.get_shard_metadata(shard_id).await
    }
    async fn update_shard_metadata(
        &self,
        shard_id: &str,
        metadata: &ShardMetadata,
        expected_generation: u64,
    ) -> Result<()> {
        self.inner
            .update_shard_metadata(shard_id, metadata, expected_generation)
            .await
    }
    async fn has_active_split(&self) -> Result<bool> {
        self.inner.has_active_split().await
    }
}

struct Env {
    store: Arc<InMemory>,
    metadata: Arc<Hooked>,
    ingester: Ingester,
}

/// `flush_rows` = 1 flushes every write inline (old-shard copy immediately
/// query-visible); a large value keeps the rows in the write buffer.
fn env(flush_rows: usize) -> Env {
    let store = Arc::new(InMemory::new());
    let metadata = Hooked::new();
    let mut cfg = IngesterConfig::default();
    cfg.wal.enabled = false;
    cfg.flush_row_count = flush_rows;
    let ingester = Ingester::new(
        cfg,
        store.clone(),
        metadata.clone(),
        StorageConfig::default(),
        MetricSchema::default_metrics(),
    );
    Env {
        store,
        metadata,
        ingester,
    }
}

async fn start_dual_write(e: &Env, shard: &str, split_ts: i64) {
    e.metadata
        .start_split(
            shard,
            vec!["new-a".into(), "new-b".into()],
            split_ts.to_be_bytes().to_vec(),
        )
        .await
        .unwrap();
    e.metadata
        .update_split_progress(shard, 0.0, SplitPhase::DualWrite)
        .await
        .unwrap();
}

async fn query_node(e: &Env) -> QueryNode {
    QueryNode::new(
        QueryConfig::default(),
        e.store.clone(),
        e.metadata.clone(),
        StorageConfig::default(),
    )
    .await
    .unwrap()
}

async fn run(q: &QueryNode, sql: &str) -> usize {
    let res = q.query(sql).await.unwrap();
    println!(
        "{sql}\n{}",
        arrow::util::pretty::pretty_format_batches(&res).unwrap()
    );
    res.iter().map(|b| b.num_rows()).sum()
}

/// timestamps of every row in the chunks registered under `shard`.
async fn rows_under(e: &Env, shard: &str) -> Vec<i64> {
    use arrow_array::cast::AsArray;
    use arrow_array::types::Int64Type;
    let mut out = Vec::new();
    for c in e.metadata.get_chunks_for_shard(shard).await.unwrap() {
        let bytes: Bytes = e
            .store
            .get(&c.chunk_path.as_str().into())
            .await
            .unwrap()
            .bytes()
            .await
            .unwrap();
        for b in ParquetRecordBatchReaderBuilder::try_new(bytes)
            .unwrap()
            .build()
            .unwrap()
        {
            let b = b.unwrap();
            let ts = b
                .column_by_name("timestamp")
                .unwrap()
                .as_primitive::<Int64Type>()
                .clone();
            out.extend(ts.values().iter().copied());
        }
    }
    out.sort();
    out
}

#[tokio::test]
async fn failed_then_retried_write_lands_twice_in_a_new_shard() {
    let e = env(1_000_000); // keep the old-shard copy in the buffer
    let split_ts = BASE + 100 * SEC;
    start_dual_write(&e, &shard_id_for("cpu", BASE), split_ts).await;

    let request = batch(&[
        (split_ts - SEC, "cpu", 1.0, "h1"), // -> new-a
        (split_ts, "cpu", 2.0, "h1"),       // -> new-b
    ]);

    // The catalog update for the upper half fails once.
    *e.metadata.fail_register_once_containing.lock().unwrap() = Some("shard=new-b".into());
    let first = e.ingester.write(request.clone()).await;
    println!("first attempt: {first:?}");
    assert!(first.is_err(), "the injected failure must surface");

    // What the rejected request left behind:
    let buffered = e.ingester.buffer_stats().await.row_count;
    let a_after_failure = rows_under(&e, "new-a").await;
    println!("after the REJECTED write: buffer rows = {buffered}, new-a = {a_after_failure:?}");

    // The client retries; this time the request is accepted.
    e.ingester.write(request).await.expect("retry accepted");

    let a = rows_under(&e, "new-a").await;
    let b = rows_under(&e, "new-b").await;
    let buffered = e.ingester.buffer_stats().await.row_count;
    println!("after the accepted retry: buffer rows = {buffered}, new-a = {a:?}, new-b = {b:?}");

    assert_eq!(
        (a.clone(), b.clone()),
        (vec![split_ts - SEC], vec![split_ts]),
        "C15 violated: one request with one row per side was accepted exactly once (its \
         first attempt was rejected with an error), but new-a holds {a:?} and new-b holds \
         {b:?}; the old-shard buffer holds {buffered} rows for 2 accepted rows"
    );
}

/// Without a retry the rejected request is still partly applied: its rows are served.
#[tokio::test]
async fn rejected_write_is_served_by_queries() {
    let e = env(1); // flush inline
    let split_ts = BASE + 100 * SEC;
    start_dual_write(&e, &shard_id_for("cpu", BASE), split_ts).await;

    *e.metadata.fail_register_once_containing.lock().unwrap() = Some("shard=new-b".into());
    let res = e
        .ingester
        .write(batch(&[
            (split_ts - SEC, "cpu", 1.0, "h1"),
            (split_ts, "cpu", 2.0, "h1"),
        ]))
        .await;
    assert!(res.is_err());

    let q = query_node(&e).await;
    let n = run(&q, "SELECT * FROM metrics WHERE timestamp >= 0").await;
    let b = rows_under(&e, "new-b").await;
    assert_eq!(
        n, 0,
        "C15 violated: the only write was rejected ({res:?}), yet a query during DualWrite \
         returns {n} rows; the rows sit in the old shard and in new-a while new-b has {b:?} - \
         if the client does not retry, the upper row never reaches its new shard"
    );
}

/// A trigger that needs no injected fault: the row-splitting step itself fails for a
/// `Timestamp(Nanosecond)` batch (what the OTLP path builds) - AFTER the batch was
/// appended to the buffer. (That the split handles only Int64 timestamps is a known
/// limitation; the point here is what the failure leaves behind.) Every retry of the
/// rejected request adds one more copy to the old shard.
#[tokio::test]
async fn every_retry_of_a_rejected_timestamp_typed_write_adds_a_copy() {
    use arrow_array::TimestampNanosecondArray;
    use arrow_schema::TimeUnit;

    let e = env(1_000_000);
    let split_ts = BASE + 100 * SEC;
    start_dual_write(&e, &shard_id_for("cpu", BASE), split_ts).await;

    let schema = Arc::new(Schema::new(vec![
        Field::new(
            "timestamp",
            DataType::Timestamp(TimeUnit::Nanosecond, Some("UTC".into())),
            false,
        ),
        Field::new("metric_name", DataType::Utf8, false),
        Field::new("value_f64", DataType::Float64, true),
    ]));
    let request = RecordBatch::try_new(
        schema,
        vec![
            Arc::new(TimestampNanosecondArray::from(vec![BASE]).with_timezone("UTC")),
            Arc::new(StringArray::from(vec!["cpu"])),
            Arc::new(Float64Array::from(vec![1.0])),
        ],
    )
    .unwrap();

    let mut accepted = 0;
    for attempt in 1..=3 {
        let r = e.ingester.write(request.clone()).await;
        if r.is_ok() {
            accepted += 1;
        }
        println!(
            "attempt {attempt}: {r:?}; buffered rows = {}",
            e.ingester.buffer_stats().await.row_count
        );
    }
    let buffered = e.ingester.buffer_stats().await.row_count;
    assert_eq!(
        buffered, accepted,
        "C15 violated: {accepted} writes were accepted but {buffered} rows are buffered for \
         the old shard (and will be flushed and served): every rejected attempt left its \
         row behind"
    );
}
