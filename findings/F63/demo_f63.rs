//! C06 audit, defect 4: with the object-store catalog backend, nothing but CONCURRENCY makes
//! flushes fail, and rows of accepted writes disappear - no storage call ever returns an error.
//!
//! `ObjectStoreMetadataClient::register_chunk` is a load / modify / conditional-put loop on
//! the single object `metadata/catalog.json` (`cas_retry!`, `MAX_CAS_RETRIES = 5`, back-off
//! 100/200/400/800/1600 ms WITHOUT jitter).  Of k registrations that overlap, one wins per
//! round and the others back off by the same amount and collide again; when more than five
//! overlap, the sixth and later ones end in `Error::TooManyRetries`.
//!
//! In the ingester every schema change flushes inline (`append_to_buffer_and_maybe_flush`),
//! and the buffer lock is released during the flush, so alternating schemas from concurrent
//! writers produce many flushes in flight at once.  A writer whose flush ends in
//! `TooManyRetries` is itself answered Err (its own batch was not yet buffered - it may
//! retry), but the batches it had taken out of the buffer belong to OTHER writers that were
//! answered Ok long ago; they are dropped, and the Parquet object it uploaded stays behind
//! unregistered.
//!
//! The store wrapper below only adds latency (reads of catalog.json take a 40 ms round trip,
//! as an ordinary object-store GET does); it never fails a call.

use arrow_array::cast::AsArray;
use arrow_array::types::{Int64Type, TimestampNanosecondType};
use arrow_array::{Int64Array, RecordBatch};
use arrow_schema::{DataType, Field, Schema, TimeUnit};
use async_trait::async_trait;
use bytes::Bytes;
use cardinalsin::ingester::{Ingester, IngesterConfig, WalConfig};
use cardinalsin::metadata::{MetadataClient, ObjectStoreMetadataClient, ObjectStoreMetadataConfig};
use cardinalsin::schema::MetricSchema;
use cardinalsin::{CloudProvider, StorageConfig};
use futures::stream::BoxStream;
use object_store::memory::InMemory;
use object_store::path::Path;
use object_store::{
    GetOptions, GetResult, ListResult, MultipartUpload, ObjectMeta, ObjectStore, PutMultipartOpts,
    PutOptions, PutPayload, PutResult,
};
use parquet::arrow::arrow_reader::ParquetRecordBatchReaderBuilder;
use std::collections::BTreeMap;
use std::fmt;
use std::sync::atomic::{AtomicUsize, Ordering};
use std::sync::Arc;
use std::time::Duration;

/// InMemory store with read latency on the catalog object; counts calls, never fails.
struct SlowCatalogStore {
    inner: InMemory,
    parquet_puts: AtomicUsize,
    errors_returned_by_inner: AtomicUsize,
}

impl fmt::Display for SlowCatalogStore {
    fn fmt(&self, f: &mut fmt::Formatter<'_>) -> fmt::Result {
        write!(f, "SlowCatalogStore")
    }
}
impl fmt::Debug for SlowCatalogStore {
    fn fmt(&self, f: &mut fmt::Formatter<'_>) -> fmt::Result {
        write!(f, "SlowCatalogStore")
    }
}

#[async_trait]
impl ObjectStore for SlowCatalogStore {
    async fn put_opts(
        &self,
        location: &Path,
        payload: PutPayload,
        opts: PutOptions,
    ) -> object_store::Result<PutResult> {
        let r = self.inner.put_opts(location, payload, opts).await;
        if location.as_ref().ends_with(".parquet") {
            self.parquet_puts.fetch_add(1, Ordering::SeqCst);
        }
        match &r {
            // lost CAS races are the protocol working, not storage errors
            Err(object_store::Error::Precondition { .. })
            | Err(object_store::Error::AlreadyExists { .. })
            | Ok(_) => {}
            Err(_) => {
                self.errors_returned_by_inner.fetch_add(1, Ordering::SeqCst);
            }
        }
        r
    }
    async fn put_multipart_opts(
        &self,
        location: &Path,
        opts: PutMultipartOpts,
    ) -> object_store::Result<Box<dyn MultipartUpload>> {
        self.inner.put_multipart_opts(location, opts).await
    }
    async fn get_opts(&self, location: &Path, options: GetOptions) -> object_store::Result<GetResult> {
        // request travels to the store, is served, response travels back
        let slow = location.as_ref().ends_with("catalog.json");
        if slow {
            tokio::time::sleep(Duration::from_millis(20)).await;
        }
        let r = self.inner.get_opts(location, options).await;
        if slow {
            tokio::time::sleep(Duration::from_millis(20)).await;
        }
        match &r {
            Ok(_) | Err(object_store::Error::NotFound { .. }) => {}
            Err(_) => {
                self.errors_returned_by_inner.fetch_add(1, Ordering::SeqCst);
            }
        }
        r
    }
    async fn delete(&self, location: &Path) -> object_store::Result<()> {
        self.inner.delete(location).await
    }
    fn list(&self, prefix: Option<&Path>) -> BoxStream<'_, object_store::Result<ObjectMeta>> {
        self.inner.list(prefix)
    }
    async fn list_with_delimiter(&self, prefix: Option<&Path>) -> object_store::Result<ListResult> {
        self.inner.list_with_delimiter(prefix).await
    }
    async fn copy(&self, from: &Path, to: &Path) -> object_store::Result<()> {
        self.inner.copy(from, to).await
    }
    async fn copy_if_not_exists(&self, from: &Path, to: &Path) -> object_store::Result<()> {
        self.inner.copy_if_not_exists(from, to).await
    }
}

/// (timestamp, <value_col>: Int64): two schemas that differ in the name of the value column,
/// as two metric families with different columns do.
fn batch(value_col: &str, ts0: i64) -> RecordBatch {
    let schema = Arc::new(Schema::new(vec![
        Field::new(
            "timestamp",
            DataType::Timestamp(TimeUnit::Nanosecond, None),
            false,
        ),
        Field::new(value_col, DataType::Int64, false),
    ]));
    let ts: Vec<i64> = (0..10).map(|i| ts0 + i).collect();
    RecordBatch::try_new(
        schema,
        vec![
            Arc::new(arrow_array::PrimitiveArray::<TimestampNanosecondType>::from(ts.clone())),
            Arc::new(Int64Array::from(ts)),
        ],
    )
    .unwrap()
}

fn row_keys(batch: &RecordBatch) -> Vec<String> {
    let ts = batch
        .column_by_name("timestamp")
        .unwrap()
        .as_primitive::<TimestampNanosecondType>();
    let name = batch.schema().field(1).name().clone();
    let v = batch.column(1).as_primitive::<Int64Type>();
    (0..batch.num_rows())
        .map(|i| format!("{}|{}={}", ts.value(i), name, v.value(i)))
        .collect()
}

fn multiset(keys: impl IntoIterator<Item = String>) -> BTreeMap<String, usize> {
    let mut m = BTreeMap::new();
    for k in keys {
        *m.entry(k).or_insert(0) += 1;
    }
    m
}

#[tokio::test(flavor = "multi_thread", worker_threads = 8)]
async fn concurrent_schema_change_flushes_exhaust_cas_retries_and_drop_accepted_rows() {
    let slow = Arc::new(SlowCatalogStore {
        inner: InMemory::new(),
        parquet_puts: AtomicUsize::new(0),
        errors_returned_by_inner: AtomicUsize::new(0),
    });
    let store: Arc<dyn ObjectStore> = slow.clone();
    let metadata: Arc<dyn MetadataClient> = Arc::new(ObjectStoreMetadataClient::new(
        store.clone(),
        ObjectStoreMetadataConfig::default(),
    ));

    let config = IngesterConfig {
        flush_row_count: 1_000_000,
        flush_size_bytes: 1 << 30,
        flush_interval: Duration::from_secs(3600),
        wal: WalConfig {
            enabled: false,
            ..Default::default()
        },
        ..Default::default()
    };
    let storage_config = StorageConfig {
        provider: CloudProvider::Memory,
        container: "bucket".to_string(),
        tenant_id: "tenant".to_string(),
    };
    let ing = Arc::new(Ingester::new(
        config,
        store.clone(),
        metadata.clone(),
        storage_config,
        MetricSchema::default_metrics(),
    ));

    const PAIRS: usize = 8;
    let mut accepted: Vec<String> = Vec::new();
    let mut pending = Vec::new();

    // Writers of family "cpu" and of family "mem" alternate.  Each "mem" write finds a "cpu"
    // batch in the buffer, takes it and flushes it inline; while it is busy with the catalog
    // the next "cpu" write finds the buffer empty, is buffered and answered Ok at once.
    for k in 0..PAIRS {
        let cpu = batch("cpu_value", 1_000_000 * (k as i64 + 1));
        ing.write(cpu.clone())
            .await
            .expect("cpu write is buffered and accepted");
        accepted.extend(row_keys(&cpu));

        let mem = batch("mem_value", 500_000_000 + 1_000_000 * (k as i64 + 1));
        let before = slow.parquet_puts.load(Ordering::SeqCst);
        let task = {
            let ing = ing.clone();
            let mem = mem.clone();
            tokio::spawn(async move { ing.write(mem).await })
        };
        // wait until this writer has uploaded the chunk it took (it is now in register_chunk)
        let t0 = std::time::Instant::now();
        while slow.parquet_puts.load(Ordering::SeqCst) == before {
            assert!(t0.elapsed() < Duration::from_secs(10), "flush did not start");
            tokio::time::sleep(Duration::from_millis(1)).await;
        }
        pending.push((mem, task));
    }

    // Collect the answers; a writer that was answered Err retries, as a client would.
    let mut errors = Vec::new();
    for (mem, task) in pending {
        match task.await.unwrap() {
            Ok(()) => accepted.extend(row_keys(&mem)),
            Err(e) => {
                errors.push(e.to_string());
                ing.write(mem.clone())
                    .await
                    .expect("the retry, without contention, is accepted");
                accepted.extend(row_keys(&mem));
            }
        }
    }
    eprintln!("answers Err during the concurrent phase: {errors:?}");

    // flush the rest (no contention any more)
    ing.shutdown_token().cancel();
    tokio::time::timeout(Duration::from_secs(30), ing.run_flush_timer())
        .await
        .unwrap();
    assert_eq!(ing.buffer_stats().await.row_count, 0);

    // Ground truth from a fresh catalog client (no cache).
    let reader_client = ObjectStoreMetadataClient::new(store.clone(), ObjectStoreMetadataConfig::default());
    let chunks = reader_client.list_chunks().await.unwrap();
    let mut keys = Vec::new();
    for entry in &chunks {
        let bytes: Bytes = store
            .get(&Path::from(entry.chunk_path.as_str()))
            .await
            .unwrap()
            .bytes()
            .await
            .unwrap();
        for b in ParquetRecordBatchReaderBuilder::try_new(bytes)
            .unwrap()
            .build()
            .unwrap()
        {
            keys.extend(row_keys(&b.unwrap()));
        }
    }
    let stored = multiset(keys);
    let accepted = multiset(accepted);
    let missing: usize = accepted
        .iter()
        .map(|(k, n)| n.saturating_sub(stored.get(k).copied().unwrap_or(0)))
        .sum();
    let uploads = slow.parquet_puts.load(Ordering::SeqCst);

    assert_eq!(
        slow.errors_returned_by_inner.load(Ordering::SeqCst),
        0,
        "the object store never returned an error other than a lost CAS race"
    );
    assert!(
        stored == accepted,
        "C06 violated (rows missing) without any storage error: {missing} rows of writes that \
         were answered Ok are in no registered chunk. {} flushes ended in an error caused by \
         catalog contention alone ({errors:?}); {uploads} Parquet objects were uploaded, {} are \
         registered. stored total = {}, accepted total = {}",
        errors.len(),
        chunks.len(),
        stored.values().sum::<usize>(),
        accepted.values().sum::<usize>(),
    );
}
