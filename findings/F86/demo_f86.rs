//! C19 defect 2: under the (default) ConsistentHash strategy the hash ring is
//! filled exactly once -- by the first `assign_shard` that finds it empty -- and
//! after that only `rebalance()` ever touches it.  `assign_consistent_hash` never
//! looks at the registry again, so
//!   * nodes registered after the first routed write are never used, and
//!   * a ring member that drains / fails / overloads / is removed keeps being
//!     returned for every shard that hashes to it.
//! `route_write` then burns its three attempts on the same ineligible node and
//! reports "No healthy node available" although eligible ingesters are registered;
//! the shard does NOT move when its node stops being eligible.  When the ring
//! member was removed from the registry, route_write additionally leaves the shard
//! assigned to the non-existent node in the assignments map.

use cardinalsin::cluster::{
    AssignmentStrategy, DistributedWriteRouter, NodeInfo, NodeRegistry, NodeStatus, NodeType,
    ShardAssignment,
};
use std::sync::Arc;
use std::time::Duration;

fn node(id: &str, last_octet: u8) -> NodeInfo {
    NodeInfo::new(
        id.to_string(),
        format!("10.0.1.{last_octet}:8081").parse().unwrap(),
        NodeType::Ingester,
    )
}

async fn route(router: &DistributedWriteRouter, shard: &str) -> Result<String, String> {
    match tokio::time::timeout(Duration::from_secs(5), router.route_write(shard)).await {
        Err(_) => panic!("route_write({shard}) did not return within 5 s"),
        Ok(Ok(Some(n))) => {
            assert!(n.can_accept_writes(), "routed to ineligible node {n:?}");
            Ok(n.id)
        }
        Ok(Ok(None)) => Ok("<local>".to_string()),
        Ok(Err(e)) => Err(e.to_string()),
    }
}

/// Rolling replacement of the first ingester: total, permanent write outage.
#[tokio::test]
async fn a_draining_the_first_ingester_makes_every_shard_unroutable() {
    let registry = Arc::new(NodeRegistry::new(30));
    let assignments = Arc::new(ShardAssignment::new(
        registry.clone(),
        AssignmentStrategy::ConsistentHash,
    ));
    let router = DistributedWriteRouter::new(assignments.clone(), registry.clone());

    registry.register_node(node("ingester-1", 1)).await;
    assert_eq!(route(&router, "shard-0").await.unwrap(), "ingester-1");

    // scale out, then retire the first node gracefully
    registry.register_node(node("ingester-2", 2)).await;
    registry.register_node(node("ingester-3", 3)).await;
    registry.drain_node("ingester-1").await;

    let eligible = registry.get_healthy_ingesters().await.len();
    assert_eq!(eligible, 2);

    let mut failures = Vec::new();
    for shard in ["shard-0", "shard-1", "shard-2", "brand-new-shard"] {
        // ask more than once: it is not a transient condition
        for _ in 0..3 {
            if let Err(e) = route(&router, shard).await {
                failures.push(format!("{shard}: {e}"));
            }
        }
    }
    assert!(
        failures.is_empty(),
        "C19 VIOLATED (ConsistentHash): {eligible} healthy, idle ingesters are registered, yet \
         {} of 12 route_write calls failed -- the shard never moves off ingester-1 after it \
         stopped being eligible (Draining), and ingester-2/3 are never considered: {:?}",
        failures.len(),
        failures
    );
}

/// The repository's own `test_write_routing_with_node_failure`, only with a shard
/// id that happens to hash onto the node that fails (the original uses "shard-1",
/// which hashes onto the surviving node, so its `assert_ne!` branch never runs).
#[tokio::test]
async fn b_shard_on_failed_ring_member_is_not_reassigned() {
    let registry = Arc::new(NodeRegistry::new(30));
    let assignments = Arc::new(ShardAssignment::new(
        registry.clone(),
        AssignmentStrategy::ConsistentHash,
    ));
    registry.register_node(node("ingester-1", 1)).await;
    let mut node2 = node("ingester-2", 2);
    registry.register_node(node2.clone()).await;
    let router = DistributedWriteRouter::new(assignments.clone(), registry.clone());

    // find a shard that lives on ingester-2
    let mut shard = None;
    for i in 0..64 {
        let s = format!("shard-{i}");
        if route(&router, &s).await.unwrap() == "ingester-2" {
            shard = Some(s);
            break;
        }
    }
    let shard = shard.expect("some shard hashes onto ingester-2");

    node2.status = NodeStatus::Failed;
    registry.register_node(node2).await;

    let after = route(&router, &shard).await;
    assert_eq!(
        after.as_deref(),
        Ok("ingester-1"),
        "C19 VIOLATED (ConsistentHash): {shard} was on ingester-2, ingester-2 failed, ingester-1 \
         is healthy and idle, but route_write answered {after:?} instead of reassigning the shard"
    );
}

/// Same, with the ring member removed from the registry: the error path (`break`)
/// also leaves the shard assigned to a node that does not exist.
#[tokio::test]
async fn c_removed_ring_member_leaves_dangling_assignment() {
    let registry = Arc::new(NodeRegistry::new(30));
    let assignments = Arc::new(ShardAssignment::new(
        registry.clone(),
        AssignmentStrategy::ConsistentHash,
    ));
    registry.register_node(node("ingester-1", 1)).await;
    registry.register_node(node("ingester-2", 2)).await;
    let router = DistributedWriteRouter::new(assignments.clone(), registry.clone());

    let mut shard = None;
    for i in 0..64 {
        let s = format!("shard-{i}");
        if route(&router, &s).await.unwrap() == "ingester-2" {
            shard = Some(s);
            break;
        }
    }
    let shard = shard.expect("some shard hashes onto ingester-2");

    registry.remove_node("ingester-2").await;

    let after = route(&router, &shard).await;
    let owner = assignments.get_node_for_shard(&shard).await;
    let owner_exists = match &owner {
        Some(o) => registry.get_node(o).await.is_some(),
        None => true,
    };
    assert!(
        after.is_ok() && owner_exists,
        "C19 VIOLATED (ConsistentHash): ingester-2 was removed, ingester-1 is healthy; \
         route_write({shard}) answered {after:?} and get_all_assignments still maps the shard to \
         {owner:?} (registered: {owner_exists})"
    );
}
