//! Demonstration for known finding F10b: a now()-relative bound is ignored and replaced by "the last hour".
use cardinalsin::query::{CacheConfig, QueryEngine, TieredCache};
use cardinalsin::StorageConfig;
use object_store::memory::InMemory;
use std::sync::Arc;

async fn engine() -> (QueryEngine, tempfile::TempDir) {
    let dir = tempfile::tempdir().unwrap();
    let cache = Arc::new(
        TieredCache::new(CacheConfig {
            l1_size: 10 * 1024 * 1024,
            l2_size: 50 * 1024 * 1024,
            l2_dir: Some(dir.path().to_str().unwrap().to_string()),
        })
        .await
        .unwrap(),
    );
    let engine = QueryEngine::new(Arc::new(InMemory::new()), cache, &StorageConfig::default())
        .await
        .unwrap();
    (engine, dir)
}

#[tokio::test]
async fn now_relative_lower_bound_is_not_cut_to_the_last_hour() {
    let (engine, _dir) = engine().await;
    let range = engine
        .extract_time_range("SELECT * FROM metrics WHERE timestamp > now() - interval '2 hours' AND timestamp <= now()")
        .await
        .unwrap();
    let now = chrono::Utc::now().timestamp_nanos_opt().unwrap();
    let ninety_min_ago = now - 90 * 60 * 1_000_000_000i64;
    // a row written 90 minutes ago satisfies the WHERE clause, so it must be inside the scan range
    assert!(range.start <= ninety_min_ago, "scan range starts at {} (now - {} min)", range.start, (now - range.start) / 60_000_000_000);
}

