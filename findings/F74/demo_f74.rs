//! C18 defect 7: the WebSocket streaming endpoint `/api/v1/stream` (src/api/query/streaming.rs,
//! `handle_connection`) applies NO filter at all to the live tail. After sending the historical
//! answer it calls `state.ingester.subscribe()` and forwards every broadcast batch verbatim:
//! the query's WHERE clause is not applied (neither is a merge timestamp), so a client that asked
//! for `WHERE host = 'a'` with `"live": true` receives the rows of every host.
//! (It also subscribes only AFTER the historical query has run, so a batch flushed in between is
//! in neither part; not asserted here.)
//!
//! The test serves `build_http_router` on a loopback socket and talks to it with a minimal
//! hand-written WebSocket client (no extra dependency).

use arrow_array::{ArrayRef, Float64Array, RecordBatch, StringArray, TimestampNanosecondArray};
use arrow_schema::{Field, Schema};
use cardinalsin::ingester::{Ingester, IngesterConfig, WalConfig};
use cardinalsin::metadata::{LocalMetadataClient, MetadataClient};
use cardinalsin::query::{QueryConfig, QueryNode};
use cardinalsin::schema::MetricSchema;
use cardinalsin::StorageConfig;
use object_store::memory::InMemory;
use std::sync::Arc;
use std::time::Duration;
use tokio::io::{AsyncReadExt, AsyncWriteExt};
use tokio::net::TcpStream;

fn now_ns() -> i64 {
    chrono::Utc::now().timestamp_nanos_opt().unwrap()
}

fn mk(t: i64, hosts: Vec<&str>) -> RecordBatch {
    let n = hosts.len();
    let cols: Vec<(&str, ArrayRef)> = vec![
        (
            "timestamp",
            Arc::new(TimestampNanosecondArray::from(vec![t; n]).with_timezone("UTC")),
        ),
        ("metric_name", Arc::new(StringArray::from(vec!["cpu"; n]))),
        ("host", Arc::new(StringArray::from(hosts))),
        ("value_f64", Arc::new(Float64Array::from(vec![1.0; n]))),
    ];
    let fields: Vec<Field> = cols
        .iter()
        .map(|(n, a)| Field::new(*n, a.data_type().clone(), true))
        .collect();
    RecordBatch::try_new(
        Arc::new(Schema::new(fields)),
        cols.into_iter().map(|(_, a)| a).collect(),
    )
    .unwrap()
}

async fn ws_send_text(s: &mut TcpStream, text: &str) {
    let payload = text.as_bytes();
    let mut frame = vec![0x81u8];
    let mask = [1u8, 2, 3, 4];
    if payload.len() < 126 {
        frame.push(0x80 | payload.len() as u8);
    } else {
        frame.push(0x80 | 126);
        frame.extend_from_slice(&(payload.len() as u16).to_be_bytes());
    }
    frame.extend_from_slice(&mask);
    frame.extend(payload.iter().enumerate().map(|(i, b)| b ^ mask[i % 4]));
    s.write_all(&frame).await.unwrap();
}

/// next text frame from the server (server frames are not masked), None on timeout / close
async fn ws_recv_text(s: &mut TcpStream, wait: Duration) -> Option<String> {
    let fut = async {
        loop {
            let mut h = [0u8; 2];
            s.read_exact(&mut h).await.ok()?;
            let opcode = h[0] & 0x0f;
            let mut len = (h[1] & 0x7f) as u64;
            if len == 126 {
                let mut b = [0u8; 2];
                s.read_exact(&mut b).await.ok()?;
                len = u16::from_be_bytes(b) as u64;
            } else if len == 127 {
                let mut b = [0u8; 8];
                s.read_exact(&mut b).await.ok()?;
                len = u64::from_be_bytes(b);
            }
            let mut payload = vec![0u8; len as usize];
            s.read_exact(&mut payload).await.ok()?;
            match opcode {
                1 => return Some(String::from_utf8(payload).unwrap()),
                8 => return None,
                _ => continue,
            }
        }
    };
    tokio::time::timeout(wait, fut).await.ok().flatten()
}

fn hosts_in(msg: &str) -> Vec<String> {
    let v: serde_json::Value = serde_json::from_str(msg).unwrap();
    assert_eq!(v["type"], "data", "unexpected message {msg}");
    v["data"]
        .as_array()
        .unwrap()
        .iter()
        .map(|r| r["host"].as_str().unwrap().to_string())
        .collect()
}

#[tokio::test(flavor = "multi_thread", worker_threads = 2)]
async fn websocket_live_tail_ignores_the_where_clause() {
    let store = Arc::new(InMemory::new());
    let metadata: Arc<dyn MetadataClient> = Arc::new(LocalMetadataClient::new());
    let ingester = Arc::new(Ingester::new(
        IngesterConfig {
            flush_row_count: 1,
            wal: WalConfig {
                enabled: false,
                ..Default::default()
            },
            ..Default::default()
        },
        store.clone(),
        metadata.clone(),
        StorageConfig::default(),
        MetricSchema::default_metrics(),
    ));
    let node = Arc::new(
        QueryNode::new(
            QueryConfig::default(),
            store.clone(),
            metadata.clone(),
            StorageConfig::default(),
        )
        .await
        .unwrap(),
    );
    let app = cardinalsin::api::build_http_router(ingester.clone(), node.clone());
    let listener = tokio::net::TcpListener::bind("127.0.0.1:0").await.unwrap();
    let addr = listener.local_addr().unwrap();
    tokio::spawn(async move {
        axum::serve(listener, app).await.unwrap();
    });

    // history: one row of host a, one of host b
    ingester
        .write(mk(now_ns() - 60_000_000_000, vec!["a", "b"]))
        .await
        .unwrap();

    let mut s = TcpStream::connect(addr).await.unwrap();
    s.write_all(
        format!(
            "GET /api/v1/stream HTTP/1.1\r\nHost: {addr}\r\nUpgrade: websocket\r\nConnection: Upgrade\r\n\
             Sec-WebSocket-Key: dGhlIHNhbXBsZSBub25jZQ==\r\nSec-WebSocket-Version: 13\r\n\r\n"
        )
        .as_bytes(),
    )
    .await
    .unwrap();
    let mut head = Vec::new();
    while !head.ends_with(b"\r\n\r\n") {
        let mut b = [0u8; 1];
        s.read_exact(&mut b).await.unwrap();
        head.push(b[0]);
    }
    assert!(
        String::from_utf8_lossy(&head).starts_with("HTTP/1.1 101"),
        "upgrade failed: {}",
        String::from_utf8_lossy(&head)
    );

    let sql = "SELECT * FROM metrics WHERE host = 'a'";
    ws_send_text(
        &mut s,
        &serde_json::json!({ "query": sql, "live": true }).to_string(),
    )
    .await;

    // historical part: the WHERE clause is honoured by the engine
    let hist = ws_recv_text(&mut s, Duration::from_secs(5))
        .await
        .expect("historical message");
    let hist_hosts = hosts_in(&hist);
    println!("historical part: {} row(s), host rendered as {hist_hosts:?}", hist_hosts.len());
    // (side observation: batch_to_json renders the engine's Utf8View strings as the literal
    // "Utf8View"; only the row count is checked here: 1 of the 2 historical rows has host a)
    assert_eq!(hist_hosts.len(), 1, "the engine applies the WHERE clause to the historical part");

    // give the handler time to subscribe, then flush a batch
    tokio::time::sleep(Duration::from_millis(500)).await;
    ingester
        .write(mk(now_ns(), vec!["a", "b", "c"]))
        .await
        .unwrap();

    let mut live_hosts = Vec::new();
    while let Some(msg) = ws_recv_text(&mut s, Duration::from_millis(800)).await {
        live_hosts.extend(hosts_in(&msg));
    }
    println!("live tail: hosts {live_hosts:?}");
    assert_eq!(
        live_hosts,
        vec!["a".to_string()],
        "C18 violated: WebSocket subscriber of `{sql}` (live=true) received live rows of hosts \
         {live_hosts:?}; only host a satisfies the WHERE clause"
    );
}
