//! C17 defect 3: memory / CPU amplification in `convert_prom_to_arrow`. Every sample of
//! the request gets one `Option<String>` cell for every label NAME that occurs anywhere in
//! the request (`for name in &label_names { label_values[name].push(..) }`), so a request
//! with L label names (on one series without samples) and S samples (on another series
//! without labels) costs L x S cells of 24 bytes plus L Arrow string columns of S rows.
//! A body of a few KB pins a runtime worker for seconds and allocates hundreds of MB; a
//! body well below axum's 2 MB default limit exhausts any machine (OOM abort = the
//! receiver is crashed by a payload).

use axum::body::Bytes;
use axum::extract::State;
use axum::response::IntoResponse;
use cardinalsin::api::ingest::prometheus::handle_remote_write;
use cardinalsin::api::ApiState;
use cardinalsin::ingester::{Ingester, IngesterConfig};
use cardinalsin::metadata::LocalMetadataClient;
use cardinalsin::query::{QueryConfig, QueryNode};
use cardinalsin::schema::MetricSchema;
use cardinalsin::StorageConfig;
use object_store::memory::InMemory;
use std::alloc::{GlobalAlloc, Layout, System};
use std::sync::atomic::{AtomicUsize, Ordering};
use std::sync::Arc;

struct Counting;
static LIVE: AtomicUsize = AtomicUsize::new(0);
static PEAK: AtomicUsize = AtomicUsize::new(0);
unsafe impl GlobalAlloc for Counting {
    unsafe fn alloc(&self, l: Layout) -> *mut u8 {
        let p = System.alloc(l);
        if !p.is_null() {
            let live = LIVE.fetch_add(l.size(), Ordering::Relaxed) + l.size();
            PEAK.fetch_max(live, Ordering::Relaxed);
        }
        p
    }
    unsafe fn dealloc(&self, p: *mut u8, l: Layout) {
        LIVE.fetch_sub(l.size(), Ordering::Relaxed);
        System.dealloc(p, l)
    }
    unsafe fn alloc_zeroed(&self, l: Layout) -> *mut u8 {
        let p = System.alloc_zeroed(l);
        if !p.is_null() {
            let live = LIVE.fetch_add(l.size(), Ordering::Relaxed) + l.size();
            PEAK.fetch_max(live, Ordering::Relaxed);
        }
        p
    }
    unsafe fn realloc(&self, p: *mut u8, l: Layout, new: usize) -> *mut u8 {
        let q = System.realloc(p, l, new);
        if !q.is_null() {
            if new >= l.size() {
                let live = LIVE.fetch_add(new - l.size(), Ordering::Relaxed) + (new - l.size());
                PEAK.fetch_max(live, Ordering::Relaxed);
            } else {
                LIVE.fetch_sub(l.size() - new, Ordering::Relaxed);
            }
        }
        q
    }
}
#[global_allocator]
static A: Counting = Counting;

fn varint(mut v: u64, out: &mut Vec<u8>) {
    loop {
        let b = (v & 0x7f) as u8;
        v >>= 7;
        if v == 0 {
            out.push(b);
            return;
        }
        out.push(b | 0x80);
    }
}
fn ld(field: u32, payload: &[u8], out: &mut Vec<u8>) {
    varint(((field << 3) | 2) as u64, out);
    varint(payload.len() as u64, out);
    out.extend_from_slice(payload);
}
fn label(name: &str, value: &str) -> Vec<u8> {
    let mut l = Vec::new();
    ld(1, name.as_bytes(), &mut l);
    ld(2, value.as_bytes(), &mut l);
    l
}

#[tokio::test]
async fn small_remote_write_body_must_not_amplify_quadratically() {
    let store = Arc::new(InMemory::new());
    let metadata = Arc::new(LocalMetadataClient::new());
    let ingester = Arc::new(Ingester::new(
        IngesterConfig::default(),
        store.clone(),
        metadata.clone(),
        StorageConfig::default(),
        MetricSchema::default_metrics(),
    ));
    let query_node = Arc::new(
        QueryNode::new(QueryConfig::default(), store, metadata, StorageConfig::default())
            .await
            .unwrap(),
    );
    let state = ApiState {
        ingester,
        query_node,
    };

    const LABELS: usize = 500;
    const SAMPLES: usize = 20_000;
    // series 1: LABELS distinct label names, no samples
    let mut s1 = Vec::new();
    ld(1, &label("__name__", "a"), &mut s1);
    for i in 0..LABELS {
        ld(1, &label(&format!("l{i}"), "v"), &mut s1);
    }
    // series 2: no labels but the name, SAMPLES samples (empty Sample message = value 0 at t 0)
    let mut s2 = Vec::new();
    ld(1, &label("__name__", "b"), &mut s2);
    for _ in 0..SAMPLES {
        ld(2, &[], &mut s2);
    }
    let mut req = Vec::new();
    ld(1, &s1, &mut req);
    ld(1, &s2, &mut req);
    let body = Bytes::from(snap::raw::Encoder::new().compress_vec(&req).unwrap());
    let (body_len, raw_len) = (body.len(), req.len());
    drop(req);

    let base = LIVE.load(Ordering::Relaxed);
    PEAK.store(base, Ordering::Relaxed);
    let t = std::time::Instant::now();
    let status = handle_remote_write(State(state), body)
        .await
        .into_response()
        .status();
    let elapsed = t.elapsed();
    let peak = PEAK.load(Ordering::Relaxed).saturating_sub(base);
    println!(
        "body {body_len} B (decompressed {raw_len} B): status {status}, {elapsed:?}, peak extra heap {} MiB",
        peak >> 20
    );

    // generous bound: 1000 x the decompressed request (~50 MB for a 50 KB request)
    assert!(
        peak <= raw_len * 1000,
        "C17 violated (hostile payload can take the receiver down): a {body_len}-byte remote-write \
         body ({raw_len} bytes decompressed, {LABELS} label names x {SAMPLES} samples) made the \
         handler allocate {} MiB at peak ({}x the decompressed request) and run for {elapsed:?} \
         on the runtime thread (status {status}). The cost is labels x samples, so a body of \
         ~200 KB (15k label names x 1M samples) needs ~360 GB and aborts the process.",
        peak >> 20,
        peak / raw_len
    );
}
