//! C17 defect 4: a well-formed remote-write request with ZERO series (the empty
//! WriteRequest, or the metadata-only WriteRequest that Prometheus sends periodically when
//! `metadata_config.send` is on - the default) is answered with 500 Internal Server Error:
//! `convert_prom_to_arrow` returns Err("No timeseries data") and the handler maps every
//! conversion error to 500. Prometheus treats 5xx as recoverable and re-sends the same
//! request with back-off; nothing is wrong with the request and nothing is wrong with the
//! server. (A series with zero samples is already accepted - only zero series is not.)

use axum::body::Bytes;
use axum::extract::State;
use axum::http::StatusCode;
use axum::response::IntoResponse;
use cardinalsin::api::ingest::prometheus::handle_remote_write;
use cardinalsin::api::ApiState;
use cardinalsin::ingester::{Ingester, IngesterConfig};
use cardinalsin::metadata::LocalMetadataClient;
use cardinalsin::query::{QueryConfig, QueryNode};
use cardinalsin::schema::MetricSchema;
use cardinalsin::StorageConfig;
use object_store::memory::InMemory;
use std::sync::Arc;

fn ld(field: u8, payload: &[u8], out: &mut Vec<u8>) {
    out.push((field << 3) | 2);
    assert!(payload.len() < 128);
    out.push(payload.len() as u8);
    out.extend_from_slice(payload);
}

#[tokio::test]
async fn request_without_series_is_not_a_server_error() {
    let store = Arc::new(InMemory::new());
    let metadata = Arc::new(LocalMetadataClient::new());
    let ingester = Arc::new(Ingester::new(
        IngesterConfig::default(),
        store.clone(),
        metadata.clone(),
        StorageConfig::default(),
        MetricSchema::default_metrics(),
    ));
    let query_node = Arc::new(
        QueryNode::new(QueryConfig::default(), store, metadata, StorageConfig::default())
            .await
            .unwrap(),
    );
    let state = ApiState {
        ingester,
        query_node,
    };
    let post = |raw: Vec<u8>| {
        let state = state.clone();
        async move {
            let body = Bytes::from(snap::raw::Encoder::new().compress_vec(&raw).unwrap());
            handle_remote_write(State(state), body)
                .await
                .into_response()
                .status()
        }
    };

    // control: one series, zero samples -> accepted
    let mut lbl = Vec::new();
    ld(1, b"__name__", &mut lbl);
    ld(2, b"cpu", &mut lbl);
    let mut ts = Vec::new();
    ld(1, &lbl, &mut ts);
    let mut one_series_no_samples = Vec::new();
    ld(1, &ts, &mut one_series_no_samples);
    assert_eq!(post(one_series_no_samples).await, StatusCode::NO_CONTENT);

    // prometheus.WriteRequest{ metadata: [ MetricMetadata{type: COUNTER, metric_family_name:
    // "http_requests_total", help: "requests"} ] }  (field 3; no timeseries)
    let mut md = vec![0x08, 0x01];
    ld(2, b"http_requests_total", &mut md);
    ld(4, b"requests", &mut md);
    let mut metadata_only = Vec::new();
    ld(3, &md, &mut metadata_only);

    let empty = post(Vec::new()).await;
    let meta = post(metadata_only).await;
    assert!(
        !empty.is_server_error() && !meta.is_server_error(),
        "C17 violated: well-formed remote-write requests with zero series are answered with a \
         server error (empty WriteRequest -> {empty}, metadata-only WriteRequest -> {meta}); \
         a sender following the remote-write spec retries 5xx, i.e. re-sends them forever"
    );
}
