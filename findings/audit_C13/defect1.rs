//! C13 defect 1: the shard splitter's cutover is not fenced by the generation its split
//! was decided on.
//!
//! `ShardSplitter::run_cutover` re-reads the old shard's metadata immediately before it
//! writes and passes *that* generation as `expected_generation`. The generation of the
//! `ShardMetadata` snapshot the split was decided on (the one the compactor read, checked
//! with `is_active()` and handed to `execute_split_with_monitoring`) is never used, and the
//! freshly read state is not looked at either. So the generation check in
//! `update_shard_metadata` can never fire for a splitter that is late: a node that decided
//! "shard S is Active at generation 1, split it" still succeeds after another node has
//! moved S to generation 2 / PendingDeletion, overwrites that newer version and creates a
//! second pair of Active child shards over the same key range.
//!
//! History (two compactor nodes, same object store):
//!   1. S is created (generation 1, Active).
//!   2. node 1 and node 2 both read S -> (generation 1, Active); both decide to split
//!      (this is what `Compactor::run_sharding_cycle` does for a hot shard).
//!   3. node 2 stalls (descheduled task, GC pause, partition ...).
//!   4. node 1 runs the whole split: children A, B (Active), S -> generation 2,
//!      PendingDeletion; clean-up done, progress file removed.
//!   5. node 2 wakes up and runs its split with the generation-1 snapshot.
//! Expected by C13: step 5 is rejected as stale, S stays at generation 2.
//! Actual: step 5 succeeds, S goes to generation 3, children C, D are created Active.

use cardinalsin::metadata::{
    LocalMetadataClient, MetadataClient, ObjectStoreMetadataClient, ObjectStoreMetadataConfig,
};
use cardinalsin::sharding::{ReplicaInfo, ShardMetadata, ShardSplitter, ShardState, SplitPhase};
use futures::TryStreamExt;
use object_store::memory::InMemory;
use object_store::ObjectStore;
use std::sync::Arc;
use std::time::Duration;

const S: &str = "hot-shard";
const FIVE_MIN: i64 = 300_000_000_000;

fn initial_shard() -> ShardMetadata {
    ShardMetadata {
        shard_id: S.to_string(),
        generation: 0,
        key_range: (vec![0u8; 8], vec![255u8; 8]),
        replicas: vec![ReplicaInfo {
            replica_id: "replica-1".to_string(),
            node_id: "node-1".to_string(),
            is_leader: true,
        }],
        state: ShardState::Active,
        min_time: 0,
        max_time: 4 * FIVE_MIN,
    }
}

/// What `Compactor::run_sharding_cycle` does before it hands the shard to the splitter.
async fn read_and_decide(metadata: &Arc<dyn MetadataClient>) -> ShardMetadata {
    let snapshot = metadata
        .get_shard_metadata(S)
        .await
        .unwrap()
        .expect("shard exists");
    assert!(snapshot.is_active(), "decision is taken on an Active shard");
    snapshot
}

/// The five phases of `execute_split_with_monitoring`, driven through the splitter's public
/// per-phase API so that the 10 s dual-write wait and the 300 s clean-up grace period are
/// not slept through. Returns the ids of the two child shards.
async fn split_by_phases(
    splitter: &ShardSplitter,
    metadata: &Arc<dyn MetadataClient>,
    store: &Arc<dyn ObjectStore>,
    snapshot: &ShardMetadata,
) -> cardinalsin::Result<(String, String)> {
    // Phase 1
    let (a, b) = splitter.split_shard(snapshot).await?;
    // same value as the private calculate_split_point(snapshot)
    let mid = snapshot.min_time + (snapshot.max_time - snapshot.min_time) / 2;
    let split_point = ((mid / FIVE_MIN) * FIVE_MIN).to_be_bytes().to_vec();
    metadata
        .start_split(S, vec![a.clone(), b.clone()], split_point.clone())
        .await?;
    // Phase 2
    metadata
        .update_split_progress(S, 0.0, SplitPhase::DualWrite)
        .await?;
    // Phase 3 (no chunks in this shard: marks the backfill 100 % complete)
    splitter
        .run_backfill(S, &[a.clone(), b.clone()], &split_point)
        .await?;
    // Phase 4
    splitter.cutover(S).await?;
    // Phase 5, and what run_from_phase does when Cleanup has finished
    splitter.cleanup(S, Duration::from_millis(0)).await?;
    let progress: object_store::path::Path = format!("metadata/split-progress/{}.json", S)
        .as_str()
        .into();
    match store.delete(&progress).await {
        Ok(_) | Err(object_store::Error::NotFound { .. }) => {}
        Err(e) => panic!("cannot remove progress file: {e}"),
    }
    Ok((a, b))
}

async fn scenario(metadata: Arc<dyn MetadataClient>, store: Arc<dyn ObjectStore>, backend: &str) {
    let node1 = ShardSplitter::new(metadata.clone(), store.clone());
    let node2 = ShardSplitter::new(metadata.clone(), store.clone());

    // 1.
    metadata
        .update_shard_metadata(S, &initial_shard(), 0)
        .await
        .unwrap();

    // 2.
    let snap1 = read_and_decide(&metadata).await;
    let snap2 = read_and_decide(&metadata).await;
    assert_eq!((snap1.generation, snap2.generation), (1, 1));

    // 4. (node 2 is stalled meanwhile)
    let (a, b) = split_by_phases(&node1, &metadata, &store, &snap1)
        .await
        .expect("node 1's split succeeds");
    let after1 = metadata.get_shard_metadata(S).await.unwrap().unwrap();
    assert_eq!(after1.generation, 2);
    assert!(matches!(after1.state, ShardState::PendingDeletion { .. }));

    // 5. node 2 continues with what it knows: generation 1, Active.
    let r2 = split_by_phases(&node2, &metadata, &store, &snap2).await;

    let after2 = metadata.get_shard_metadata(S).await.unwrap().unwrap();
    let mut active_children = Vec::new();
    let mut ids = vec![a.clone(), b.clone()];
    if let Ok((c, d)) = &r2 {
        ids.push(c.clone());
        ids.push(d.clone());
    }
    for id in &ids {
        if let Some(m) = metadata.get_shard_metadata(id).await.unwrap() {
            if m.is_active() {
                active_children.push((id.clone(), m.generation, m.key_range.clone()));
            }
        }
    }

    assert!(
        r2.is_err() && after2.generation == after1.generation,
        "C13 violated ({backend}): a splitter acting on shard state of generation {} ({:?}) was \
         not rejected as stale although the stored shard was already at generation {} ({:?}); \
         its split returned {:?}, the shard is now at generation {} ({:?}) and {} Active child \
         shards cover the parent's key range twice: {:?}",
        snap2.generation,
        snap2.state,
        after1.generation,
        after1.state,
        r2.as_ref().map(|_| "Ok").map_err(|e| e.to_string()),
        after2.generation,
        after2.state,
        active_children.len(),
        active_children
            .iter()
            .map(|(id, g, _)| format!("{id}@gen{g}"))
            .collect::<Vec<_>>(),
    );
}

#[tokio::test]
async fn stale_splitter_is_not_fenced_object_store_backend() {
    let store: Arc<dyn ObjectStore> = Arc::new(InMemory::new());
    let metadata: Arc<dyn MetadataClient> = Arc::new(ObjectStoreMetadataClient::new(
        store.clone(),
        ObjectStoreMetadataConfig::default(),
    ));
    scenario(metadata, store, "object-store metadata client").await;
}

#[tokio::test]
async fn stale_splitter_is_not_fenced_local_backend() {
    let store: Arc<dyn ObjectStore> = Arc::new(InMemory::new());
    let metadata: Arc<dyn MetadataClient> = Arc::new(LocalMetadataClient::new());
    scenario(metadata, store, "in-memory metadata client").await;
}

/// Same history, but node 2 goes through the real entry point the compactor uses,
/// `execute_split_with_monitoring(&snapshot)`, with the stale snapshot as its only input.
/// Sleeps through the real 10 s + 300 s waits of the split, hence ignored by default:
///   cargo test --test c13_defect1 -- --ignored
#[tokio::test]
#[ignore]
async fn stale_snapshot_through_execute_split_with_monitoring() {
    let store: Arc<dyn ObjectStore> = Arc::new(InMemory::new());
    let metadata: Arc<dyn MetadataClient> = Arc::new(ObjectStoreMetadataClient::new(
        store.clone(),
        ObjectStoreMetadataConfig::default(),
    ));
    let node1 = ShardSplitter::new(metadata.clone(), store.clone());
    let node2 = ShardSplitter::new(metadata.clone(), store.clone());

    metadata
        .update_shard_metadata(S, &initial_shard(), 0)
        .await
        .unwrap();
    let snap1 = read_and_decide(&metadata).await;
    let snap2 = read_and_decide(&metadata).await;

    split_by_phases(&node1, &metadata, &store, &snap1)
        .await
        .expect("node 1's split succeeds");
    let after1 = metadata.get_shard_metadata(S).await.unwrap().unwrap();
    assert_eq!(after1.generation, 2);

    let r2 = node2.execute_split_with_monitoring(&snap2).await;

    let after2 = metadata.get_shard_metadata(S).await.unwrap().unwrap();

    // every shard object in the store
    let mut active = Vec::new();
    let objects: Vec<_> = store.list(None).try_collect().await.unwrap();
    for o in objects {
        let loc = o.location.to_string();
        if !loc.contains("shards") || loc.contains("split-progress") {
            continue;
        }
        let bytes = store.get(&o.location).await.unwrap().bytes().await.unwrap();
        if let Ok(m) = serde_json::from_slice::<ShardMetadata>(&bytes) {
            if m.is_active() {
                active.push(format!("{}@gen{}", m.shard_id, m.generation));
            }
        }
    }

    assert!(
        r2.is_err() && after2.generation == after1.generation,
        "C13 violated: execute_split_with_monitoring(snapshot at generation {}, {:?}) returned \
         {:?} although the stored shard was at generation {} ({:?}); the shard is now at \
         generation {} ({:?}); Active shards in the store: {:?}",
        snap2.generation,
        snap2.state,
        r2.as_ref().map_err(|e| e.to_string()),
        after1.generation,
        after1.state,
        after2.generation,
        after2.state,
        active,
    );
}
