//! C13 defect 2 (minor): the router's "never replace a cached entry by an older generation"
//! guard only lives in the cached entry itself. `ShardRouter::invalidate` (and therefore
//! `handle_stale_generation`, `handle_shard_moved`, `route_query`'s retry path) drops the
//! entry together with the generation high-water mark, so the next `update_routing` with an
//! OLDER generation of the same shard is accepted. `handle_shard_moved(id, new_shard)` does
//! both steps itself: invalidate(id), then update_routing(new_shard) - for the same shard id
//! the guard is bypassed unconditionally.
//!
//! History on one query node:
//!   * the router has seen S at generation 2 (PendingDeletion, after the cutover);
//!   * a request that was routed earlier comes back with "stale generation" and the node
//!     calls handle_stale_generation(S) (or any code path calls invalidate(S));
//!   * a slower refresh that fetched S before the cutover (generation 1, Active) now
//!     delivers its result through update_routing.
//! Expected: the router never goes back from generation 2 to generation 1.
//! Actual: generation 1 / Active is installed and keys are routed to the retired shard.

use cardinalsin::sharding::{ShardKey, ShardMetadata, ShardRouter, ShardState};
use std::time::Duration;

fn shard(generation: u64, state: ShardState) -> ShardMetadata {
    ShardMetadata {
        shard_id: "S".to_string(),
        generation,
        key_range: (vec![0u8; 14], vec![255u8; 14]),
        replicas: vec![],
        state,
        min_time: 0,
        max_time: i64::MAX,
    }
}

#[test]
fn older_generation_is_installed_after_invalidate() {
    let router = ShardRouter::new(Duration::from_secs(60));
    let key = ShardKey::new(1, "cpu", 1_000_000_000);

    router.update_routing(shard(1, ShardState::Active));
    router.update_routing(shard(
        2,
        ShardState::PendingDeletion {
            delete_after: i64::MAX,
        },
    ));
    assert!(
        router.get_shard(&key).is_none(),
        "generation 2 (PendingDeletion) is cached: no routing to S"
    );

    // sanity: the guard works while the entry is cached
    router.update_routing(shard(1, ShardState::Active));
    assert!(router.get_shard(&key).is_none());

    // a stale-generation reply arrives for S
    router.handle_stale_generation(&"S".to_string());
    // ... and a refresh that read S before the cutover delivers generation 1
    router.update_routing(shard(1, ShardState::Active));

    let routed = router.get_shard(&key);
    assert!(
        routed.is_none(),
        "C13 violated (router): after the router had cached shard S at generation 2 \
         (PendingDeletion), an update carrying the older generation {} ({:?}) replaced it and \
         keys are routed to the retired shard again",
        routed.as_ref().map(|s| s.generation).unwrap_or(0),
        routed.as_ref().map(|s| s.state.clone()),
    );
}

#[test]
fn handle_shard_moved_bypasses_the_generation_guard() {
    let router = ShardRouter::new(Duration::from_secs(60));
    let key = ShardKey::new(1, "cpu", 1_000_000_000);

    router.update_routing(shard(
        2,
        ShardState::PendingDeletion {
            delete_after: i64::MAX,
        },
    ));
    router.handle_shard_moved(&"S".to_string(), shard(1, ShardState::Active));

    let routed = router.get_shard(&key);
    assert!(
        routed.is_none(),
        "C13 violated (router): handle_shard_moved replaced cached generation 2 of shard S by \
         the older generation {}",
        routed.as_ref().map(|s| s.generation).unwrap_or(0),
    );
}
