//! C02 audit, defect 2: the per-client catalog cache is installed "last finisher wins",
//! not "newest catalog version wins". Two operations of ONE metadata client that overlap
//! (a read with a write, or two writes - e.g. the ingester's timer flush and an inline
//! flush, or a query with a flush on a node that shares the client) can leave the cache
//! holding a catalog version that is OLDER than a mutation this very client has already
//! reported as successful. For the next 60 s (the cache TTL) every read through this
//! client (get_chunk, get_chunks, list_chunks, get_l0_candidates, get_level_candidates)
//! is answered from a catalog in which that successful mutation does not exist.
//!
//! Property C02: "every mutation that reports success is reflected in the catalog";
//! state anchor: "catalog_cache - per-client 60 s read cache, refreshed by own writes".
//!
//! The interleaving is forced, at the granularity of object-store requests, with a
//! wrapper around `InMemory` that can hold back the *response* of one request.

use async_trait::async_trait;
use cardinalsin::ingester::ChunkMetadata;
use cardinalsin::metadata::{MetadataClient, S3MetadataClient, S3MetadataConfig};
use futures::stream::BoxStream;
use object_store::memory::InMemory;
use object_store::path::Path;
use object_store::{
    GetOptions, GetResult, ListResult, MultipartUpload, ObjectMeta, ObjectStore, PutMultipartOpts,
    PutOptions, PutPayload, PutResult, Result as OsResult,
};
use std::fmt;
use std::sync::{Arc, Mutex};
use tokio::sync::Notify;

#[derive(Clone)]
struct Gate {
    /// signalled when the gated request has been executed by the store
    reached: Arc<Notify>,
    /// the response is handed to the caller once this is signalled
    release: Arc<Notify>,
}

impl Gate {
    fn new() -> Self {
        Self {
            reached: Arc::new(Notify::new()),
            release: Arc::new(Notify::new()),
        }
    }
}

/// InMemory store whose next catalog GET / next catalog PUT can be made slow:
/// the request is executed, the response is delayed until the test releases it.
struct SlowResponseStore {
    inner: Arc<InMemory>,
    slow_get: Mutex<Option<Gate>>,
    slow_put: Mutex<Option<Gate>>,
}

impl SlowResponseStore {
    fn new() -> Self {
        Self {
            inner: Arc::new(InMemory::new()),
            slow_get: Mutex::new(None),
            slow_put: Mutex::new(None),
        }
    }
    fn delay_next_catalog_get(&self) -> Gate {
        let g = Gate::new();
        *self.slow_get.lock().unwrap() = Some(g.clone());
        g
    }
    fn delay_next_catalog_put(&self) -> Gate {
        let g = Gate::new();
        *self.slow_put.lock().unwrap() = Some(g.clone());
        g
    }
}

impl fmt::Display for SlowResponseStore {
    fn fmt(&self, f: &mut fmt::Formatter<'_>) -> fmt::Result {
        write!(f, "SlowResponseStore")
    }
}
impl fmt::Debug for SlowResponseStore {
    fn fmt(&self, f: &mut fmt::Formatter<'_>) -> fmt::Result {
        write!(f, "SlowResponseStore")
    }
}

#[async_trait]
impl ObjectStore for SlowResponseStore {
    async fn put_opts(
        &self,
        location: &Path,
        payload: PutPayload,
        opts: PutOptions,
    ) -> OsResult<PutResult> {
        let gate = if location.as_ref().ends_with("catalog.json") {
            self.slow_put.lock().unwrap().take()
        } else {
            None
        };
        let res = self.inner.put_opts(location, payload, opts).await;
        if let Some(g) = gate {
            g.reached.notify_one();
            g.release.notified().await;
        }
        res
    }

    async fn put_multipart_opts(
        &self,
        location: &Path,
        opts: PutMultipartOpts,
    ) -> OsResult<Box<dyn MultipartUpload>> {
        self.inner.put_multipart_opts(location, opts).await
    }

    async fn get_opts(&self, location: &Path, options: GetOptions) -> OsResult<GetResult> {
        let gate = if location.as_ref().ends_with("catalog.json") {
            self.slow_get.lock().unwrap().take()
        } else {
            None
        };
        // InMemory hands out the object's bytes as of now: a snapshot of this version
        let res = self.inner.get_opts(location, options).await;
        if let Some(g) = gate {
            g.reached.notify_one();
            g.release.notified().await;
        }
        res
    }

    async fn delete(&self, location: &Path) -> OsResult<()> {
        self.inner.delete(location).await
    }

    fn list(&self, prefix: Option<&Path>) -> BoxStream<'_, OsResult<ObjectMeta>> {
        self.inner.list(prefix)
    }

    async fn list_with_delimiter(&self, prefix: Option<&Path>) -> OsResult<ListResult> {
        self.inner.list_with_delimiter(prefix).await
    }

    async fn copy(&self, from: &Path, to: &Path) -> OsResult<()> {
        self.inner.copy(from, to).await
    }

    async fn copy_if_not_exists(&self, from: &Path, to: &Path) -> OsResult<()> {
        self.inner.copy_if_not_exists(from, to).await
    }
}

fn config() -> S3MetadataConfig {
    S3MetadataConfig {
        bucket: "test-bucket".to_string(),
        metadata_prefix: "test/".to_string(),
        enable_cache: true,
        allow_unsafe_overwrite: false,
    }
}

fn chunk(path: &str, hour: i64) -> ChunkMetadata {
    let h = 3_600_000_000_000i64;
    ChunkMetadata {
        path: path.to_string(),
        min_timestamp: hour * h + 1,
        max_timestamp: hour * h + 1000,
        row_count: 100,
        size_bytes: 4096,
    }
}

async fn sorted_paths(client: &S3MetadataClient) -> Vec<String> {
    let mut v: Vec<String> = client
        .list_chunks()
        .await
        .unwrap()
        .into_iter()
        .map(|c| c.chunk_path)
        .collect();
    v.sort();
    v
}

/// A slow read overlapping a write of the same client.
///
///   R: node.list_chunks()     GET catalog (version 1) .......... response arrives -> cache := v1
///   W: node.register_chunk(b)        GET v1, PUT v2, cache := v2, returns Ok
#[tokio::test]
async fn own_successful_register_survives_an_overlapping_read() {
    let store = Arc::new(SlowResponseStore::new());

    // Another node has created the catalog (version 1: chunk a).
    let other = S3MetadataClient::new(store.clone(), config());
    other
        .register_chunk("a.parquet", &chunk("a.parquet", 1))
        .await
        .unwrap();

    // This node: cold cache (start-up, or the 60 s TTL has just expired).
    let node = Arc::new(S3MetadataClient::new(store.clone(), config()));

    let gate = store.delay_next_catalog_get();
    let reader = {
        let node = node.clone();
        tokio::spawn(async move { node.list_chunks().await.map(|v| v.len()) })
    };
    gate.reached.notified().await; // the read has fetched version 1, response in flight

    node.register_chunk("b.parquet", &chunk("b.parquet", 2))
        .await
        .expect("register_chunk(b) must succeed");
    println!("node.register_chunk(b.parquet) -> Ok");

    gate.release.notify_one();
    let seen_by_reader = reader.await.unwrap().unwrap();
    println!("overlapping list_chunks() returned {} chunk(s)", seen_by_reader);

    // Quiescent now. The shared catalog has both chunks:
    let fresh = S3MetadataClient::new(store.clone(), config());
    assert_eq!(
        sorted_paths(&fresh).await,
        vec!["a.parquet".to_string(), "b.parquet".to_string()]
    );

    // ... but the node that registered b does not see it any more.
    let own_view = sorted_paths(&node).await;
    let own_get = node.get_chunk("b.parquet").await.unwrap();
    println!("node.list_chunks() after its own successful register: {:?}", own_view);
    println!("node.get_chunk(b.parquet): {:?}", own_get.as_ref().map(|c| &c.path));
    assert!(
        own_get.is_some() && own_view.contains(&"b.parquet".to_string()),
        "C02 violated: register_chunk(\"b.parquet\") returned Ok on this client, yet the same \
         client's get_chunk / list_chunks answer (for the next 60 s) from a catalog version that \
         predates it: list_chunks = {:?}, get_chunk(b) = None. The overlapping read installed the \
         older catalog version over the cache entry written by the registration.",
        own_view
    );
}

/// Two overlapping writes of the same client (e.g. timer flush + inline flush of one ingester,
/// or retention delete + compaction swap of one compactor).
///
///   W1: node.register_chunk(a)  GET none, PUT v1 ..................... response arrives -> cache := v1
///   W2: node.register_chunk(b)               GET v1, PUT v2, cache := v2, returns Ok
#[tokio::test]
async fn own_successful_register_survives_an_overlapping_write() {
    let store = Arc::new(SlowResponseStore::new());
    let node = Arc::new(S3MetadataClient::new(store.clone(), config()));

    let gate = store.delay_next_catalog_put();
    let w1 = {
        let node = node.clone();
        tokio::spawn(async move { node.register_chunk("a.parquet", &chunk("a.parquet", 1)).await })
    };
    gate.reached.notified().await; // version 1 (a) is committed, W1 has not seen the response yet

    node.register_chunk("b.parquet", &chunk("b.parquet", 2))
        .await
        .expect("register_chunk(b) must succeed");
    println!("node.register_chunk(b.parquet) -> Ok   (catalog version 2: a, b)");

    gate.release.notify_one();
    w1.await.unwrap().expect("register_chunk(a) must succeed");
    println!("node.register_chunk(a.parquet) -> Ok   (was version 1: a)");

    let fresh = S3MetadataClient::new(store.clone(), config());
    assert_eq!(
        sorted_paths(&fresh).await,
        vec!["a.parquet".to_string(), "b.parquet".to_string()],
        "the shared catalog itself is right"
    );

    let own_view = sorted_paths(&node).await;
    println!("node.list_chunks() at quiescence: {:?}", own_view);
    let h = 3_600_000_000_000i64;
    let by_time = node
        .get_chunks(cardinalsin::metadata::TimeRange::new(2 * h, 3 * h))
        .await
        .unwrap();
    println!(
        "node.get_chunks(hour 2) at quiescence: {:?}",
        by_time.iter().map(|c| &c.chunk_path).collect::<Vec<_>>()
    );
    assert_eq!(
        own_view,
        vec!["a.parquet".to_string(), "b.parquet".to_string()],
        "C02 violated: both registrations returned Ok on this client and the operations are \
         over, yet the client's own list_chunks / get_chunks / compaction-candidate reads are \
         served (for the next 60 s) from catalog version 1, which lacks b.parquet: the writer \
         that committed FIRST wrote the cache LAST."
    );
}
