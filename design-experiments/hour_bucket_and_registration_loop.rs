use vstd::prelude::*;
verus! {

pub const NANOS_PER_HOUR: i64 = 3_600_000_000_000;
pub open spec fn H() -> int { 3_600_000_000_000 }

pub open spec fn bucket_spec(t: int) -> int {
    if t >= 0 { (t / H()) * H() } else { -(((-t) / H()) * H()) }
}

fn hour_bucket(timestamp: i64) -> (r: i64)
    ensures r == bucket_spec(timestamp as int)
{
    (timestamp / NANOS_PER_HOUR) * NANOS_PER_HOUR
}

// bucket_spec is monotone and a multiple of H, |bucket(t)| <= |t|
proof fn lemma_bucket_mono(a: int, b: int)
    requires a <= b
    ensures bucket_spec(a) <= bucket_spec(b)
{
    // nonlinear: division monotone
    if a >= 0 {
        assert(a / H() <= b / H()) by (nonlinear_arith) requires 0 <= a <= b, H() == 3_600_000_000_000;
        assert((a / H()) * H() <= (b / H()) * H()) by (nonlinear_arith) requires a / H() <= b / H(), H() == 3_600_000_000_000;
    } else if b >= 0 {
        assert(((-a) / H()) * H() >= 0) by (nonlinear_arith) requires -a >= 0, H() == 3_600_000_000_000;
        assert((b / H()) * H() >= 0) by (nonlinear_arith) requires b >= 0, H() == 3_600_000_000_000;
    } else {
        assert((-b) / H() <= (-a) / H()) by (nonlinear_arith) requires 0 <= -b <= -a, H() == 3_600_000_000_000;
        assert(((-b) / H()) * H() <= ((-a) / H()) * H()) by (nonlinear_arith) requires (-b) / H() <= (-a) / H(), H() == 3_600_000_000_000;
    }
}

proof fn lemma_bucket_multiple(t: int)
    ensures bucket_spec(t) % H() == 0
{
    if t >= 0 {
        assert(((t / H()) * H()) % H() == 0) by (nonlinear_arith) requires H() == 3_600_000_000_000;
    } else {
        assert((-(((-t) / H()) * H())) % H() == 0) by (nonlinear_arith) requires H() == 3_600_000_000_000;
    }
}

// abstract view of BTreeMap<i64, Vec<String>> : Map<int, Seq<Seq<char>>>
pub struct TimeIndex { pub ghost_m: Ghost<Map<int, Seq<int>>> }
impl TimeIndex {
    pub open spec fn view(&self) -> Map<int, Seq<int>> { self.ghost_m@ }
    pub open spec fn has(&self, b: int, p: int) -> bool { self@.dom().contains(b) && self@[b].contains(p) }
}

// assumed contract for `time_index.entry(bucket).or_default().push(path)`
#[verifier::external_body]
fn index_push(ti: &mut TimeIndex, bucket: i64, path: u64)
    ensures
        final(ti).has(bucket as int, path as int),
        forall|b: int, p: int| old(ti).has(b, p) ==> final(ti).has(b, p),
        forall|b: int, p: int| final(ti).has(b, p) ==> old(ti).has(b, p) || (b == bucket && p == path),
{ unimplemented!() }

fn register_index(ti: &mut TimeIndex, path: u64, min_timestamp: i64, max_timestamp: i64)
    requires min_timestamp <= max_timestamp, max_timestamp < i64::MAX - 3_600_000_000_000,
    ensures
        forall|b: int| bucket_spec(min_timestamp as int) <= b <= bucket_spec(max_timestamp as int) && b % H() == 0 ==> final(ti).has(b, path as int),
        forall|b: int, p: int| old(ti).has(b, p) ==> final(ti).has(b, p),
        forall|b: int, p: int| final(ti).has(b, p) && p != path ==> old(ti).has(b, p),
{
    let start_bucket = hour_bucket(min_timestamp);
    let end_bucket = hour_bucket(max_timestamp);
    proof { lemma_bucket_mono(min_timestamp as int, max_timestamp as int); lemma_bucket_multiple(min_timestamp as int); }
    {
        let mut bucket = start_bucket;
        while bucket <= end_bucket
            invariant
                start_bucket <= bucket <= end_bucket + H(), (bucket as int) % H() == 0, (start_bucket as int) % H() == 0,
                end_bucket <= max_timestamp || end_bucket <= 0,
                end_bucket < i64::MAX - 3_600_000_000_000,
                forall|b: int| start_bucket <= b < bucket && b % H() == 0 ==> ti.has(b, path as int),
                forall|b: int, p: int| old(ti).has(b, p) ==> ti.has(b, p),
                forall|b: int, p: int| ti.has(b, p) && p != path ==> old(ti).has(b, p),
            decreases end_bucket + H() - bucket,
        {
            index_push(ti, bucket, path);
            bucket += NANOS_PER_HOUR;
        }
    }
}

} // verus!
fn main() {}
