use vstd::prelude::*;
verus! {

pub enum Error { InvalidSchema }
pub type Result<T> = std::result::Result<T, Error>;

fn read_varint(data: &[u8], start: usize) -> (r: Result<(u64, usize)>)
    ensures match r { Ok((_, p)) => start < p && p <= data@.len(), Err(_) => true }
{
    let mut result: u64 = 0;
    let mut shift = 0;
    let mut pos = start;

    loop
        invariant start <= pos, pos - start <= 10, shift == 7 * (pos - start), shift < 64,
        decreases 64 - shift,
    {
        if pos >= data.len() {
            return Err(Error::InvalidSchema);
        }
        let byte = data[pos];
        pos += 1;

        result |= ((byte & 0x7F) as u64) << shift;
        if byte & 0x80 == 0 {
            return Ok((result, pos));
        }
        shift += 7;
        if shift >= 64 {
            return Err(Error::InvalidSchema);
        }
    }
}

pub struct Sample { pub timestamp_ms: i64, pub value: u64 }

fn parse_sample(data: &[u8]) -> (r: Result<Sample>)
{
    let mut value = 0u64;
    let mut timestamp_ms = 0i64;
    let mut pos = 0;

    while pos < data.len()
        decreases data@.len() - pos,
    {
        let (tag, new_pos) = read_varint(data, pos)?;
        pos = new_pos;

        let field_number = tag >> 3;
        let wire_type = tag & 0x7;

        match (field_number, wire_type) {
            (1, 1) => {
                if pos + 8 > data.len() {
                    return Err(Error::InvalidSchema);
                }
                pos += 8;
            }
            (2, 0) => {
                let (ts, new_pos) = read_varint(data, pos)?;
                timestamp_ms = ts as i64;
                pos = new_pos;
            }
            (_, 0) => {
                let (_, new_pos) = read_varint(data, pos)?;
                pos = new_pos;
            }
            (_, 1) => {
                pos += 8;
            }
            (_, 2) => {
                let (length, new_pos) = read_varint(data, pos)?;
                pos = new_pos + length as usize;
            }
            (_, 5) => {
                pos += 4;
            }
            _ => {
                return Err(Error::InvalidSchema);
            }
        }
    }

    Ok(Sample {
        timestamp_ms,
        value,
    })
}

} // verus!
fn main() {}
