use vstd::prelude::*;
verus! {

pub enum Error { Store, Meta, Wal }
pub type Result<T> = std::result::Result<T, Error>;

// ---------- ghost world ----------
pub struct World {
    pub ghost acked: Set<int>,        // ids of acknowledged WAL entries (seq numbers)
    pub ghost wal: Set<int>,          // seqs present in WAL files
    pub ghost mark: int,              // persisted flushed_seq
    pub ghost catalog: Set<int>,      // seqs whose rows are in registered chunks
    pub ghost uploaded: Set<int>,     // seqs whose rows are in uploaded (maybe unregistered) objects
}
pub open spec fn durable(w: World) -> bool {
    forall|s: int| w.acked.contains(s) ==> w.catalog.contains(s) || (w.wal.contains(s) && s > w.mark)
}

pub struct Batches { pub ghost seqs: Set<int>, pub n: usize }
#[verifier::external_body] pub struct Combined { _p: () }
pub uninterp spec fn comb_seqs(c: Combined) -> Set<int>;

pub struct Ingester { pub last_wal_seq_lower: Ghost<int> }

// shims with assumed effect contracts
#[verifier::external_body]
fn concat(b: &Batches) -> (c: Result<Combined>) ensures c matches Ok(cc) ==> comb_seqs(cc) == b.seqs { unimplemented!() }
#[verifier::external_body]
fn put_object(w: &mut World, c: &Combined) -> (r: Result<()>)
    ensures r is Ok ==> *final(w) == (World { uploaded: old(w).uploaded.union(comb_seqs(*c)), ..*old(w) }),
            r is Err ==> *final(w) == *old(w) || *final(w) == (World { uploaded: old(w).uploaded.union(comb_seqs(*c)), ..*old(w) })
{ unimplemented!() }
#[verifier::external_body]
fn register_chunk(w: &mut World, c: &Combined) -> (r: Result<()>)
    requires comb_seqs(*c).subset_of(old(w).uploaded)
    ensures r is Ok ==> *final(w) == (World { catalog: old(w).catalog.union(comb_seqs(*c)), ..*old(w) }),
            r is Err ==> *final(w) == *old(w) || *final(w) == (World { catalog: old(w).catalog.union(comb_seqs(*c)), ..*old(w) })
{ unimplemented!() }
// shared cell: value may have been raised by concurrent writers (rely): returns any value >= lower bound known to this thread
#[verifier::external_body]
fn load_last_wal_seq(ing: &Ingester) -> (v: u64) ensures v >= ing.last_wal_seq_lower@ { unimplemented!() }
#[verifier::external_body]
fn truncate_before(w: &mut World, seq: u64) -> (r: Result<()>)
    ensures final(w).wal.subset_of(old(w).wal), forall|s: int| old(w).wal.contains(s) && s >= seq ==> final(w).wal.contains(s),
            final(w).acked == old(w).acked, final(w).mark == old(w).mark, final(w).catalog == old(w).catalog, final(w).uploaded == old(w).uploaded
{ unimplemented!() }
#[verifier::external_body]
fn persist_flushed_seq(w: &mut World, seq: u64) -> (r: Result<()>)
    ensures r is Ok ==> *final(w) == (World { mark: seq as int, ..*old(w) }),
            r is Err ==> *final(w) == *old(w) || final(w).mark == 0 && final(w).acked == old(w).acked && final(w).wal == old(w).wal && final(w).catalog == old(w).catalog
{ unimplemented!() }

// real text of flush_batches after drops/substitutions
fn flush_batches(ing: &Ingester, w: &mut World, batches: Batches, cover: Ghost<int>) -> (r: Result<()>)
    requires durable(*old(w)),
        // every acked WAL entry in (mark, cover] has its rows in `batches` or already in the catalog
        forall|s: int| old(w).acked.contains(s) && old(w).mark < s <= cover@ ==> batches.seqs.contains(s) || old(w).catalog.contains(s),
        ing.last_wal_seq_lower@ <= cover@,
    ensures durable(*final(w)), r is Ok ==> final(w).mark <= cover@ || final(w).mark == old(w).mark,
{
    if batches.n == 0 {
        return Ok(());
    }
    let combined = concat(&batches)?;
    put_object(w, &combined)?;
    assert(durable(*w));
    register_chunk(w, &combined)?;
    assert(durable(*w));
    let flushed_up_to = load_last_wal_seq(ing);
    if flushed_up_to > 0 {
        if let Err(e) = truncate_before(w, flushed_up_to) {
            return Err(e);
        }
        assert(durable(*w));
        if let Err(e) = persist_flushed_seq(w, flushed_up_to) {
        } else {
        }
        assert(durable(*w));
    }
    Ok(())
}

} // verus!
fn main() {}
