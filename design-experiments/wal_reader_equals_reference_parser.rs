use vstd::prelude::*;
verus! {

pub const HEADER_LEN: usize = 22;

pub enum Error { Serialization, Io }
pub type Result<T> = std::result::Result<T, Error>;

pub struct WalEntry { pub seq: u64, pub flags: u8, pub payload: Vec<u8> }

// ---------- spec of the on-disk format ----------
pub uninterp spec fn crc32(p: Seq<u8>) -> u32;
pub uninterp spec fn hdr_ok(h: Seq<u8>) -> bool;          // magic/version/flags accepted
pub uninterp spec fn hdr_seq(h: Seq<u8>) -> u64;
pub uninterp spec fn hdr_flags(h: Seq<u8>) -> u8;
pub uninterp spec fn hdr_len(h: Seq<u8>) -> usize;
pub uninterp spec fn hdr_crc(h: Seq<u8>) -> u32;

/// Reference parser: the longest prefix of well-formed frames.
pub open spec fn parse(b: Seq<u8>) -> Seq<(u64, u8, Seq<u8>)>
    decreases b.len()
{
    if b.len() < 22 { seq![] }
    else {
        let h = b.subrange(0, 22);
        if !hdr_ok(h) { seq![] }
        else {
            let n = hdr_len(h) as int;
            if b.len() < 22 + n { seq![] }
            else {
                let p = b.subrange(22, 22 + n);
                if crc32(p) != hdr_crc(h) { seq![] }
                else { seq![(hdr_seq(h), hdr_flags(h), p)] + parse(b.subrange(22 + n, b.len() as int)) }
            }
        }
    }
}

// ---------- shims for external types (assumed contracts) ----------
pub struct ByteReader { pub data: Vec<u8>, pub pos: usize }
impl ByteReader {
    pub open spec fn rest(&self) -> Seq<u8> { self.data@.subrange(self.pos as int, self.data@.len() as int) }
    pub open spec fn wf(&self) -> bool { self.pos <= self.data@.len() }
}

// assumed contract of std::io::Read::read on a file: reads 1..=buf.len() bytes unless at EOF
#[verifier::external_body]
fn reader_read(reader: &mut ByteReader, buffer: &mut [u8], offset: usize) -> (r: Result<usize>)
    requires old(reader).wf(), offset <= old(buffer)@.len(),
    ensures
        final(reader).wf(), final(reader).data == old(reader).data,
        final(buffer)@.len() == old(buffer)@.len(),
        match r {
            Ok(n) => {
                &&& n <= old(buffer)@.len() - offset
                &&& n <= old(reader).rest().len()
                &&& (n == 0 <==> (old(reader).rest().len() == 0 || old(buffer)@.len() == offset))
                &&& final(reader).pos == old(reader).pos + n
                &&& final(buffer)@ == old(buffer)@.subrange(0, offset as int) + old(reader).rest().subrange(0, n as int) + old(buffer)@.subrange(offset + n, old(buffer)@.len() as int)
            },
            Err(_) => false,
        }
{ unimplemented!() }

fn read_exact_or_eof(reader: &mut ByteReader, buffer: &mut [u8]) -> (r: Result<bool>)
    requires old(reader).wf(),
    ensures final(reader).wf(), final(reader).data == old(reader).data,
        final(buffer)@.len() == old(buffer)@.len(),
        old(buffer)@.len() > 0 ==> match r {
            Ok(true) => old(reader).rest().len() >= old(buffer)@.len()
                && final(buffer)@ == old(reader).rest().subrange(0, old(buffer)@.len() as int)
                && final(reader).pos == old(reader).pos + old(buffer)@.len(),
            Ok(false) => old(reader).rest().len() == 0 && final(reader).pos == old(reader).pos,
            Err(_) => old(reader).rest().len() < old(buffer)@.len(),
        },
        old(buffer)@.len() == 0 ==> r == Ok::<bool, Error>(true) && final(reader).pos == old(reader).pos,
{
    let mut offset = 0;
    while offset < buffer.len()
        invariant
            reader.wf(), reader.data == old(reader).data,
            buffer@.len() == old(buffer)@.len(),
            offset <= buffer@.len(),
            reader.pos == old(reader).pos + offset,
            buffer@.subrange(0, offset as int) == old(reader).rest().subrange(0, offset as int),
            offset <= old(reader).rest().len(),
        decreases buffer@.len() - offset,
    {
        let read = match reader_read(reader, buffer, offset) { Ok(n) => n, Err(e) => return Err(e) };
        if read == 0 {
            if offset == 0 {
                return Ok(false);
            }
            return Err(Error::Serialization);
        }
        offset += read;
    }
    Ok(true)
}


#[verifier::external_body]
fn decode_header(header: &[u8; 22]) -> (r: Result<(u64, u8, usize, u32)>)
    ensures match r {
        Ok((s, f, l, c)) => hdr_ok(header@) && s == hdr_seq(header@) && f == hdr_flags(header@) && l == hdr_len(header@) && c == hdr_crc(header@),
        Err(_) => !hdr_ok(header@),
    }
{ unimplemented!() }

#[verifier::external_body]
fn crc_of(payload: &Vec<u8>) -> (r: u32) ensures r == crc32(payload@) { unimplemented!() }

#[verifier::external_body]
fn zeroed_vec(len: usize) -> (v: Vec<u8>) ensures v@.len() == len { unimplemented!() }

pub open spec fn entry_view(e: WalEntry) -> (u64, u8, Seq<u8>) { (e.seq, e.flags, e.payload@) }

fn read_entries_from_reader(reader: &mut ByteReader) -> (r: Result<Vec<WalEntry>>)
    requires old(reader).wf(),
    ensures match r {
        Ok(entries) => entries@.map_values(|e: WalEntry| entry_view(e)) == parse(old(reader).rest()),
        Err(_) => false,
    }
{
    let mut entries: Vec<WalEntry> = Vec::new();
    loop
        invariant_except_break
            reader.wf(), reader.pos >= old(reader).pos,
            parse(old(reader).rest()) == entries@.map_values(|e: WalEntry| entry_view(e)) + parse(reader.rest()),
        invariant
            reader.data == old(reader).data,
        ensures
            entries@.map_values(|e: WalEntry| entry_view(e)) == parse(old(reader).rest()),
        decreases reader.data@.len() - reader.pos,
    {
        let mut header = [0u8; HEADER_LEN];
        let ghost before = reader.rest();
        let ghost ev = entries@.map_values(|e: WalEntry| entry_view(e));
        match read_exact_or_eof(reader, &mut header) {
            Ok(false) => { proof { assert(parse(before) == Seq::<(u64, u8, Seq<u8>)>::empty()); assert(ev + Seq::<(u64, u8, Seq<u8>)>::empty() == ev); } break }, // Clean EOF
            Ok(true) => {}
            Err(_) => {
                proof { assert(parse(before) == Seq::<(u64, u8, Seq<u8>)>::empty()); assert(ev + Seq::<(u64, u8, Seq<u8>)>::empty() == ev); }
                break;
            }
        }
        proof { assert(header@ == before.subrange(0, 22)); }
        let (seq, flags, len, expected_crc) = match decode_header(&header) {
            Ok(v) => v,
            Err(_) => {
                proof { assert(parse(before) == Seq::<(u64, u8, Seq<u8>)>::empty()); assert(ev + Seq::<(u64, u8, Seq<u8>)>::empty() == ev); }
                break;
            }
        };
        let mut payload = zeroed_vec(len);
        let ghost mid = reader.rest();
        proof { assert(mid == before.subrange(22, before.len() as int)); }
        match read_exact_or_eof(reader, &mut payload) {
            Ok(true) => {}
            _ => {
                proof { assert(len > 0 ==> before.len() < 22 + len); assert(parse(before) == Seq::<(u64, u8, Seq<u8>)>::empty()); assert(ev + Seq::<(u64, u8, Seq<u8>)>::empty() == ev); }
                break;
            }
        }
        proof {
            assert(before.len() >= 22 + len);
            assert(payload@ == before.subrange(22, 22 + len));
            assert(reader.rest() == before.subrange(22 + len, before.len() as int));
        }
        let actual_crc = crc_of(&payload);
        if actual_crc != expected_crc {
            proof { assert(parse(before) == Seq::<(u64, u8, Seq<u8>)>::empty()); assert(ev + Seq::<(u64, u8, Seq<u8>)>::empty() == ev); }
            break;
        }
        entries.push(WalEntry {
            seq,
            flags,
            payload,
        });
        proof {
            let one = seq![(seq, flags, payload@)];
            assert(parse(before) == one + parse(reader.rest()));
            assert(entries@.map_values(|e: WalEntry| entry_view(e)) == ev + one);
            assert((ev + one) + parse(reader.rest()) == ev + (one + parse(reader.rest())));
        }
    }
    Ok(entries)
}

} // verus!
fn main() {}
