use vstd::prelude::*;
verus! {
pub struct Reg { pub elig: bool }
pub struct Asg { pub node: u64 }
#[verifier::external_body]
fn assign_shard(a: &mut Asg, r: &Reg) -> (n: u64) { unimplemented!() }
#[verifier::external_body]
fn unassign(a: &mut Asg) { unimplemented!() }

fn route_write(a: &mut Asg, r: &Reg) -> (res: Option<u64>)
    ensures res is Some ==> r.elig
    decreases 0int
{
    let node_id = assign_shard(a, r);
    if r.elig {
        return Some(node_id);
    } else {
        unassign(a);
        return route_write(a, r);
    }
}
}
fn main() {}
