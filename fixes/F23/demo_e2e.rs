//! F23 end to end (C15): the same harness as seeded/C15/m2 but WITHOUT projecting metric_name through arrow_cast:
//! DataFusion hands string columns back as Utf8View; before the fix dedup_batches passed such batches through.
//! C15 demonstration (m2): queries issued while a shard is in the dual-write /
//! back-fill phase of a split must return each ingested row exactly once -
//! the double-written copies are suppressed, and rows that merely share a
//! timestamp and metric name (different host / value) are all kept.
//!
//! Observed at: QueryNode::query during DualWrite/Backfill vs. the very same
//! query on an identical ingest with no split in progress.

use arrow_array::cast::AsArray;
use arrow_array::types::{Float64Type, Int64Type};
use arrow_array::{Float64Array, Int64Array, RecordBatch, StringArray};
use arrow_schema::{DataType, Field, Schema};
use cardinalsin::ingester::{Ingester, IngesterConfig};
use cardinalsin::metadata::{LocalMetadataClient, MetadataClient};
use cardinalsin::query::{QueryConfig, QueryNode};
use cardinalsin::schema::MetricSchema;
use cardinalsin::sharding::{ShardKey, SplitPhase};
use cardinalsin::StorageConfig;
use object_store::memory::InMemory;
use std::sync::Arc;

/// Split point: one minute ago (queries without a time predicate cover the
/// last hour), fixed once per process so every run sees the same rows.
fn split_ts() -> i64 {
    static SPLIT: std::sync::OnceLock<i64> = std::sync::OnceLock::new();
    *SPLIT.get_or_init(|| chrono::Utc::now().timestamp_nanos_opt().unwrap() - 60_000_000_000)
}

type Row = (i64, String, f64);

fn input_rows() -> Vec<(i64, &'static str, f64)> {
    #[allow(non_snake_case)]
    let SPLIT = split_ts();
    vec![
        (SPLIT - 2, "h1", 1.0),
        (SPLIT - 1, "h1", 2.0),
        (SPLIT - 1, "h2", 3.0), // same ts+metric as previous row, different series
        (SPLIT, "h1", 4.0),
        (SPLIT, "h2", 5.0),
        (SPLIT + 1, "h1", 6.0),
        (SPLIT + 2, "h2", 7.0),
        (SPLIT + 2, "h3", 7.0),
    ]
}

fn make_batch(rows: &[(i64, &str, f64)]) -> RecordBatch {
    let schema = Arc::new(Schema::new(vec![
        Field::new("timestamp", DataType::Int64, false),
        Field::new("metric_name", DataType::Utf8, false),
        Field::new("value_f64", DataType::Float64, false),
        Field::new("host", DataType::Utf8, false),
    ]));
    RecordBatch::try_new(
        schema,
        vec![
            Arc::new(Int64Array::from(
                rows.iter().map(|r| r.0).collect::<Vec<_>>(),
            )),
            Arc::new(StringArray::from(
                rows.iter().map(|_| "cpu").collect::<Vec<_>>(),
            )),
            Arc::new(Float64Array::from(
                rows.iter().map(|r| r.2).collect::<Vec<_>>(),
            )),
            Arc::new(StringArray::from(
                rows.iter().map(|r| r.1).collect::<Vec<_>>(),
            )),
        ],
    )
    .unwrap()
}

fn shard_id_for(metric: &str, ts: i64) -> String {
    let key = ShardKey::new(0, metric, ts);
    format!(
        "shard-{:x}",
        u64::from_be_bytes(key.to_bytes()[0..8].try_into().unwrap())
    )
}

fn collect_rows(batches: &[RecordBatch]) -> Vec<Row> {
    let mut out = Vec::new();
    for b in batches {
        let ts = b.column_by_name("timestamp").unwrap();
        let ts = ts.as_primitive::<Int64Type>();
        let host = b.column_by_name("host").unwrap();
        let host: Vec<String> = if let Some(a) = host.as_string_opt::<i32>() {
            (0..b.num_rows()).map(|i| a.value(i).to_string()).collect()
        } else {
            let a = host.as_string_view();
            (0..b.num_rows()).map(|i| a.value(i).to_string()).collect()
        };
        let val = b.column_by_name("value_f64").unwrap();
        let val = val.as_primitive::<Float64Type>();
        for i in 0..b.num_rows() {
            out.push((ts.value(i), host[i].clone(), val.value(i)));
        }
    }
    out
}

/// Ingest the fixed batch (optionally while a split of its shard is in `phase`),
/// make sure the old-shard copy is flushed, then run `sql` through a QueryNode.
async fn ingest_and_query(phase: Option<SplitPhase>, sql: &str) -> (usize, Vec<Row>) {
    let store = Arc::new(InMemory::new());
    let metadata: Arc<dyn MetadataClient> = Arc::new(LocalMetadataClient::new());
    let rows = input_rows();
    let ingester = Ingester::new(
        IngesterConfig {
            flush_row_count: rows.len(), // old-shard buffer flushes on this write
            ..Default::default()
        },
        store.clone(),
        metadata.clone(),
        StorageConfig::default(),
        MetricSchema::default_metrics(),
    );

    if let Some(phase) = phase {
        let old_shard = shard_id_for("cpu", rows[0].0);
        metadata
            .start_split(
                &old_shard,
                vec!["new-lo".to_string(), "new-hi".to_string()],
                split_ts().to_be_bytes().to_vec(),
            )
            .await
            .unwrap();
        metadata
            .update_split_progress(&old_shard, 0.0, phase)
            .await
            .unwrap();
    }

    ingester.write(make_batch(&rows)).await.unwrap();
    let chunk_count = metadata.list_chunks().await.unwrap().len();

    let node = QueryNode::new(
        QueryConfig::default(),
        store.clone(),
        metadata.clone(),
        StorageConfig::default(),
    )
    .await
    .unwrap();
    let batches = node.query(sql).await.unwrap();
    for b in &batches {
        println!("  result batch: {} rows, schema {:?}", b.num_rows(), b.schema().fields().iter().map(|f| format!("{}:{}", f.name(), f.data_type())).collect::<Vec<_>>());
    }
    (chunk_count, collect_rows(&batches))
}

async fn check(phase: SplitPhase, sql: &str) {
    let mut expected: Vec<Row> = input_rows()
        .into_iter()
        .map(|r| (r.0, r.1.to_string(), r.2))
        .collect();
    expected.sort_by(|a, b| a.partial_cmp(b).unwrap());

    let (base_chunks, mut baseline) = ingest_and_query(None, sql).await;
    baseline.sort_by(|a, b| a.partial_cmp(b).unwrap());
    assert_eq!(base_chunks, 1);
    assert_eq!(baseline, expected, "sanity: no-split query returns the input");

    let (split_chunks, mut during) = ingest_and_query(Some(phase), sql).await;
    during.sort_by(|a, b| a.partial_cmp(b).unwrap());
    println!("phase={:?} sql={}", phase, sql);
    println!("  chunks registered during split: {}", split_chunks);
    println!("  rows without split: {}", baseline.len());
    println!("  rows during split : {}", during.len());
    for r in &during {
        println!("    {:?}", r);
    }
    assert_eq!(split_chunks, 3, "old-shard chunk + one chunk per new shard");
    assert_eq!(
        during, baseline,
        "query during {:?} must return each ingested row exactly once",
        phase
    );
}

// Parquet scans hand string columns back as Utf8View, which the de-duplication
// pass does not interpret (it passes such batches through untouched - on the
// unchanged code too).  Projecting metric_name as plain Utf8 gives the result
// shape the de-duplication pass is written for.
const ORDERED: &str = "SELECT timestamp, metric_name, value_f64, host FROM metrics ORDER BY timestamp, host";
const PLAIN: &str = "SELECT timestamp, metric_name, value_f64, host FROM metrics";

#[tokio::test]
async fn f23_e2e_ordered_query_during_dual_write_is_exact() {
    check(SplitPhase::DualWrite, ORDERED).await;
}

#[tokio::test]
async fn f23_e2e_ordered_query_during_backfill_is_exact() {
    check(SplitPhase::Backfill, ORDERED).await;
}

#[tokio::test]
async fn f23_e2e_plain_scan_during_dual_write_is_exact() {
    check(SplitPhase::DualWrite, PLAIN).await;
}
