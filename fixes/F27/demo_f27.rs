//! F27 (C15) demonstration: a query issued while a shard is in the dual-write phase must never return a
//! double-written row twice -- also when the metadata store has a transient hiccup on the "is a split active?" read.
//! Acceptable outcomes of such a query: an error (the client retries) or the exact rows. Not acceptable: duplicates.
//!
//! The metadata client below fails `has_active_split` a configurable number of times.

use arrow_array::{Array, Float64Array, Int64Array, RecordBatch, StringArray};
use arrow_schema::{DataType, Field, Schema};
use async_trait::async_trait;
use cardinalsin::ingester::{ChunkMetadata, Ingester, IngesterConfig, WalConfig};
use cardinalsin::metadata::{
    CompactionJob, CompactionStatus, LocalMetadataClient, MetadataClient, SplitState,
    TimeIndexEntry, TimeRange,
};
use cardinalsin::query::{QueryConfig, QueryNode};
use cardinalsin::schema::MetricSchema;
use cardinalsin::sharding::{ShardKey, ShardMetadata, SplitPhase};
use cardinalsin::{Error, Result, StorageConfig};
use object_store::memory::InMemory;
use std::sync::atomic::{AtomicUsize, Ordering};
use std::sync::Arc;

struct FlakyMeta {
    inner: Arc<LocalMetadataClient>,
    fail_split_reads: AtomicUsize,
}

#[async_trait]
impl MetadataClient for FlakyMeta {
    async fn register_chunk(&self, path: &str, metadata: &ChunkMetadata) -> Result<()> {
        self.inner.register_chunk(path, metadata).await
    }
    async fn get_chunks(&self, range: TimeRange) -> Result<Vec<TimeIndexEntry>> {
        self.inner.get_chunks(range).await
    }
    async fn get_chunk(&self, path: &str) -> Result<Option<ChunkMetadata>> {
        self.inner.get_chunk(path).await
    }
    async fn delete_chunk(&self, path: &str) -> Result<()> {
        self.inner.delete_chunk(path).await
    }
    async fn list_chunks(&self) -> Result<Vec<TimeIndexEntry>> {
        self.inner.list_chunks().await
    }
    async fn get_l0_candidates(&self, min_count: usize) -> Result<Vec<Vec<String>>> {
        self.inner.get_l0_candidates(min_count).await
    }
    async fn get_level_candidates(
        &self,
        level: usize,
        target_size: usize,
    ) -> Result<Vec<Vec<String>>> {
        self.inner.get_level_candidates(level, target_size).await
    }
    async fn create_compaction_job(&self, job: CompactionJob) -> Result<()> {
        self.inner.create_compaction_job(job).await
    }
    async fn complete_compaction(
        &self,
        source_chunks: &[String],
        target_chunk: &str,
    ) -> Result<()> {
        self.inner
            .complete_compaction(source_chunks, target_chunk)
            .await
    }
    async fn update_compaction_status(&self, job_id: &str, status: CompactionStatus) -> Result<()> {
        self.inner.update_compaction_status(job_id, status).await
    }
    async fn get_pending_compaction_jobs(&self) -> Result<Vec<CompactionJob>> {
        self.inner.get_pending_compaction_jobs().await
    }
    async fn start_split(
        &self,
        old_shard: &str,
        new_shards: Vec<String>,
        split_point: Vec<u8>,
    ) -> Result<()> {
        self.inner
            .start_split(old_shard, new_shards, split_point)
            .await
    }
    async fn get_split_state(&self, shard_id: &str) -> Result<Option<SplitState>> {
        self.inner.get_split_state(shard_id).await
    }
    async fn update_split_progress(
        &self,
        shard_id: &str,
        progress: f64,
        phase: SplitPhase,
    ) -> Result<()> {
        self.inner
            .update_split_progress(shard_id, progress, phase)
            .await
    }
    async fn complete_split(&self, old_shard: &str) -> Result<()> {
        self.inner.complete_split(old_shard).await
    }
    async fn get_chunks_for_shard(&self, shard_id: &str) -> Result<Vec<TimeIndexEntry>> {
        self.inner.get_chunks_for_shard(shard_id).await
    }
    async fn get_shard_metadata(&self, shard_id: &str) -> Result<Option<ShardMetadata>> {
        self.inner.get_shard_metadata(shard_id).await
    }
    async fn update_shard_metadata(
        &self,
        shard_id: &str,
        metadata: &ShardMetadata,
        expected_generation: u64,
    ) -> Result<()> {
        self.inner
            .update_shard_metadata(shard_id, metadata, expected_generation)
            .await
    }
    async fn has_active_split(&self) -> Result<bool> {
        let remaining = self.fail_split_reads.load(Ordering::SeqCst);
        if remaining > 0 {
            self.fail_split_reads.store(remaining - 1, Ordering::SeqCst);
            return Err(Error::Metadata(
                "transient: split state read timed out".to_string(),
            ));
        }
        self.inner.has_active_split().await
    }
}

fn batch(ts: &[i64], hosts: &[&str], values: &[f64]) -> RecordBatch {
    let schema = Arc::new(Schema::new(vec![
        Field::new("timestamp", DataType::Int64, false),
        Field::new("metric_name", DataType::Utf8, false),
        Field::new("value", DataType::Float64, false),
        Field::new("host", DataType::Utf8, false),
    ]));
    RecordBatch::try_new(
        schema,
        vec![
            Arc::new(Int64Array::from(ts.to_vec())),
            Arc::new(StringArray::from(vec!["cpu"; ts.len()])),
            Arc::new(Float64Array::from(values.to_vec())),
            Arc::new(StringArray::from(hosts.to_vec())),
        ],
    )
    .unwrap()
}


fn collect(batches: &[RecordBatch]) -> Vec<(i64, String)> {
    let mut out = Vec::new();
    for b in batches {
        let ts = b.column_by_name("timestamp").unwrap().as_any().downcast_ref::<Int64Array>().unwrap();
        let host = arrow::compute::cast(b.column_by_name("host").unwrap(), &DataType::Utf8).unwrap();
        let host = host.as_any().downcast_ref::<StringArray>().unwrap();
        for i in 0..b.num_rows() {
            out.push((ts.value(i), host.value(i).to_string()));
        }
    }
    out.sort();
    out
}

#[tokio::test]
async fn query_during_dual_write_never_returns_duplicates_despite_transient_split_read_error() {
    let store = Arc::new(InMemory::new());
    let local = Arc::new(LocalMetadataClient::new());
    let meta = Arc::new(FlakyMeta { inner: local.clone(), fail_split_reads: AtomicUsize::new(0) });
    let ingester = Ingester::new(
        IngesterConfig {
            flush_row_count: 1, // every write is flushed, so the old-shard copy is queryable
            wal: WalConfig { enabled: false, ..Default::default() },
            ..Default::default()
        },
        store.clone(),
        meta.clone(),
        StorageConfig::default(),
        MetricSchema::default_metrics(),
    );
    let query = QueryNode::new(QueryConfig::default(), store.clone(), meta.clone(), StorageConfig::default())
        .await
        .unwrap();

    // queries without a time predicate cover the last hour, so use recent timestamps
    let base = chrono::Utc::now().timestamp_nanos_opt().unwrap() - 60_000_000_000;
    let split = base + 1_000;
    let key = ShardKey::new(0, "cpu", base);
    let old_shard = format!("shard-{:x}", u64::from_be_bytes(key.to_bytes()[0..8].try_into().unwrap()));
    meta.start_split(&old_shard, vec!["new-shard-aaaa".to_string(), "new-shard-bbbb".to_string()], split.to_be_bytes().to_vec())
        .await
        .unwrap();
    meta.update_split_progress(&old_shard, 0.0, SplitPhase::DualWrite).await.unwrap();

    ingester
        .write(batch(&[base, base, split, split + 5], &["h0", "h1", "h2", "h3"], &[1.0, 2.0, 3.0, 4.0]))
        .await
        .unwrap();
    let mut expected = vec![
        (base, "h0".to_string()),
        (base, "h1".to_string()),
        (split, "h2".to_string()),
        (split + 5, "h3".to_string()),
    ];
    expected.sort();
    let sql = "SELECT timestamp, metric_name, host FROM metrics";

    // healthy metadata: exact
    let got = collect(&query.query(sql).await.unwrap());
    println!("healthy metadata: {} rows", got.len());
    assert_eq!(got, expected);

    // one transient failure of the split-activity read
    meta.fail_split_reads.store(1, Ordering::SeqCst);
    let mut attempts = 0;
    let got = loop {
        attempts += 1;
        match query.query(sql).await {
            Ok(b) => break collect(&b),
            Err(e) => {
                println!("attempt {} rejected: {}", attempts, e);
                assert!(attempts < 5, "query never answered");
            }
        }
    };
    println!("answered after {} attempt(s): {} rows: {:?}", attempts, got.len(), got);
    assert_eq!(got, expected, "a query answered during DualWrite must contain each ingested row exactly once");
}
