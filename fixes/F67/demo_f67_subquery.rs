//! C12 audit, defect 1: a WHERE clause of an OUTER query block is pushed down to the
//! chunk statistics of the BASE table, although the column it names is a *derived*
//! column of the inner block (`value_f64 * 2 AS value_f64`, `sum(value_f64) AS value_f64`).
//!
//! `QueryEngine::extract_predicates_from_plan` takes the predicate of every
//! `LogicalPlan::Filter` it meets on its way down and identifies columns by bare name
//! only. It never checks that the Filter's input is the plain `metrics` scan. A filter
//! that sits above a Projection / Aggregate / SubqueryAlias which re-defines the name is
//! therefore evaluated against the min/max of the raw column, and chunks whose rows DO
//! contribute to the answer are dropped by `get_chunks_with_predicates`.
//!
//! The statistics in this test are the true min/max of the rows of each chunk. The only
//! difference between the "before" and "after" run of each query is that the catalog
//! carries those (truthful) statistics.

use arrow_array::{Array, Float64Array, Int64Array, RecordBatch, StringArray};
use arrow_schema::{DataType, Field, Schema};
use cardinalsin::ingester::ChunkMetadata;
use cardinalsin::metadata::{
    ColumnStats, MetadataClient, S3MetadataClient, S3MetadataConfig, TimeRange,
};
use cardinalsin::query::{QueryConfig, QueryNode};
use cardinalsin::StorageConfig;
use object_store::memory::InMemory;
use object_store::ObjectStore;
use std::sync::Arc;

fn schema() -> Arc<Schema> {
    Arc::new(Schema::new(vec![
        Field::new("timestamp", DataType::Int64, false),
        Field::new("metric_name", DataType::Utf8, false),
        Field::new("value_f64", DataType::Float64, false),
        Field::new("host", DataType::Utf8, false),
    ]))
}

struct Chunk {
    path: &'static str,
    ts: Vec<i64>,
    metric: &'static str,
    values: Vec<f64>,
    host: &'static str,
}

/// Write the chunk as a Parquet object and register it (no statistics yet).
async fn put_chunk(store: &Arc<InMemory>, meta: &S3MetadataClient, c: &Chunk) {
    let n = c.ts.len();
    let batch = RecordBatch::try_new(
        schema(),
        vec![
            Arc::new(Int64Array::from(c.ts.clone())),
            Arc::new(StringArray::from(vec![c.metric; n])),
            Arc::new(Float64Array::from(c.values.clone())),
            Arc::new(StringArray::from(vec![c.host; n])),
        ],
    )
    .unwrap();
    let mut buf = Vec::new();
    {
        let mut w = parquet::arrow::ArrowWriter::try_new(&mut buf, schema(), None).unwrap();
        w.write(&batch).unwrap();
        w.close().unwrap();
    }
    let size = buf.len() as u64;
    store
        .put(&object_store::path::Path::from(c.path), buf.into())
        .await
        .unwrap();
    meta.register_chunk(
        c.path,
        &ChunkMetadata {
            path: c.path.to_string(),
            min_timestamp: *c.ts.iter().min().unwrap(),
            max_timestamp: *c.ts.iter().max().unwrap(),
            row_count: n as u64,
            size_bytes: size,
        },
    )
    .await
    .unwrap();
}

/// Attach the TRUE per-column min / max of every chunk to the catalog.
async fn attach_true_stats(meta: &S3MetadataClient, chunks: &[Chunk]) {
    let mut all = meta.load_chunk_metadata().await.unwrap();
    for c in chunks {
        let e = all.get_mut(c.path).expect("chunk registered");
        let vmin = c.values.iter().cloned().fold(f64::INFINITY, f64::min);
        let vmax = c.values.iter().cloned().fold(f64::NEG_INFINITY, f64::max);
        e.column_stats.insert(
            "value_f64".into(),
            ColumnStats {
                min: serde_json::json!(vmin),
                max: serde_json::json!(vmax),
                has_nulls: false,
            },
        );
        e.column_stats.insert(
            "metric_name".into(),
            ColumnStats {
                min: serde_json::json!(c.metric),
                max: serde_json::json!(c.metric),
                has_nulls: false,
            },
        );
        e.column_stats.insert(
            "host".into(),
            ColumnStats {
                min: serde_json::json!(c.host),
                max: serde_json::json!(c.host),
                has_nulls: false,
            },
        );
    }
    meta.save_chunk_metadata(&all).await.unwrap();
}

/// All f64 values of the named column of the result, sorted.
fn f64_column(batches: &[RecordBatch], name: &str) -> Vec<f64> {
    let mut out = Vec::new();
    for b in batches {
        let col = b
            .column_by_name(name)
            .unwrap_or_else(|| panic!("no column {name} in {:?}", b.schema()));
        let col = col.as_any().downcast_ref::<Float64Array>().unwrap();
        for i in 0..col.len() {
            out.push(col.value(i));
        }
    }
    out.sort_by(|a, b| a.partial_cmp(b).unwrap());
    out
}

fn ts(base: i64, k: i64) -> Vec<i64> {
    (0..5).map(|i| base + k * 1_000_000 + i).collect()
}

async fn setup(chunks_for: fn(i64) -> Vec<Chunk>) -> (Arc<S3MetadataClient>, QueryNode, Vec<Chunk>) {
    let store = Arc::new(InMemory::new());
    let meta = Arc::new(S3MetadataClient::new(
        store.clone(),
        S3MetadataConfig {
            bucket: "cardinalsin-data".into(),
            metadata_prefix: "metadata/".into(),
            enable_cache: true,
            allow_unsafe_overwrite: false,
        },
    ));

    // Ten minutes ago, so that the rows are inside every time range the engine can
    // come up with (explicit bound, unbounded, or the "last hour" default).
    let now = chrono::Utc::now().timestamp_nanos_opt().unwrap();
    let base = now - 600 * 1_000_000_000;

    let chunks = chunks_for(base);
    for c in &chunks {
        put_chunk(&store, &meta, c).await;
    }

    let node = QueryNode::new(
        QueryConfig::default(),
        store.clone() as Arc<dyn ObjectStore>,
        meta.clone() as Arc<dyn MetadataClient>,
        StorageConfig::default(),
    )
    .await
    .unwrap();
    (meta, node, chunks)
}

/// Which chunks does the catalog hand out for this statement?
async fn selected_chunks(node: &QueryNode, meta: &S3MetadataClient, sql: &str) -> Vec<String> {
    let preds = node.engine.extract_column_predicates(sql).await.unwrap();
    println!("  extracted predicates: {:?}", preds);
    let mut v: Vec<String> = meta
        .get_chunks_with_predicates(TimeRange::new(i64::MIN, i64::MAX), &preds)
        .await
        .unwrap()
        .into_iter()
        .map(|e| e.chunk_path)
        .collect();
    v.sort();
    v
}

fn two_cpu_chunks(base: i64) -> Vec<Chunk> {
    vec![
        // value in [60, 80]
        Chunk {
            path: "default/data/chunk_high.parquet",
            ts: ts(base, 0),
            metric: "cpu",
            values: vec![60.0, 65.0, 70.0, 75.0, 80.0],
            host: "h1",
        },
        // value in [10, 30]
        Chunk {
            path: "default/data/chunk_low.parquet",
            ts: ts(base, 1),
            metric: "cpu",
            values: vec![10.0, 15.0, 20.0, 25.0, 30.0],
            host: "h1",
        },
    ]
}

/// `value_f64 * 2 AS value_f64` in a derived table, filtered by the outer block.
#[tokio::test(flavor = "multi_thread", worker_threads = 2)]
async fn outer_filter_on_derived_column_prunes_matching_chunk() {
    let (meta, node, chunks) = setup(two_cpu_chunks).await;

    // Every row of chunk_high has value_f64*2 in [120, 160] > 100: five matching rows.
    let sql = "SELECT metric_name, value_f64 \
               FROM (SELECT metric_name, value_f64 * 2 AS value_f64 FROM metrics) t \
               WHERE value_f64 > 100.0";

    let before = f64_column(&node.query(sql).await.unwrap(), "value_f64");
    println!("without statistics: {:?}", before);
    assert_eq!(
        before,
        vec![120.0, 130.0, 140.0, 150.0, 160.0],
        "sanity: the unpruned query returns the five doubled rows of chunk_high"
    );

    attach_true_stats(&meta, &chunks).await;
    let kept = selected_chunks(&node, &meta, sql).await;
    println!("chunks handed out with true statistics: {:?}", kept);

    let after = f64_column(&node.query(sql).await.unwrap(), "value_f64");
    println!("with true statistics:  {:?}", after);

    assert_eq!(
        after, before,
        "C12 VIOLATED: after attaching the chunks' TRUE min/max statistics the query lost rows. \
         chunk_high (value_f64 in [60,80]) was dropped because the OUTER predicate `value_f64 > 100.0` \
         - which is about the derived column `value_f64 * 2 AS value_f64` - was evaluated against the \
         statistics of the raw column; all five of its rows (120..160 after doubling) satisfy the \
         query. Chunks kept: {:?}",
        kept
    );
}

/// `sum(value_f64) AS value_f64` in a derived table, filtered by the outer block: one of
/// two contributing chunks is dropped and the sum is silently wrong.
#[tokio::test(flavor = "multi_thread", worker_threads = 2)]
async fn outer_filter_on_aggregate_alias_prunes_contributing_chunk() {
    let (meta, node, chunks) = setup(two_cpu_chunks).await;

    // sum over both chunks: 350 + 100 = 450
    let sql = "SELECT metric_name, value_f64 \
               FROM (SELECT metric_name, sum(value_f64) AS value_f64 FROM metrics \
                     GROUP BY metric_name) t \
               WHERE value_f64 > 70.0";

    let before = f64_column(&node.query(sql).await.unwrap(), "value_f64");
    println!("without statistics: {:?}", before);
    assert_eq!(before, vec![450.0], "sanity: unpruned sum is 450");

    attach_true_stats(&meta, &chunks).await;
    let kept = selected_chunks(&node, &meta, sql).await;
    println!("chunks handed out with true statistics: {:?}", kept);

    let after = f64_column(&node.query(sql).await.unwrap(), "value_f64");
    println!("with true statistics:  {:?}", after);

    assert_eq!(
        after, before,
        "C12 VIOLATED: with the chunks' TRUE statistics in the catalog the per-metric sum changed \
         from 450 to {:?}: chunk_low (value_f64 in [10,30]) was dropped because the OUTER predicate \
         `value_f64 > 70.0` - which is about `sum(value_f64) AS value_f64` - was evaluated against the \
         raw column's max; every row of that chunk contributes to the one group that satisfies the \
         predicate. Chunks kept: {:?}",
        after, kept
    );
}
