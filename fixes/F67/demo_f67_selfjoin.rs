//! C12 audit, defect 2: in a self-join of `metrics` the predicates of BOTH sides are
//! applied, by bare column name, to every chunk.
//!
//! `convert_expr_to_predicate` keeps `col.name` and throws the relation qualifier away, and
//! `extract_predicates_from_plan` takes the predicate of a Filter that sits above a Join.
//! `WHERE a.metric_name = 'cpu' AND b.metric_name = 'mem'` therefore becomes
//! `And(Eq(metric_name,'cpu'), Eq(metric_name,'mem'))`, which no chunk holding a single
//! metric can pass: the chunk with the cpu rows fails the `mem` half, the chunk with the
//! mem rows fails the `cpu` half, both are dropped and the join is empty - although the
//! rows of each chunk satisfy the part of the WHERE clause that is about them.
//!
//! The statistics are the true min/max of the rows of each chunk.

use arrow_array::{Array, Float64Array, Int64Array, RecordBatch, StringArray};
use arrow_schema::{DataType, Field, Schema};
use cardinalsin::ingester::ChunkMetadata;
use cardinalsin::metadata::{
    ColumnStats, MetadataClient, S3MetadataClient, S3MetadataConfig, TimeRange,
};
use cardinalsin::query::{QueryConfig, QueryNode};
use cardinalsin::StorageConfig;
use object_store::memory::InMemory;
use object_store::ObjectStore;
use std::sync::Arc;

fn schema() -> Arc<Schema> {
    Arc::new(Schema::new(vec![
        Field::new("timestamp", DataType::Int64, false),
        Field::new("metric_name", DataType::Utf8, false),
        Field::new("value_f64", DataType::Float64, false),
        Field::new("host", DataType::Utf8, false),
    ]))
}

struct Chunk {
    path: &'static str,
    ts: Vec<i64>,
    metric: &'static str,
    values: Vec<f64>,
    host: &'static str,
}

/// Write the chunk as a Parquet object and register it (no statistics yet).
async fn put_chunk(store: &Arc<InMemory>, meta: &S3MetadataClient, c: &Chunk) {
    let n = c.ts.len();
    let batch = RecordBatch::try_new(
        schema(),
        vec![
            Arc::new(Int64Array::from(c.ts.clone())),
            Arc::new(StringArray::from(vec![c.metric; n])),
            Arc::new(Float64Array::from(c.values.clone())),
            Arc::new(StringArray::from(vec![c.host; n])),
        ],
    )
    .unwrap();
    let mut buf = Vec::new();
    {
        let mut w = parquet::arrow::ArrowWriter::try_new(&mut buf, schema(), None).unwrap();
        w.write(&batch).unwrap();
        w.close().unwrap();
    }
    let size = buf.len() as u64;
    store
        .put(&object_store::path::Path::from(c.path), buf.into())
        .await
        .unwrap();
    meta.register_chunk(
        c.path,
        &ChunkMetadata {
            path: c.path.to_string(),
            min_timestamp: *c.ts.iter().min().unwrap(),
            max_timestamp: *c.ts.iter().max().unwrap(),
            row_count: n as u64,
            size_bytes: size,
        },
    )
    .await
    .unwrap();
}

/// Attach the TRUE per-column min / max of every chunk to the catalog.
async fn attach_true_stats(meta: &S3MetadataClient, chunks: &[Chunk]) {
    let mut all = meta.load_chunk_metadata().await.unwrap();
    for c in chunks {
        let e = all.get_mut(c.path).expect("chunk registered");
        let vmin = c.values.iter().cloned().fold(f64::INFINITY, f64::min);
        let vmax = c.values.iter().cloned().fold(f64::NEG_INFINITY, f64::max);
        e.column_stats.insert(
            "value_f64".into(),
            ColumnStats {
                min: serde_json::json!(vmin),
                max: serde_json::json!(vmax),
                has_nulls: false,
            },
        );
        e.column_stats.insert(
            "metric_name".into(),
            ColumnStats {
                min: serde_json::json!(c.metric),
                max: serde_json::json!(c.metric),
                has_nulls: false,
            },
        );
        e.column_stats.insert(
            "host".into(),
            ColumnStats {
                min: serde_json::json!(c.host),
                max: serde_json::json!(c.host),
                has_nulls: false,
            },
        );
    }
    meta.save_chunk_metadata(&all).await.unwrap();
}

/// All f64 values of the named column of the result, sorted.
fn f64_column(batches: &[RecordBatch], name: &str) -> Vec<f64> {
    let mut out = Vec::new();
    for b in batches {
        let col = b
            .column_by_name(name)
            .unwrap_or_else(|| panic!("no column {name} in {:?}", b.schema()));
        let col = col.as_any().downcast_ref::<Float64Array>().unwrap();
        for i in 0..col.len() {
            out.push(col.value(i));
        }
    }
    out.sort_by(|a, b| a.partial_cmp(b).unwrap());
    out
}

fn ts(base: i64, k: i64) -> Vec<i64> {
    (0..5).map(|i| base + k * 1_000_000 + i).collect()
}

async fn setup(chunks_for: fn(i64) -> Vec<Chunk>) -> (Arc<S3MetadataClient>, QueryNode, Vec<Chunk>) {
    let store = Arc::new(InMemory::new());
    let meta = Arc::new(S3MetadataClient::new(
        store.clone(),
        S3MetadataConfig {
            bucket: "cardinalsin-data".into(),
            metadata_prefix: "metadata/".into(),
            enable_cache: true,
            allow_unsafe_overwrite: false,
        },
    ));

    // Ten minutes ago, so that the rows are inside every time range the engine can
    // come up with (explicit bound, unbounded, or the "last hour" default).
    let now = chrono::Utc::now().timestamp_nanos_opt().unwrap();
    let base = now - 600 * 1_000_000_000;

    let chunks = chunks_for(base);
    for c in &chunks {
        put_chunk(&store, &meta, c).await;
    }

    let node = QueryNode::new(
        QueryConfig::default(),
        store.clone() as Arc<dyn ObjectStore>,
        meta.clone() as Arc<dyn MetadataClient>,
        StorageConfig::default(),
    )
    .await
    .unwrap();
    (meta, node, chunks)
}

/// Which chunks does the catalog hand out for this statement?
async fn selected_chunks(node: &QueryNode, meta: &S3MetadataClient, sql: &str) -> Vec<String> {
    let preds = node.engine.extract_column_predicates(sql).await.unwrap();
    println!("  extracted predicates: {:?}", preds);
    let mut v: Vec<String> = meta
        .get_chunks_with_predicates(TimeRange::new(i64::MIN, i64::MAX), &preds)
        .await
        .unwrap()
        .into_iter()
        .map(|e| e.chunk_path)
        .collect();
    v.sort();
    v
}

fn cpu_and_mem_chunks(base: i64) -> Vec<Chunk> {
    vec![
        Chunk {
            path: "default/data/chunk_cpu.parquet",
            ts: ts(base, 0),
            metric: "cpu",
            values: vec![1.0, 2.0, 3.0, 4.0, 5.0],
            host: "h1",
        },
        // same timestamps, other metric
        Chunk {
            path: "default/data/chunk_mem.parquet",
            ts: ts(base, 0),
            metric: "mem",
            values: vec![100.0, 200.0, 300.0, 400.0, 500.0],
            host: "h1",
        },
    ]
}

#[tokio::test(flavor = "multi_thread", worker_threads = 2)]
async fn self_join_predicates_of_both_sides_prune_every_chunk() {
    let (meta, node, chunks) = setup(cpu_and_mem_chunks).await;

    // Correlate two metrics on the timestamp: five pairs.
    let sql = "SELECT a.timestamp, a.value_f64 AS cpu, b.value_f64 AS mem \
               FROM metrics a JOIN metrics b ON a.timestamp = b.timestamp \
               WHERE a.metric_name = 'cpu' AND b.metric_name = 'mem'";

    let before = node.query(sql).await.unwrap();
    let before_cpu = f64_column(&before, "cpu");
    let before_mem = f64_column(&before, "mem");
    println!("without statistics: cpu={:?} mem={:?}", before_cpu, before_mem);
    assert_eq!(before_cpu, vec![1.0, 2.0, 3.0, 4.0, 5.0], "sanity: five joined rows");
    assert_eq!(before_mem, vec![100.0, 200.0, 300.0, 400.0, 500.0]);

    attach_true_stats(&meta, &chunks).await;
    let kept = selected_chunks(&node, &meta, sql).await;
    println!("chunks handed out with true statistics: {:?}", kept);

    let after = node.query(sql).await.unwrap();
    let after_cpu = f64_column(&after, "cpu");
    println!("with true statistics:  cpu={:?}", after_cpu);

    assert_eq!(
        after_cpu, before_cpu,
        "C12 VIOLATED: with the chunks' TRUE statistics in the catalog the self-join lost its rows. \
         chunk_cpu (metric_name in ['cpu','cpu']) was dropped by `b.metric_name = 'mem'` and \
         chunk_mem (metric_name in ['mem','mem']) by `a.metric_name = 'cpu'`: the relation \
         qualifier is ignored, so each side's predicate gates the chunks of the other side too. \
         Chunks kept: {:?}",
        kept
    );
}
