//! C08 defect 2: ONE unsuccessful renewal ends lease renewal for good, so a live compactor
//! that is still working loses its lease to another node and is never told.
//!
//! `Compactor::spawn_lease_renewal` renews every 120 s against a 300 s TTL, i.e. it is
//! built to survive a missed renewal (the renewal at +240 s is still in time).  But the
//! loop `break`s on the first `Err` of `renew_lease`, whatever the error.  `renew_lease`
//! returns `Error::TooManyRetries` when it loses five CAS races on compaction-leases.json,
//! which is one single file shared by every lease operation of every compactor -- the
//! property's quantifier names exactly this case ("conflict-retry exhaustion").  After that
//! nobody renews the lease any more although the compaction goes on, nothing tells the
//! compaction (`compact_l0` never looks at the renewal task's outcome and never re-checks
//! its lease), the lease runs out 300 s after it was acquired and `acquire_lease` hands the
//! same chunks to a second compactor while the first one is still merging them.
//!
//! Time is advanced as in defect 1: the lease code only compares timestamps stored in the
//! lease file with `chrono::Utc::now()`, so moving every node's clock forward by D is the
//! same as shifting every stored timestamp back by D; tokio's paused timer clock is
//! advanced by the same D so the 120 s renewal interval fires when it should.

use async_trait::async_trait;
use cardinalsin::compactor::{Compactor, CompactorConfig};
use cardinalsin::ingester::ChunkMetadata;
use cardinalsin::metadata::{
    CompactionLeases, LeaseStatus, MetadataClient, S3MetadataClient, S3MetadataConfig,
};
use cardinalsin::sharding::{HotShardConfig, ShardMonitor};
use cardinalsin::StorageConfig;
use futures::stream::BoxStream;
use futures::StreamExt;
use object_store::memory::InMemory;
use object_store::path::Path;
use object_store::{
    GetOptions, GetResult, ListResult, MultipartUpload, ObjectMeta, ObjectStore, PutMultipartOpts,
    PutOptions, PutPayload, PutResult,
};
use std::fmt;
use std::sync::atomic::{AtomicUsize, Ordering};
use std::sync::Arc;
use std::time::Duration;

fn cfg() -> S3MetadataConfig {
    S3MetadataConfig {
        bucket: "test-bucket".to_string(),
        metadata_prefix: "test/".to_string(),
        enable_cache: false,
        allow_unsafe_overwrite: false,
    }
}

/// Node A's view of the bucket.  It injects NO errors.  It only fixes the interleaving:
///  * reading a source chunk takes very long (a big compaction), and
///  * while `races_left > 0`, just before each of A's conditional PUTs of the lease file
///    reaches the store, another node (C) completes an ordinary `acquire_lease` on
///    unrelated chunks.  A's PUT then legitimately loses the CAS race.
struct NodeAStore {
    inner: Arc<InMemory>,
    node_c: S3MetadataClient,
    races_left: AtomicUsize,
    races_done: AtomicUsize,
    lease_puts_ok: AtomicUsize,
}

impl fmt::Debug for NodeAStore {
    fn fmt(&self, f: &mut fmt::Formatter<'_>) -> fmt::Result {
        write!(f, "NodeAStore")
    }
}
impl fmt::Display for NodeAStore {
    fn fmt(&self, f: &mut fmt::Formatter<'_>) -> fmt::Result {
        write!(f, "NodeAStore")
    }
}

#[async_trait]
impl ObjectStore for NodeAStore {
    async fn put_opts(
        &self,
        location: &Path,
        payload: PutPayload,
        opts: PutOptions,
    ) -> object_store::Result<PutResult> {
        let is_lease_file = location.to_string().ends_with("compaction-leases.json");
        if is_lease_file {
            let raced = self
                .races_left
                .fetch_update(Ordering::SeqCst, Ordering::SeqCst, |n| n.checked_sub(1))
                .is_ok();
            if raced {
                let n = self.races_done.fetch_add(1, Ordering::SeqCst);
                self.node_c
                    .acquire_lease("node-C", &[format!("unrelated_{}.parquet", n)], 1)
                    .await
                    .expect("node C's acquire on unrelated chunks");
            }
        }
        let res = self.inner.put_opts(location, payload, opts).await;
        if is_lease_file && res.is_ok() {
            self.lease_puts_ok.fetch_add(1, Ordering::SeqCst);
        }
        res
    }
    async fn put_multipart_opts(
        &self,
        location: &Path,
        opts: PutMultipartOpts,
    ) -> object_store::Result<Box<dyn MultipartUpload>> {
        self.inner.put_multipart_opts(location, opts).await
    }
    async fn get_opts(
        &self,
        location: &Path,
        options: GetOptions,
    ) -> object_store::Result<GetResult> {
        if location.to_string().ends_with(".parquet") {
            // A long-running merge: the source chunk takes 2000 s to arrive.
            tokio::time::sleep(Duration::from_secs(2000)).await;
        }
        self.inner.get_opts(location, options).await
    }
    async fn delete(&self, location: &Path) -> object_store::Result<()> {
        self.inner.delete(location).await
    }
    fn list(&self, prefix: Option<&Path>) -> BoxStream<'_, object_store::Result<ObjectMeta>> {
        self.inner.list(prefix)
    }
    async fn list_with_delimiter(&self, prefix: Option<&Path>) -> object_store::Result<ListResult> {
        self.inner.list_with_delimiter(prefix).await
    }
    async fn copy(&self, from: &Path, to: &Path) -> object_store::Result<()> {
        self.inner.copy(from, to).await
    }
    async fn copy_if_not_exists(&self, from: &Path, to: &Path) -> object_store::Result<()> {
        self.inner.copy_if_not_exists(from, to).await
    }
}

async fn lease_file_location(store: &InMemory) -> Path {
    let mut listing = store.list(None);
    while let Some(meta) = listing.next().await {
        let meta = meta.unwrap();
        if meta.location.to_string().ends_with("compaction-leases.json") {
            return meta.location;
        }
    }
    panic!("no compaction-leases.json in the store");
}

/// Let `secs` (> 10) seconds pass for every node; see the module comment.
async fn let_time_pass(store: &InMemory, secs: i64) {
    let loc = lease_file_location(store).await;
    let bytes = store.get(&loc).await.unwrap().bytes().await.unwrap();
    let mut leases: CompactionLeases = serde_json::from_slice(&bytes).unwrap();
    for lease in leases.leases.values_mut() {
        lease.acquired_at -= chrono::Duration::seconds(secs);
        lease.expires_at -= chrono::Duration::seconds(secs);
    }
    store
        .put(&loc, serde_json::to_vec_pretty(&leases).unwrap().into())
        .await
        .unwrap();

    tokio::time::advance(Duration::from_secs(secs as u64 - 10)).await;
    // 10 s for background tasks to finish whatever the advance woke up (a whole
    // renew_lease CAS loop with its back-off takes 3.1 s), so that the next raw rewrite of
    // the lease file above never lands in the middle of a lease operation.
    tokio::time::sleep(Duration::from_secs(10)).await;
}

#[tokio::test(start_paused = true)]
async fn one_lost_renewal_hands_a_live_compactors_chunks_to_another_node() {
    let inner = Arc::new(InMemory::new());

    let store_a = Arc::new(NodeAStore {
        inner: inner.clone(),
        node_c: S3MetadataClient::new(inner.clone(), cfg()),
        races_left: AtomicUsize::new(0),
        races_done: AtomicUsize::new(0),
        lease_puts_ok: AtomicUsize::new(0),
    });
    let meta_a: Arc<dyn MetadataClient> = Arc::new(S3MetadataClient::new(store_a.clone(), cfg()));
    let meta_b = S3MetadataClient::new(inner.clone(), cfg());

    // Two L0 chunks in one hour bucket => one L0 compaction group.
    let group: Vec<String> = vec!["l0_a.parquet".to_string(), "l0_b.parquet".to_string()];
    for (i, path) in group.iter().enumerate() {
        let chunk = ChunkMetadata {
            path: path.clone(),
            min_timestamp: 1_000 + i as i64,
            max_timestamp: 2_000 + i as i64,
            row_count: 10,
            size_bytes: 1024,
        };
        meta_b.register_chunk(path, &chunk).await.unwrap();
    }

    let compactor_a = Arc::new(Compactor::new(
        CompactorConfig {
            l0_merge_threshold: 2,
            sharding_enabled: false,
            ..Default::default()
        },
        store_a.clone(),
        meta_a.clone(),
        StorageConfig::default(),
        Arc::new(ShardMonitor::new(HotShardConfig::default())),
    ));

    // t = 0: A starts a (long) compaction of the group.
    let running = {
        let c = compactor_a.clone();
        tokio::spawn(async move { c.run_compaction_cycle().await })
    };
    tokio::time::sleep(Duration::from_secs(1)).await;

    let leases = meta_b.load_leases().await.unwrap();
    assert_eq!(leases.leases.len(), 1, "precondition: A holds one lease");
    let lease_a = leases.leases.values().next().unwrap().clone();
    assert_eq!(lease_a.status, LeaseStatus::Active);
    {
        let mut leased = lease_a.chunks.clone();
        leased.sort();
        assert_eq!(leased, group, "precondition: the lease covers the L0 group");
    }
    assert_eq!(store_a.lease_puts_ok.load(Ordering::SeqCst), 1);
    println!(
        "t=0    node A ({}) acquired lease {} and is merging",
        lease_a.holder_id, lease_a.lease_id
    );

    // From now on A's next five conditional PUTs of the lease file each lose the race
    // against an ordinary lease operation of node C (that is: A's first renewal, at
    // t = 120 s, exhausts its five CAS attempts).
    store_a.races_left.store(5, Ordering::SeqCst);

    let mut t = 0;
    for _ in 0..4 {
        let_time_pass(&inner, 100).await;
        t += 100;
        let now = chrono::Utc::now();
        let leases = meta_b.load_leases().await.unwrap();
        let l = leases.leases.get(&lease_a.lease_id);
        println!(
            "t={:<4} A still compacting: {}; A's lease: {}; CAS races A lost: {}; A's successful lease-file PUTs: {}",
            t,
            !running.is_finished(),
            match l {
                Some(l) => format!(
                    "{:?}, expires in {} s",
                    l.status,
                    (l.expires_at - now).num_seconds()
                ),
                None => "gone".to_string(),
            },
            store_a.races_done.load(Ordering::SeqCst),
            store_a.lease_puts_ok.load(Ordering::SeqCst),
        );
    }

    // t = 400 s.  A's compaction is still running, node A is healthy (not one request of
    // it has failed with an I/O error), and after the lost renewal at t = 120 s it had two
    // more renewal slots (t = 240 s) before the TTL ran out at t = 300 s.
    assert!(
        !running.is_finished(),
        "precondition: A's compaction must still be in progress"
    );
    assert_eq!(
        store_a.races_done.load(Ordering::SeqCst),
        5,
        "precondition: exactly one renew_lease call of A exhausted its five CAS attempts"
    );

    let res = meta_b.acquire_lease("node-B", &group, 0).await;
    assert!(
        matches!(res, Err(cardinalsin::Error::ChunksAlreadyLeased(_))),
        "C08 VIOLATED (live holder's lease handed to someone else): at t=400 s node A is still \
         compacting {:?} under lease {} and has never been told that it lost it, but node B's \
         acquire_lease on the same chunks returned {}. A's renewal task gave up for good after a \
         single renew_lease call lost five CAS races at t=120 s (it made {} successful lease-file \
         PUTs in total: the acquire only), although renewing at t=240 s would still have been in time.",
        group,
        lease_a.lease_id,
        match &res {
            Ok(l) => format!(
                "Ok(lease {} held by {}, chunks {:?})",
                l.lease_id, l.holder_id, l.chunks
            ),
            Err(e) => format!("Err({:?})", e),
        },
        store_a.lease_puts_ok.load(Ordering::SeqCst),
    );
}
