#!/bin/bash
# usage: suite_at.sh <commit> <target-dir> <log>
c=$1; t=$2; log=$3; wt=/var/tmp/suite-$c
export CARGO_NET_OFFLINE=true CARGO_INCREMENTAL=0 CARGO_TARGET_DIR=$t
git -C /repo worktree remove --force $wt 2>/dev/null
git -C /repo worktree add --detach $wt $c -q || exit 2
cd $wt && find src tests -name '*.rs' -exec touch {} + && cargo nextest run --workspace --no-fail-fast --test-threads 6 --offline > $log.full 2>&1
grep -E "^\s+(FAIL|TIMEOUT)|Summary" $log.full > $log; rm -f $log.full
cd /; git -C /repo worktree remove --force $wt
find $t/debug/deps -type f -size +50M ! -name '*.rlib' ! -name '*.rmeta' ! -name '*.so' -delete 2>/dev/null
