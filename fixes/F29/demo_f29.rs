//! F29 (C13): of several shard-metadata updates based on the same generation at most one succeeds -- also on the in-memory
//! backend when the updates run on different threads, and the routing cache never goes back to an older generation.
use cardinalsin::metadata::{LocalMetadataClient, MetadataClient};
use cardinalsin::sharding::{ShardKey, ShardMetadata, ShardRouter, ShardState};
use std::sync::atomic::{AtomicUsize, Ordering};
use std::sync::{Arc, Barrier};

fn shard(id: &str, generation: u64) -> ShardMetadata {
    ShardMetadata {
        shard_id: id.to_string(),
        generation,
        key_range: (vec![0u8; 8], vec![255u8; 8]),
        replicas: vec![],
        state: ShardState::Active,
        min_time: 0,
        max_time: 1,
    }
}

#[test]
fn at_most_one_same_generation_update_succeeds_on_the_in_memory_backend() {
    const THREADS: usize = 8;
    let rounds: usize = std::env::var("F29_ROUNDS").ok().and_then(|v| v.parse().ok()).unwrap_or(20_000);
    let client = Arc::new(LocalMetadataClient::new());
    let double_wins = Arc::new(AtomicUsize::new(0));
    let barrier = Arc::new(Barrier::new(THREADS));
    let wins: Arc<Vec<AtomicUsize>> = Arc::new((0..rounds).map(|_| AtomicUsize::new(0)).collect());
    let handles: Vec<_> = (0..THREADS)
        .map(|_| {
            let (client, barrier, wins) = (client.clone(), barrier.clone(), wins.clone());
            std::thread::spawn(move || {
                let rt = tokio::runtime::Builder::new_current_thread().build().unwrap();
                for round in 0..rounds {
                    let id = format!("shard-{round}");
                    barrier.wait();
                    // every thread creates the shard (expected generation 0): at most one may win
                    if rt.block_on(client.update_shard_metadata(&id, &shard(&id, 0), 0)).is_ok() {
                        wins[round].fetch_add(1, Ordering::SeqCst);
                    }
                }
            })
        })
        .collect();
    for h in handles {
        h.join().unwrap();
    }
    for w in wins.iter() {
        if w.load(Ordering::SeqCst) > 1 {
            double_wins.fetch_add(1, Ordering::SeqCst);
        }
    }
    let n = double_wins.load(Ordering::SeqCst);
    println!("rounds with more than one successful creation of the same shard: {n} of {rounds}");
    assert_eq!(n, 0, "several creators / same-generation updates succeeded");
}

#[test]
fn routing_cache_never_goes_back_to_an_older_generation() {
    let rounds: usize = std::env::var("F29_ROUNDS").ok().and_then(|v| v.parse().ok()).unwrap_or(20_000);
    let router = Arc::new(ShardRouter::new(std::time::Duration::from_secs(3600)));
    let barrier = Arc::new(Barrier::new(2));
    let regressions = Arc::new(AtomicUsize::new(0));
    let key = ShardKey::new(0, "cpu", 0);
    // per round: one thread publishes generation 5 of the shard, the other generation 4, concurrently
    let a = {
        let (router, barrier) = (router.clone(), barrier.clone());
        std::thread::spawn(move || {
            for _ in 0..rounds {
                barrier.wait();
                router.update_routing(shard("s", 5));
                barrier.wait();
                barrier.wait();
            }
        })
    };
    let b = {
        let (router, barrier, regressions) = (router.clone(), barrier.clone(), regressions.clone());
        std::thread::spawn(move || {
            for _ in 0..rounds {
                barrier.wait();
                router.update_routing(shard("s", 4));
                barrier.wait();
                // both updates are done: the newer generation must have survived
                if router.get_shard(&key).map(|s| s.generation) != Some(5) {
                    regressions.fetch_add(1, Ordering::SeqCst);
                }
                router.invalidate_all();
                barrier.wait();
            }
        })
    };
    a.join().unwrap();
    b.join().unwrap();
    let n = regressions.load(Ordering::SeqCst);
    println!("rounds in which generation 4 overwrote generation 5 in the routing cache: {n} of {rounds}");
    assert_eq!(n, 0);
}
