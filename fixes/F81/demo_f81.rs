//! C19 defect 1: `ShardAssignment::assign_shard` is a check-then-act on the
//! assignments map (read lock: "already assigned?", strategy pick with no lock,
//! write lock: blind `insert`).  Two concurrent `route_write` calls for the same,
//! not yet assigned shard on a completely static, healthy cluster are handed two
//! DIFFERENT nodes, and the later insert silently moves the shard away from a
//! node that is still eligible.
//!
//! Test `a_*` is deterministic: it runs the two calls as two futures of one tokio
//! task and uses tokio's cooperative budget (every `RwLock` acquisition costs one
//! unit, the future yields when the budget is used up) to park the second caller
//! between its "already assigned?" check and its strategy pick -- exactly the
//! preemption point a second worker thread gives for free.  The test searches the
//! (few) possible yield points and reports the first one that splits the shard.
//!
//! Test `b_*` is the same race with plain `tokio::spawn` on the multi-threaded
//! runtime and no tricks, under the LoadBased strategy while nodes report loads
//! between 5 % and 40 % (never near the 95 % overload threshold).  (With RoundRobin
//! on a static cluster the threaded race also shows, but only about once per 5000
//! fresh shards, which is why `a_*` pins that schedule down instead.)

use cardinalsin::cluster::{
    AssignmentStrategy, DistributedWriteRouter, NodeInfo, NodeRegistry, NodeType, ShardAssignment,
};
use std::collections::{BTreeSet, HashMap};
use std::future::Future;
use std::pin::Pin;
use std::sync::Arc;
use std::task::Poll;

async fn cluster(
    n: usize,
    strategy: AssignmentStrategy,
) -> (
    Arc<NodeRegistry>,
    Arc<ShardAssignment>,
    Arc<DistributedWriteRouter>,
) {
    let registry = Arc::new(NodeRegistry::new(30));
    for i in 0..n {
        registry
            .register_node(NodeInfo::new(
                format!("ingester-{i}"),
                format!("10.0.1.{}:8081", i + 1).parse().unwrap(),
                NodeType::Ingester,
            ))
            .await;
    }
    let assignments = Arc::new(ShardAssignment::new(registry.clone(), strategy));
    let router = Arc::new(DistributedWriteRouter::new(
        assignments.clone(),
        registry.clone(),
    ));
    (registry, assignments, router)
}

/// One schedule: burn `burn` units of the task's coop budget, then drive two
/// route_write("shard-x") futures; the first poll round polls caller 2 before
/// caller 1, every later round caller 1 before caller 2.
async fn one_schedule(burn: usize, strategy: AssignmentStrategy) -> (String, String, String) {
    let (_registry, assignments, router) = cluster(4, strategy).await;
    let r1 = router.clone();
    let r2 = router.clone();
    let handle = tokio::spawn(async move {
        // fresh task => fresh budget at every poll of this task
        tokio::task::yield_now().await;
        for _ in 0..burn {
            tokio::task::coop::consume_budget().await;
        }
        let mut f1: Pin<Box<dyn Future<Output = _> + Send>> =
            Box::pin(async move { r1.route_write("shard-x").await });
        let mut f2: Pin<Box<dyn Future<Output = _> + Send>> =
            Box::pin(async move { r2.route_write("shard-x").await });
        let mut o1 = None;
        let mut o2 = None;
        let mut round = 0usize;
        std::future::poll_fn(move |cx| {
            round += 1;
            let order: [u8; 2] = if round == 1 { [2, 1] } else { [1, 2] };
            for who in order {
                if who == 1 && o1.is_none() {
                    if let Poll::Ready(v) = f1.as_mut().poll(cx) {
                        o1 = Some(v);
                    }
                }
                if who == 2 && o2.is_none() {
                    if let Poll::Ready(v) = f2.as_mut().poll(cx) {
                        o2 = Some(v);
                    }
                }
            }
            if o1.is_some() && o2.is_some() {
                Poll::Ready((o1.take().unwrap(), o2.take().unwrap()))
            } else {
                Poll::Pending
            }
        })
        .await
    });
    let (o1, o2) = handle.await.unwrap();
    let n1 = o1.unwrap().unwrap().id;
    let n2 = o2.unwrap().unwrap().id;
    let map = assignments
        .get_node_for_shard("shard-x")
        .await
        .unwrap_or_default();
    (n1, n2, map)
}

#[tokio::test]
async fn a_two_concurrent_first_writes_get_two_different_owners_deterministic() {
    for strategy in [AssignmentStrategy::RoundRobin] {
        let mut hits = Vec::new();
        for burn in 0..=135usize {
            let (n1, n2, map) = one_schedule(burn, strategy).await;
            if n1 != n2 {
                hits.push((burn, n1, n2, map));
            }
        }
        for (burn, n1, n2, map) in &hits {
            println!(
                "{strategy:?}: budget burn {burn}: caller 1 was routed to {n1}, caller 2 to {n2}, \
                 assignments map says {map}"
            );
        }
        assert!(
            hits.is_empty(),
            "C19 VIOLATED ({strategy:?}, static cluster of 4 healthy idle ingesters, no \
             registration/drain/load/rebalance event at all): two concurrent route_write(\"shard-x\") \
             calls returned two different nodes in {} of 136 schedules; first: caller 1 -> {}, \
             caller 2 -> {}, map -> {}. The shard is not assigned to one node at a time and it \
             moved although its node never stopped being eligible.",
            hits.len(),
            hits[0].1,
            hits[0].2,
            hits[0].3
        );
    }
}

#[tokio::test(flavor = "multi_thread", worker_threads = 8)]
async fn b_two_concurrent_first_writes_get_two_different_owners_threads() {
    // LoadBased strategy; the only events are load reports that stay far below the
    // 95 % overload threshold, i.e. no node ever stops being eligible.
    const CALLERS: usize = 8;
    let started = std::time::Instant::now();
    let (registry, assignments, router) = cluster(4, AssignmentStrategy::LoadBased).await;

    let stop = Arc::new(std::sync::atomic::AtomicBool::new(false));
    let reporter = {
        let registry = registry.clone();
        let stop = stop.clone();
        tokio::spawn(async move {
            let mut k = 0usize;
            while !stop.load(std::sync::atomic::Ordering::Relaxed) {
                // the idle node rotates: exactly one node reports 5 %, the others 40 %
                for i in 0..4 {
                    let load = if i == k % 4 { 5 } else { 40 };
                    registry.update_load(&format!("ingester-{i}"), load).await;
                }
                k += 1;
                tokio::task::yield_now().await;
            }
        })
    };

    let mut tried = 0usize;
    let mut split: Vec<(String, BTreeSet<String>)> = Vec::new();
    let mut stale_return = 0usize;
    for s in 0..3000usize {
        if split.len() >= 5 || started.elapsed().as_secs() >= 40 {
            break;
        }
        tried += 1;
        let shard = format!("shard-{s}");
        let barrier = Arc::new(tokio::sync::Barrier::new(CALLERS));
        let mut hs = Vec::new();
        for _ in 0..CALLERS {
            let router = router.clone();
            let shard = shard.clone();
            let barrier = barrier.clone();
            hs.push(tokio::spawn(async move {
                barrier.wait().await;
                router.route_write(&shard).await.unwrap().unwrap().id
            }));
        }
        let mut got = BTreeSet::new();
        for h in hs {
            got.insert(h.await.unwrap());
        }
        let now = assignments.get_node_for_shard(&shard).await.unwrap();
        if got.len() > 1 {
            if got.iter().any(|n| *n != now) {
                stale_return += 1;
            }
            split.push((shard, got));
        }
    }
    stop.store(true, std::sync::atomic::Ordering::Relaxed);
    reporter.await.unwrap();
    let _: HashMap<String, String> = assignments.get_all_assignments().await;
    for (shard, got) in split.iter().take(5) {
        println!("{shard}: concurrent callers were routed to {got:?}");
    }
    assert!(
        split.is_empty(),
        "C19 VIOLATED (LoadBased, 4 healthy ingesters whose reported load only moves between 5 % \
         and 40 %): for {} of {} fresh shards, {} concurrent route_write calls for the SAME shard \
         returned different nodes (e.g. {} -> {:?}); in {} of them a caller was given a node that \
         the assignments map no longer names. A shard must be assigned to one node at a time and \
         may move only when its node stops being eligible or on rebalance.",
        split.len(),
        tried,
        CALLERS,
        split[0].0,
        split[0].1,
        stale_return
    );
}
