//! C10 demo: concurrent queries on ONE QueryNode must not affect each other's results.
//!
//! `QueryEngine::with_metrics_table` registers the logical table `metrics` over the
//! chunk set chosen for a request while holding `metrics_table_query_lock`, releases
//! the lock, and only then plans + executes the SQL against the *shared*
//! `SessionContext`.  Another request can re-bind `metrics` to its own chunk set in
//! between, so a request is answered over a foreign chunk set.
//!
//! Tests in this file (all use only public APIs, nothing under src/ is modified):
//!
//! * `c10_deterministic_engine_level`  - forces the interleaving through the public
//!   `QueryEngine::with_metrics_table` (the very call `QueryNode::query_for_tenant`
//!   makes) with explicit synchronisation inside the operation closure.
//! * `c10_stress_plain`                - plain stress through `QueryNode::query` with
//!   ordinary SQL (default 2 tasks x 10000 queries; C10_TASKS / C10_ITERS override).
//! * `c10_stress_padded_sql`           - same stress, but the SQL text carries a long
//!   `/* comment */`, which only lengthens tokenising, i.e. the gap between the lock
//!   release and the resolution of the name `metrics`.
//!
//! Every test prints its statistics and then asserts that there was no wrong answer,
//! so on code that has the race the tests FAIL (that is the demonstration).

use arrow_array::{Array, Float64Array, Int64Array, RecordBatch, StringArray};
use arrow_schema::{DataType, Field, Schema};
use cardinalsin::ingester::{Ingester, IngesterConfig};
use cardinalsin::metadata::{LocalMetadataClient, MetadataClient, TimeRange};
use cardinalsin::query::{QueryConfig, QueryNode};
use cardinalsin::schema::MetricSchema;
use cardinalsin::StorageConfig;
use object_store::memory::InMemory;
use std::collections::BTreeMap;
use std::sync::atomic::{AtomicU64, Ordering};
use std::sync::Arc;
use std::time::Instant;

const ROWS_A: i64 = 3;
const ROWS_B: i64 = 5;
const SEC: i64 = 1_000_000_000;
const MIN: i64 = 60 * SEC;
const HOUR: i64 = 60 * MIN;

fn batch(start_ts: i64, rows: i64, host: &str) -> RecordBatch {
    let schema = Arc::new(Schema::new(vec![
        Field::new("timestamp", DataType::Int64, false),
        Field::new("metric_name", DataType::Utf8, false),
        Field::new("value", DataType::Float64, false),
        Field::new("host", DataType::Utf8, false),
    ]));
    RecordBatch::try_new(
        schema,
        vec![
            Arc::new(Int64Array::from(
                (0..rows).map(|i| start_ts + i * SEC).collect::<Vec<_>>(),
            )),
            Arc::new(StringArray::from(vec!["cpu"; rows as usize])),
            Arc::new(Float64Array::from(
                (0..rows).map(|i| i as f64).collect::<Vec<_>>(),
            )),
            Arc::new(StringArray::from(vec![host; rows as usize])),
        ],
    )
    .unwrap()
}

struct Fixture {
    node: Arc<QueryNode>,
    metadata: Arc<LocalMetadataClient>,
    /// [start, end) of window A / window B (nanoseconds)
    win_a: (i64, i64),
    win_b: (i64, i64),
}

/// One chunk with 3 rows ~20 minutes ago (window A), one chunk with 5 rows ~3 hours
/// ago (window B).  The windows are disjoint and two hours apart.
async fn setup() -> Fixture {
    let object_store = Arc::new(InMemory::new());
    let metadata = Arc::new(LocalMetadataClient::new());
    let storage_config = StorageConfig::default();

    let mut cfg = IngesterConfig::default();
    cfg.flush_row_count = 1; // every write() becomes exactly one chunk
    cfg.wal.enabled = false;
    let ingester = Ingester::new(
        cfg,
        object_store.clone(),
        metadata.clone(),
        storage_config.clone(),
        MetricSchema::default_metrics(),
    );

    let now = chrono::Utc::now().timestamp_nanos_opt().unwrap();
    let t_a = now - 20 * MIN;
    let t_b = now - 3 * HOUR;
    ingester.write(batch(t_a, ROWS_A, "host-a")).await.unwrap();
    ingester.write(batch(t_b, ROWS_B, "host-b")).await.unwrap();

    let all = metadata.list_chunks().await.unwrap();
    assert_eq!(all.len(), 2, "expected exactly two chunks");

    let node = Arc::new(
        QueryNode::new(
            QueryConfig::default(),
            object_store,
            metadata.clone(),
            storage_config,
        )
        .await
        .unwrap(),
    );

    Fixture {
        node,
        metadata,
        win_a: (t_a - MIN, t_a + MIN),
        win_b: (t_b - MIN, t_b + MIN),
    }
}

fn count_sql(win: (i64, i64), pad: &str) -> String {
    format!(
        "{pad}SELECT count(*) AS c FROM metrics WHERE timestamp >= {} AND timestamp < {}",
        win.0, win.1
    )
}

/// No time predicate at all: `QueryNode` then selects the chunks of the last hour,
/// which is chunk A only (chunk B is ~3 hours old).  Over exactly that chunk set the
/// answer is 3; over request B's chunk set it is 5 (foreign rows).
fn unwindowed_count_sql(pad: &str) -> String {
    format!("{pad}SELECT count(*) AS c FROM metrics")
}

fn star_sql(win: (i64, i64), pad: &str) -> String {
    format!(
        "{pad}SELECT timestamp, host FROM metrics WHERE timestamp >= {} AND timestamp < {}",
        win.0, win.1
    )
}

fn count_of(batches: &[RecordBatch]) -> i64 {
    let mut total = 0;
    for b in batches {
        let col = b
            .column(0)
            .as_any()
            .downcast_ref::<Int64Array>()
            .expect("count(*) is Int64");
        for i in 0..col.len() {
            total += col.value(i);
        }
    }
    total
}

fn rows_of(batches: &[RecordBatch]) -> i64 {
    batches.iter().map(|b| b.num_rows() as i64).sum()
}

/// The set of `host` values in a `SELECT timestamp, host` answer.
fn hosts_of(batches: &[RecordBatch]) -> Vec<String> {
    let mut hosts = std::collections::BTreeSet::new();
    for b in batches {
        let col = b.column(1);
        let col = arrow::compute::cast(col, &DataType::Utf8).unwrap();
        let col = col.as_any().downcast_ref::<StringArray>().unwrap();
        for i in 0..col.len() {
            hosts.insert(col.value(i).to_string());
        }
    }
    hosts.into_iter().collect()
}

// ---------------------------------------------------------------------------
// 1. Deterministic interleaving through the public QueryEngine API
// ---------------------------------------------------------------------------

/// Request 1 = `with_metrics_table(chunks of window A, || execute(sql A))`,
/// request 2 = `with_metrics_table(chunks of window B, || execute(sql B))`.
/// Request 1's operation waits (inside the closure, i.e. exactly where
/// `query_for_tenant` plans its SQL) until request 2 has finished.  If the binding of
/// `metrics` were stable for the duration of the operation (as the comment in
/// `query_for_tenant` claims) request 2 could not complete before request 1 and this
/// test would time out; instead request 2 completes and request 1 is answered over
/// request 2's chunk.
#[tokio::test(flavor = "multi_thread", worker_threads = 4)]
async fn c10_deterministic_engine_level() {
    let fx = setup().await;
    let paths = |win: (i64, i64)| {
        let md = fx.metadata.clone();
        async move {
            md.get_chunks(TimeRange::new(win.0, win.1))
                .await
                .unwrap()
                .into_iter()
                .map(|c| c.chunk_path)
                .collect::<Vec<String>>()
        }
    };
    let paths_a = paths(fx.win_a).await;
    let paths_b = paths(fx.win_b).await;
    assert_eq!(paths_a.len(), 1);
    assert_eq!(paths_b.len(), 1);
    assert_ne!(paths_a, paths_b);

    let sql_a = count_sql(fx.win_a, "");
    let sql_b = count_sql(fx.win_b, "");

    // sanity, sequentially
    assert_eq!(count_of(&fx.node.query(&sql_a).await.unwrap()), ROWS_A);
    assert_eq!(count_of(&fx.node.query(&sql_b).await.unwrap()), ROWS_B);

    let (a_registered_tx, a_registered_rx) = tokio::sync::oneshot::channel::<()>();
    let (b_done_tx, b_done_rx) = tokio::sync::oneshot::channel::<()>();

    let engine = fx.node.engine.clone();
    let req1 = {
        let engine = engine.clone();
        let sql_a = sql_a.clone();
        tokio::spawn(async move {
            let e2 = engine.clone();
            engine
                .with_metrics_table(&paths_a, &sql_a, |df| async move {
                    // the statement was planned while `metrics` was bound to chunk A; the lock has been released.
                    a_registered_tx.send(()).unwrap();
                    b_done_rx.await.unwrap();
                    e2.execute_planned(df).await
                })
                .await
        })
    };
    let req2 = {
        let engine = engine.clone();
        tokio::spawn(async move {
            a_registered_rx.await.unwrap();
            let e2 = engine.clone();
            let r = engine
                .with_metrics_table(&paths_b, &sql_b, |df| async move { e2.execute_planned(df).await })
                .await;
            b_done_tx.send(()).unwrap();
            r
        })
    };

    let (r1, r2) = tokio::time::timeout(std::time::Duration::from_secs(30), async {
        (req1.await.unwrap(), req2.await.unwrap())
    })
    .await
    .expect("request 2 could not run while request 1's operation was pending (no race)");

    let got_b = count_of(&r2.unwrap());
    let got_a = count_of(&r1.unwrap());
    println!(
        "[deterministic] request A (window A, chunk A): expected {ROWS_A}, got {got_a}; \
         request B: expected {ROWS_B}, got {got_b}"
    );
    assert_eq!(got_b, ROWS_B);
    assert_eq!(
        got_a, ROWS_A,
        "C10 VIOLATED: request A was answered over request B's chunk set"
    );
}

// ---------------------------------------------------------------------------
// 2./3. Stress through QueryNode::query
// ---------------------------------------------------------------------------

#[derive(Default)]
struct Stats {
    queries: AtomicU64,
    wrong: AtomicU64,
    errors: AtomicU64,
    detail: parking_lot::Mutex<BTreeMap<String, u64>>,
}

impl Stats {
    fn note(&self, what: String) {
        *self.detail.lock().entry(what).or_insert(0) += 1;
    }
}

/// `tasks` concurrent tasks, each issuing `iters` queries against ONE shared QueryNode.
/// Even tasks ask about window A, odd tasks about window B; every 4th query of a task
/// is a `SELECT timestamp, host` instead of a `count(*)`, and every 4th query of an
/// A task is the unwindowed `SELECT count(*) FROM metrics` (chunk set = last hour = {A}).
async fn stress(label: &str, tasks: usize, iters: usize, pad_bytes: usize) -> (u64, u64, u64) {
    let fx = setup().await;
    let pad = if pad_bytes == 0 {
        String::new()
    } else {
        format!("/* {} */ ", "x".repeat(pad_bytes))
    };

    let q = [
        (
            count_sql(fx.win_a, &pad),
            star_sql(fx.win_a, &pad),
            ROWS_A,
            "host-a",
            "A",
        ),
        (
            count_sql(fx.win_b, &pad),
            star_sql(fx.win_b, &pad),
            ROWS_B,
            "host-b",
            "B",
        ),
    ];

    let unwindowed = unwindowed_count_sql(&pad);

    // sanity, sequentially: every query is right when run alone
    assert_eq!(count_of(&fx.node.query(&unwindowed).await.unwrap()), ROWS_A);
    for (cs, ss, exp, host, _) in &q {
        assert_eq!(count_of(&fx.node.query(cs).await.unwrap()), *exp);
        let r = fx.node.query(ss).await.unwrap();
        assert_eq!(rows_of(&r), *exp);
        assert_eq!(hosts_of(&r), vec![host.to_string()]);
    }

    let stats = Arc::new(Stats::default());
    let q = Arc::new(q);
    let started = Instant::now();
    let start_gate = Arc::new(tokio::sync::Barrier::new(tasks));
    let mut handles = Vec::new();
    for t in 0..tasks {
        let node = fx.node.clone();
        let stats = stats.clone();
        let q = q.clone();
        let gate = start_gate.clone();
        let unwindowed = unwindowed.clone();
        handles.push(tokio::spawn(async move {
            let (cs, ss, exp, host, name) = &q[t % 2];
            gate.wait().await;
            for i in 0..iters {
                stats.queries.fetch_add(1, Ordering::Relaxed);
                if i % 4 == 1 && t % 2 == 0 {
                    match node.query(&unwindowed).await {
                        Ok(r) => {
                            let got = count_of(&r);
                            if got != ROWS_A {
                                stats.wrong.fetch_add(1, Ordering::Relaxed);
                                stats.note(format!(
                                    "WRONG  count(*) no time filter (last hour = chunk A): expected {ROWS_A}, got {got}"
                                ));
                            }
                        }
                        Err(e) => {
                            stats.errors.fetch_add(1, Ordering::Relaxed);
                            let msg: String = e.to_string().chars().take(160).collect();
                            stats.note(format!("ERROR  count(*) no time filter: {msg}"));
                        }
                    }
                } else if i % 4 == 3 {
                    match node.query(ss).await {
                        Ok(r) => {
                            let (rows, hosts) = (rows_of(&r), hosts_of(&r));
                            if rows != *exp || (rows > 0 && hosts != vec![host.to_string()]) {
                                stats.wrong.fetch_add(1, Ordering::Relaxed);
                                stats.note(format!(
                                    "WRONG  SELECT rows  window {name}: expected {exp} rows of {host}, got {rows} rows, hosts {hosts:?}"
                                ));
                            }
                        }
                        Err(e) => {
                            stats.errors.fetch_add(1, Ordering::Relaxed);
                            let msg: String = e.to_string().chars().take(160).collect();
                            stats.note(format!("ERROR  SELECT rows  window {name}: {msg}"));
                        }
                    }
                } else {
                    match node.query(cs).await {
                        Ok(r) => {
                            let got = count_of(&r);
                            if got != *exp {
                                stats.wrong.fetch_add(1, Ordering::Relaxed);
                                stats.note(format!(
                                    "WRONG  count(*)     window {name}: expected {exp}, got {got}"
                                ));
                            }
                        }
                        Err(e) => {
                            stats.errors.fetch_add(1, Ordering::Relaxed);
                            let msg: String = e.to_string().chars().take(160).collect();
                            stats.note(format!("ERROR  count(*)     window {name}: {msg}"));
                        }
                    }
                }
            }
        }));
    }
    for h in handles {
        h.await.unwrap();
    }

    let (n, w, e) = (
        stats.queries.load(Ordering::Relaxed),
        stats.wrong.load(Ordering::Relaxed),
        stats.errors.load(Ordering::Relaxed),
    );
    println!(
        "[{label}] tasks={tasks} iters={iters} sql_pad_bytes={pad_bytes}: {n} queries in {:.1}s, \
         {w} WRONG answers, {e} errors",
        started.elapsed().as_secs_f64()
    );
    for (k, v) in stats.detail.lock().iter() {
        println!("[{label}]     {v:>6} x {k}");
    }
    (n, w, e)
}

fn env_usize(name: &str, default: usize) -> usize {
    std::env::var(name)
        .ok()
        .and_then(|v| v.parse().ok())
        .unwrap_or(default)
}

/// Plain stress, ordinary short SQL: 2 tasks x 10000 = 20000 queries by default
/// (override with C10_TASKS / C10_ITERS).
#[tokio::test(flavor = "multi_thread", worker_threads = 8)]
async fn c10_stress_plain() {
    let tasks = env_usize("C10_TASKS", 2);
    let iters = env_usize("C10_ITERS", 10000);
    let (_n, wrong, errors) = stress("plain", tasks, iters, 0).await;
    assert_eq!(
        (wrong, errors),
        (0, 0),
        "C10 VIOLATED under plain stress: concurrent queries changed each other's answers"
    );
}

/// Same stress, but the SQL carries a leading `/* ... */` comment of increasing size.
/// The comment has no meaning; it only makes tokenising the statement take longer,
/// and tokenising happens after `with_metrics_table` released its lock and before the
/// name `metrics` is resolved.
#[tokio::test(flavor = "multi_thread", worker_threads = 8)]
async fn c10_stress_padded_sql() {
    let tasks = env_usize("C10_TASKS", 2);
    let iters = env_usize("C10_PAD_ITERS", 300);
    let mut total_wrong = 0;
    let mut total_err = 0;
    for pad in [1 << 10, 16 << 10, 256 << 10] {
        let (_n, w, e) = stress(&format!("pad{}k", pad >> 10), tasks, iters, pad).await;
        total_wrong += w;
        total_err += e;
    }
    assert_eq!(
        (total_wrong, total_err),
        (0, 0),
        "C10 VIOLATED: concurrent queries changed each other's answers"
    );
}

/// Plain stress with ordinary short SQL again, but with the CPUs oversubscribed by
/// busy-spinning OS threads (2 per core), so that tokio worker threads get preempted
/// by the OS scheduler at arbitrary points - as they would on a loaded production host.
/// Nothing about cardinalsin is slowed down or modified.
#[tokio::test(flavor = "multi_thread", worker_threads = 8)]
async fn c10_stress_plain_cpu_contention() {
    let tasks = env_usize("C10_TASKS", 2);
    let iters = env_usize("C10_BURN_ITERS", 5000);
    let cores = std::thread::available_parallelism()
        .map(|n| n.get())
        .unwrap_or(8);
    let burners = env_usize("C10_BURNERS", 2 * cores);
    let stop = Arc::new(std::sync::atomic::AtomicBool::new(false));
    let threads: Vec<_> = (0..burners)
        .map(|_| {
            let stop = stop.clone();
            std::thread::spawn(move || {
                let mut x = 0u64;
                while !stop.load(Ordering::Relaxed) {
                    for _ in 0..10_000 {
                        x = std::hint::black_box(x.wrapping_mul(6364136223846793005).wrapping_add(1));
                    }
                }
                x
            })
        })
        .collect();
    let (_n, wrong, errors) = stress(&format!("plain+{burners}burners"), tasks, iters, 0).await;
    stop.store(true, Ordering::Relaxed);
    for t in threads {
        let _ = t.join();
    }
    assert_eq!(
        (wrong, errors),
        (0, 0),
        "C10 VIOLATED under plain stress with CPU contention"
    );
}
