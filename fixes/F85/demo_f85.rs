//! C17 defect 1: a Flight DoPut record-batch frame whose body is shorter than the
//! buffer offsets/lengths declared in its (valid) IPC header PANICS the receiver
//! (`FlightIngestService::process_stream` -> `arrow_flight::utils::flight_data_to_batches`
//! -> `Buffer::slice_with_length` assert) instead of being answered with an error.

use arrow_array::{Float64Array, Int64Array, RecordBatch, StringArray};
use arrow_schema::{DataType, Field, Schema};
use cardinalsin::api::ingest::flight_ingest::{batch_to_flight_data, FlightIngestService};
use cardinalsin::ingester::{Ingester, IngesterConfig};
use cardinalsin::metadata::LocalMetadataClient;
use cardinalsin::schema::MetricSchema;
use cardinalsin::StorageConfig;
use object_store::memory::InMemory;
use std::sync::Arc;

fn ingester() -> Arc<Ingester> {
    Arc::new(Ingester::new(
        IngesterConfig::default(),
        Arc::new(InMemory::new()),
        Arc::new(LocalMetadataClient::new()),
        StorageConfig::default(),
        MetricSchema::default_metrics(),
    ))
}

fn valid_frames() -> Vec<arrow_flight::FlightData> {
    let schema = Arc::new(Schema::new(vec![
        Field::new("timestamp", DataType::Int64, false),
        Field::new("metric_name", DataType::Utf8, false),
        Field::new("value", DataType::Float64, false),
    ]));
    let n = 1000usize;
    let batch = RecordBatch::try_new(
        schema,
        vec![
            Arc::new(Int64Array::from((0..n as i64).collect::<Vec<_>>())),
            Arc::new(StringArray::from(vec!["cpu"; n])),
            Arc::new(Float64Array::from(vec![1.0; n])),
        ],
    )
    .unwrap();
    // [schema frame, record batch frame]
    batch_to_flight_data(&batch).unwrap()
}

/// The exact code path of `FlightIngestGrpcService::do_put`: collect the frames, hand
/// them to `process_stream`. Run on its own task so that a panic is observable as a
/// JoinError (this is also what a tonic connection task would experience).
async fn put(frames: Vec<arrow_flight::FlightData>) -> Result<Result<u64, String>, String> {
    let svc = FlightIngestService::new(ingester());
    match tokio::spawn(async move { svc.process_stream(frames.into_iter()).await }).await {
        Ok(r) => Ok(r.map_err(|e| e.to_string())),
        Err(join) => Err(join.to_string()),
    }
}

#[tokio::test]
async fn truncated_doput_body_is_an_error_not_a_panic() {
    // sanity: the untouched stream is accepted
    assert_eq!(put(valid_frames()).await, Ok(Ok(1000)));

    let body_len = valid_frames()[1].data_body.len();
    let mut panics = Vec::new();
    // cut the body of the record-batch frame at several places; the IPC header (a valid
    // flatbuffer) still declares buffers up to `body_len`
    for cut in [0usize, 1, 8, 127, 128, 4000, 8128, 12000, body_len - 1] {
        let mut frames = valid_frames();
        frames[1].data_body = frames[1].data_body.slice(0..cut);
        match put(frames).await {
            Ok(Err(_)) => {}
            Ok(Ok(rows)) => panic!("truncated body ({cut}/{body_len} bytes) accepted as {rows} rows"),
            Err(p) => panics.push(format!("body cut to {cut}/{body_len} bytes: {p}")),
        }
    }
    assert!(
        panics.is_empty(),
        "C17 violated: a truncated Flight DoPut payload must be answered with an error, \
         but the receiver PANICKED for {} of 9 truncations:\n  {}",
        panics.len(),
        panics.join("\n  ")
    );
}
