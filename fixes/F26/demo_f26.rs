//! F26 (C01): a write whose schema differs from the buffered rows flushes the buffer from inside write() -- after
//! `last_wal_seq` was already advanced to the sequence of the write being processed.  The flush persists
//! flushed_seq = that sequence although the write's own rows are only appended to the (now empty) buffer afterwards.
//! The write is acknowledged; a crash before the next flush makes recovery skip its WAL entry: acknowledged rows lost.
//! Purely sequential, no fault injection.  (Harness from seeded/C01/r2m1.)  Fails before the fix, passes after.

use arrow_array::cast::AsArray;
use arrow_array::types::TimestampNanosecondType;
use arrow_array::{Float64Array, Int64Array, RecordBatch};
use arrow_schema::{DataType, Field, Schema, TimeUnit};
use cardinalsin::ingester::{load_flushed_seq, Ingester, IngesterConfig, WalConfig, WalSyncMode};
use cardinalsin::metadata::{LocalMetadataClient, MetadataClient};
use cardinalsin::schema::MetricSchema;
use cardinalsin::{CloudProvider, StorageConfig};
use object_store::memory::InMemory;
use object_store::ObjectStore;
use std::collections::BTreeSet;
use std::sync::Arc;
use tempfile::TempDir;

fn ingester_config(dir: &TempDir) -> IngesterConfig {
    IngesterConfig {
        flush_row_count: 10_000,
        flush_size_bytes: 100 * 1024 * 1024,
        wal: WalConfig {
            wal_dir: dir.path().to_path_buf(),
            max_segment_size: 64 * 1024 * 1024,
            sync_mode: WalSyncMode::EveryWrite,
            enabled: true,
        },
        ..Default::default()
    }
}

fn ts_field() -> Field {
    Field::new(
        "timestamp",
        DataType::Timestamp(TimeUnit::Nanosecond, None),
        false,
    )
}

fn int_batch(values: &[i64]) -> RecordBatch {
    let schema = Arc::new(Schema::new(vec![
        ts_field(),
        Field::new("value", DataType::Int64, false),
    ]));
    RecordBatch::try_new(
        schema,
        vec![
            Arc::new(arrow_array::PrimitiveArray::<TimestampNanosecondType>::from(values.to_vec())),
            Arc::new(Int64Array::from(values.to_vec())),
        ],
    )
    .unwrap()
}

fn float_batch(values: &[i64]) -> RecordBatch {
    let schema = Arc::new(Schema::new(vec![
        ts_field(),
        Field::new("value", DataType::Float64, false),
    ]));
    RecordBatch::try_new(
        schema,
        vec![
            Arc::new(arrow_array::PrimitiveArray::<TimestampNanosecondType>::from(values.to_vec())),
            Arc::new(Float64Array::from(
                values.iter().map(|v| *v as f64).collect::<Vec<f64>>(),
            )),
        ],
    )
    .unwrap()
}

fn new_ingester(
    dir: &TempDir,
    store: Arc<dyn ObjectStore>,
    metadata: Arc<dyn MetadataClient>,
) -> Ingester {
    let storage_config = StorageConfig {
        provider: CloudProvider::Memory,
        container: "test-bucket".to_string(),
        tenant_id: "test-tenant".to_string(),
    };
    Ingester::new(
        ingester_config(dir),
        store,
        metadata,
        storage_config,
        MetricSchema::default_metrics(),
    )
}

/// Timestamps of all rows stored in chunks that are registered in the catalog.
async fn stored_timestamps(
    store: &Arc<dyn ObjectStore>,
    metadata: &Arc<dyn MetadataClient>,
) -> BTreeSet<i64> {
    let mut out = BTreeSet::new();
    for chunk in metadata.list_chunks().await.unwrap() {
        let path = object_store::path::Path::from(chunk.chunk_path.as_str());
        let data = store.get(&path).await.unwrap().bytes().await.unwrap();
        let reader = parquet::arrow::arrow_reader::ParquetRecordBatchReaderBuilder::try_new(data)
            .unwrap()
            .build()
            .unwrap();
        for batch in reader {
            let batch = batch.unwrap();
            let ts = batch
                .column_by_name("timestamp")
                .unwrap()
                .as_primitive::<TimestampNanosecondType>()
                .clone();
            out.extend(ts.values().iter().copied());
        }
    }
    out
}

#[tokio::test]
async fn f26_schema_change_write_survives_crash() {
    let dir = TempDir::new().unwrap();
    let store: Arc<dyn ObjectStore> = Arc::new(InMemory::new());
    let metadata: Arc<dyn MetadataClient> = Arc::new(LocalMetadataClient::new());

    let int_rows = [1_000_000_000i64, 2_000_000_000];
    let float_rows = [3_000_000_000i64, 4_000_000_000, 5_000_000_000];
    let acked: BTreeSet<i64> = int_rows.iter().chain(float_rows.iter()).copied().collect();

    // ---- run 1: two acknowledged writes, the second with another schema; then crash
    {
        let mut ing = new_ingester(&dir, store.clone(), metadata.clone());
        ing.ensure_wal().await.unwrap();
        ing.write(int_batch(&int_rows)).await.expect("write 1 acked");
        ing.write(float_batch(&float_rows)).await.expect("write 2 acked");
        assert_eq!(ing.buffer_stats().await.row_count, float_rows.len(), "write 2's rows are only in the buffer");
        println!("run 1: flushed_seq on disk after the schema-change flush = {}", load_flushed_seq(dir.path()).unwrap());
        // crash
    }

    // ---- run 2: recovery, then a successful (shutdown) flush
    let mut ing = new_ingester(&dir, store.clone(), metadata.clone());
    ing.ensure_wal().await.unwrap();
    println!("run 2 after ensure_wal: buffer rows = {}", ing.buffer_stats().await.row_count);
    ing.shutdown_token().cancel();
    ing.run_flush_timer().await;

    let stored = stored_timestamps(&store, &metadata).await;
    let missing: Vec<i64> = acked.difference(&stored).copied().collect();
    println!("acked = {acked:?}\nstored = {stored:?}\nmissing = {missing:?}");
    assert!(missing.is_empty(), "acknowledged rows lost: {missing:?}");
}
