//! F22 (C18): a live-tail WHERE comparison whose literal type differs from the column's arrow type is silently ignored.
//! `WHERE value_f64 > 5` parses the literal as Int64(5); apply_comparison only looks for an Int64 column, finds a
//! Float64 one, and leaves the row mask untouched: the subscriber receives rows that do not satisfy the WHERE clause.
//! The same happens for a Float64 literal on an Int64 column and for Boolean literals.
use arrow_array::{Float64Array, Int64Array, RecordBatch, TimestampNanosecondArray};
use arrow_schema::{DataType, Field, Schema, TimeUnit};
use cardinalsin::query::QueryFilter;
use std::sync::Arc;

fn batch() -> RecordBatch {
    let schema = Arc::new(Schema::new(vec![
        Field::new("timestamp", DataType::Timestamp(TimeUnit::Nanosecond, None), false),
        Field::new("value_f64", DataType::Float64, true),
        Field::new("value_i64", DataType::Int64, true),
    ]));
    RecordBatch::try_new(
        schema,
        vec![
            Arc::new(TimestampNanosecondArray::from(vec![10, 20, 30])),
            Arc::new(Float64Array::from(vec![1.0, 9.0, 3.0])),
            Arc::new(Int64Array::from(vec![1, 9, 3])),
        ],
    )
    .unwrap()
}

fn rows(sql: &str) -> usize {
    let f = QueryFilter::from_sql(sql);
    f.apply(&batch(), 0).unwrap().map(|b| b.num_rows()).unwrap_or(0)
}

#[test]
fn f22_int_literal_on_float_column_filters_rows() {
    // exactly one row has value_f64 > 5
    assert_eq!(rows("SELECT * FROM metrics WHERE value_f64 > 5.5"), 1, "float literal on float column (control)");
    assert_eq!(rows("SELECT * FROM metrics WHERE value_f64 > 5"), 1, "int literal on float column must filter too");
}

#[test]
fn f22_float_literal_on_int_column_filters_rows() {
    assert_eq!(rows("SELECT * FROM metrics WHERE value_i64 > 5"), 1, "int literal on int column (control)");
    assert_eq!(rows("SELECT * FROM metrics WHERE value_i64 > 5.5"), 1, "float literal on int column must filter too");
}
