//! C07 defect 1: LocalMetadataClient -- delete_chunk racing with register_chunk of the same path
//! leaves a live chunk that get_chunks never returns (chunk map and time index updated non-atomically).
#![allow(dead_code, unused_imports)]

use cardinalsin::ingester::ChunkMetadata;
use cardinalsin::metadata::{
    LocalMetadataClient, MetadataClient, ObjectStoreMetadataClient, ObjectStoreMetadataConfig,
    TimeRange,
};
use object_store::memory::InMemory;
use std::collections::{BTreeMap, BTreeSet};
use std::sync::Arc;

const H: i64 = 3_600_000_000_000;

fn s3_client(store: Arc<InMemory>) -> ObjectStoreMetadataClient {
    ObjectStoreMetadataClient::new(
        store,
        ObjectStoreMetadataConfig {
            bucket: "b".into(),
            metadata_prefix: "meta/".into(),
            enable_cache: false,
            allow_unsafe_overwrite: false,
        },
    )
}

fn meta(path: &str, min: i64, max: i64, tag: u64) -> ChunkMetadata {
    ChunkMetadata {
        path: path.to_string(),
        min_timestamp: min,
        max_timestamp: max,
        row_count: tag,
        size_bytes: tag * 10,
    }
}

type Row = (String, i64, i64, u64, u64);

async fn ranged(c: &dyn MetadataClient, r: TimeRange) -> Vec<Row> {
    let mut v: Vec<Row> = c
        .get_chunks(r)
        .await
        .unwrap()
        .into_iter()
        .map(|e| {
            (
                e.chunk_path,
                e.min_timestamp,
                e.max_timestamp,
                e.row_count,
                e.size_bytes,
            )
        })
        .collect();
    v.sort();
    v
}

async fn listed(c: &dyn MetadataClient) -> Vec<Row> {
    let mut v: Vec<Row> = c
        .list_chunks()
        .await
        .unwrap()
        .into_iter()
        .map(|e| {
            (
                e.chunk_path,
                e.min_timestamp,
                e.max_timestamp,
                e.row_count,
                e.size_bytes,
            )
        })
        .collect();
    v.sort();
    v
}

struct Rng(u64);
impl Rng {
    fn next(&mut self) -> u64 {
        let mut x = self.0;
        x ^= x << 13;
        x ^= x >> 7;
        x ^= x << 17;
        self.0 = x;
        x
    }
    fn below(&mut self, n: u64) -> u64 {
        self.next() % n
    }
    fn pick<T: Copy>(&mut self, xs: &[T]) -> T {
        xs[self.below(xs.len() as u64) as usize]
    }
}

fn points() -> Vec<i64> {
    let mut p = Vec::new();
    for k in [-50i64, -25, -3, -2, -1, 0, 1, 2, 3, 24, 49, 120] {
        for d in [-1i64, 0, 1] {
            p.push(k * H + d);
        }
        p.push(k * H + H / 2);
    }
    p
}

/// Reference model: path -> metadata of the live chunks.
fn model_query(model: &BTreeMap<String, ChunkMetadata>, r: TimeRange) -> Vec<Row> {
    let mut v: Vec<Row> = model
        .values()
        .filter(|m| r.start <= r.end && m.min_timestamp <= r.end && m.max_timestamp >= r.start)
        .map(|m| {
            (
                m.path.clone(),
                m.min_timestamp,
                m.max_timestamp,
                m.row_count,
                m.size_bytes,
            )
        })
        .collect();
    v.sort();
    v
}

/// LocalMetadataClient: delete_chunk and a re-registration of the same path racing on two threads.
/// Every linearisation of the two calls leaves the path either absent, or live AND found by get_chunks.
#[test]
fn local_concurrent_delete_and_reregister_keeps_index_and_map_consistent() {
    use std::sync::atomic::{AtomicBool, AtomicU64, Ordering};

    fn env(name: &str, default: u64) -> u64 {
        std::env::var(name).ok().and_then(|v| v.parse().ok()).unwrap_or(default)
    }
    let fillers = env("C07_FILLERS", 0);
    let n_readers = env("C07_READERS", 0);
    let budget_secs = env("C07_SECS", 50);

    let client = Arc::new(LocalMetadataClient::new());
    let stop = Arc::new(AtomicBool::new(false));
    let rt = || tokio::runtime::Builder::new_current_thread().build().unwrap();

    // optional (C07_FILLERS / C07_READERS): other chunks and concurrent readers; not needed --
    // two threads calling the two methods at the same moment are enough
    rt().block_on(async {
        for i in 0..fillers {
            let p = format!("filler_{i}");
            client.register_chunk(&p, &meta(&p, 10 * H, 10 * H + 5, 1)).await.unwrap();
        }
    });
    let readers: Vec<_> = (0..n_readers)
        .map(|_| {
            let c = client.clone();
            let stop = stop.clone();
            std::thread::spawn(move || {
                let rt = tokio::runtime::Builder::new_current_thread().build().unwrap();
                while !stop.load(Ordering::Relaxed) {
                    let _ = rt.block_on(c.get_chunks(TimeRange::new(10 * H, 10 * H + 5)));
                }
            })
        })
        .collect();

    // generation counter: workers spin until it moves, run their call, then bump `done`
    let go = Arc::new(AtomicU64::new(0));
    let done = Arc::new(AtomicU64::new(0));

    let worker = |is_delete: bool| {
        let (c, go, done, stop) = (client.clone(), go.clone(), done.clone(), stop.clone());
        std::thread::spawn(move || {
            let rt = tokio::runtime::Builder::new_current_thread().build().unwrap();
            let mut seen = 0u64;
            loop {
                let mut g = go.load(Ordering::Acquire);
                while g == seen {
                    if stop.load(Ordering::Relaxed) {
                        return;
                    }
                    std::hint::spin_loop();
                    g = go.load(Ordering::Acquire);
                }
                seen = g;
                // sweep the relative start of the two calls
                let spins = if is_delete { 0 } else { (g * 7) % 64 };
                for _ in 0..spins {
                    std::hint::spin_loop();
                }
                if is_delete {
                    rt.block_on(c.delete_chunk("p")).unwrap();
                } else {
                    rt.block_on(c.register_chunk("p", &meta("p", 7, 9, 2))).unwrap();
                }
                done.fetch_add(1, Ordering::Release);
            }
        })
    };
    let deleter = worker(true);
    let registrar = worker(false);

    let main_rt = rt();
    let started = std::time::Instant::now();
    let mut violation: Option<String> = None;
    let mut round = 0u64;
    while started.elapsed().as_secs() < budget_secs {
        round += 1;
        main_rt
            .block_on(client.register_chunk("p", &meta("p", 1, 3, 1)))
            .unwrap();
        go.store(round, Ordering::Release);
        while done.load(Ordering::Acquire) < 2 * round {
            std::hint::spin_loop();
        }
        let live = main_rt.block_on(client.get_chunk("p")).unwrap();
        if let Some(m) = live {
            let found = main_rt
                .block_on(client.get_chunks(TimeRange::new(0, 100)))
                .unwrap();
            if found.iter().filter(|e| e.chunk_path == "p").count() != 1 {
                let listed = main_rt
                    .block_on(client.list_chunks())
                    .unwrap()
                    .iter()
                    .any(|e| e.chunk_path == "p");
                violation = Some(format!(
                    "round {round}: after delete_chunk(p) || register_chunk(p,[7,9]) the chunk is live \
                     (get_chunk = [{},{}], list_chunks has it: {listed}) but get_chunks([0,100]) returns {:?}: \
                     a live chunk whose interval intersects the range is missing, and stays missing",
                    m.min_timestamp,
                    m.max_timestamp,
                    found.iter().map(|e| e.chunk_path.clone()).collect::<Vec<_>>()
                ));
                break;
            }
        }
    }
    stop.store(true, Ordering::Relaxed);
    deleter.join().unwrap();
    registrar.join().unwrap();
    for r in readers {
        r.join().unwrap();
    }
    println!("rounds run: {round} in {:?}", started.elapsed());
    if let Some(v) = violation {
        panic!("{v}");
    }
}
