//! C20 defect 1: a compaction slot (`Compactor::active_compactions`) is taken with
//! `fetch_add` after the lease is acquired and given back only at the very end of the
//! loop body of `compact_l0` / `compact_level`. Every `?` in between
//! (`create_compaction_job`, `complete_compaction`, `update_compaction_status`,
//! `complete_lease`, `fail_lease`) leaves the function with the slot still taken.
//! After `max_concurrent_compactions` (= 4) such errors in the life of the process
//! `has_capacity()` is false for ever: every later cycle returns `Ok(())`, selects
//! nothing, merges nothing. The compactor has "converged" on a catalog that still holds
//! L0 groups above the merge threshold -- it is not a fixed point of compaction at all:
//! a second compactor started on the same catalog merges those groups in its first cycle.
//!
//! The errors injected here are `Error::TooManyRetries`, which is what the object-store
//! catalog returns when a CAS loop on compaction-jobs.json / compaction-leases.json loses
//! five times in a row (several compactors or ingesters on one bucket), i.e. transient.

use arrow_array::{Float64Array, RecordBatch, TimestampNanosecondArray};
use arrow_schema::{DataType, Field, Schema, TimeUnit};
use async_trait::async_trait;
use cardinalsin::compactor::{Compactor, CompactorConfig};
use cardinalsin::ingester::ChunkMetadata;
use cardinalsin::metadata::{
    CompactionJob, CompactionLease, CompactionLeases, CompactionStatus, LocalMetadataClient,
    MetadataClient, S3MetadataClient, S3MetadataConfig, SplitState, TimeIndexEntry, TimeRange,
};
use cardinalsin::sharding::{HotShardConfig, ShardMetadata, ShardMonitor, SplitPhase};
use cardinalsin::{Error, Result, StorageConfig};
use object_store::memory::InMemory;
use object_store::ObjectStore;
use parquet::arrow::ArrowWriter;
use std::sync::atomic::{AtomicUsize, Ordering};
use std::sync::Arc;
use std::time::Duration;

const HOUR: i64 = 3_600_000_000_000;
const THRESHOLD: usize = 3;

#[derive(Clone, Copy, PartialEq, Debug)]
enum FailAt {
    /// before any work was done for the group
    CreateJob,
    /// after the merged chunk was published and the sources were swapped out
    CompleteLease,
}

/// Delegates everything; the first `remaining` calls of one method fail transiently.
struct Flaky {
    inner: Arc<dyn MetadataClient>,
    fail_at: FailAt,
    remaining: AtomicUsize,
}

impl Flaky {
    fn trip(&self, at: FailAt) -> Result<()> {
        if self.fail_at == at
            && self
                .remaining
                .fetch_update(Ordering::SeqCst, Ordering::SeqCst, |n| n.checked_sub(1))
                .is_ok()
        {
            return Err(Error::TooManyRetries);
        }
        Ok(())
    }
}

#[async_trait]
impl MetadataClient for Flaky {
    async fn register_chunk(&self, path: &str, metadata: &ChunkMetadata) -> Result<()> {
        self.inner.register_chunk(path, metadata).await
    }
    async fn get_chunks(&self, range: TimeRange) -> Result<Vec<TimeIndexEntry>> {
        self.inner.get_chunks(range).await
    }
    async fn get_chunk(&self, path: &str) -> Result<Option<ChunkMetadata>> {
        self.inner.get_chunk(path).await
    }
    async fn delete_chunk(&self, path: &str) -> Result<()> {
        self.inner.delete_chunk(path).await
    }
    async fn list_chunks(&self) -> Result<Vec<TimeIndexEntry>> {
        self.inner.list_chunks().await
    }
    async fn get_l0_candidates(&self, min_count: usize) -> Result<Vec<Vec<String>>> {
        self.inner.get_l0_candidates(min_count).await
    }
    async fn get_level_candidates(
        &self,
        level: usize,
        target_size: usize,
    ) -> Result<Vec<Vec<String>>> {
        self.inner.get_level_candidates(level, target_size).await
    }
    async fn create_compaction_job(&self, job: CompactionJob) -> Result<()> {
        self.trip(FailAt::CreateJob)?;
        self.inner.create_compaction_job(job).await
    }
    async fn complete_compaction(
        &self,
        source_chunks: &[String],
        target_chunk: &str,
    ) -> Result<()> {
        self.inner
            .complete_compaction(source_chunks, target_chunk)
            .await
    }
    async fn update_compaction_status(&self, job_id: &str, status: CompactionStatus) -> Result<()> {
        self.inner.update_compaction_status(job_id, status).await
    }
    async fn get_pending_compaction_jobs(&self) -> Result<Vec<CompactionJob>> {
        self.inner.get_pending_compaction_jobs().await
    }
    async fn cleanup_completed_jobs(&self, max_age_secs: i64) -> Result<usize> {
        self.inner.cleanup_completed_jobs(max_age_secs).await
    }
    async fn start_split(
        &self,
        old_shard: &str,
        new_shards: Vec<String>,
        split_point: Vec<u8>,
    ) -> Result<()> {
        self.inner
            .start_split(old_shard, new_shards, split_point)
            .await
    }
    async fn get_split_state(&self, shard_id: &str) -> Result<Option<SplitState>> {
        self.inner.get_split_state(shard_id).await
    }
    async fn update_split_progress(
        &self,
        shard_id: &str,
        progress: f64,
        phase: SplitPhase,
    ) -> Result<()> {
        self.inner
            .update_split_progress(shard_id, progress, phase)
            .await
    }
    async fn complete_split(&self, old_shard: &str) -> Result<()> {
        self.inner.complete_split(old_shard).await
    }
    async fn get_chunks_for_shard(&self, shard_id: &str) -> Result<Vec<TimeIndexEntry>> {
        self.inner.get_chunks_for_shard(shard_id).await
    }
    async fn get_shard_metadata(&self, shard_id: &str) -> Result<Option<ShardMetadata>> {
        self.inner.get_shard_metadata(shard_id).await
    }
    async fn update_shard_metadata(
        &self,
        shard_id: &str,
        metadata: &ShardMetadata,
        expected_generation: u64,
    ) -> Result<()> {
        self.inner
            .update_shard_metadata(shard_id, metadata, expected_generation)
            .await
    }
    async fn acquire_lease(
        &self,
        node_id: &str,
        chunks: &[String],
        level: u32,
    ) -> Result<CompactionLease> {
        self.inner.acquire_lease(node_id, chunks, level).await
    }
    async fn complete_lease(&self, lease_id: &str) -> Result<()> {
        self.trip(FailAt::CompleteLease)?;
        self.inner.complete_lease(lease_id).await
    }
    async fn fail_lease(&self, lease_id: &str) -> Result<()> {
        self.inner.fail_lease(lease_id).await
    }
    async fn renew_lease(&self, lease_id: &str) -> Result<()> {
        self.inner.renew_lease(lease_id).await
    }
    async fn load_leases(&self) -> Result<CompactionLeases> {
        self.inner.load_leases().await
    }
    async fn scavenge_leases(&self) -> Result<usize> {
        self.inner.scavenge_leases().await
    }
    async fn has_active_split(&self) -> Result<bool> {
        self.inner.has_active_split().await
    }
}

fn parquet_bytes(timestamps: Vec<i64>) -> Vec<u8> {
    let schema = Arc::new(Schema::new(vec![
        Field::new(
            "timestamp",
            DataType::Timestamp(TimeUnit::Nanosecond, Some("UTC".into())),
            false,
        ),
        Field::new("value_f64", DataType::Float64, true),
    ]));
    let values: Vec<f64> = timestamps.iter().map(|t| *t as f64).collect();
    let batch = RecordBatch::try_new(
        schema.clone(),
        vec![
            Arc::new(TimestampNanosecondArray::from(timestamps).with_timezone("UTC")),
            Arc::new(Float64Array::from(values)),
        ],
    )
    .unwrap();
    let mut buffer = Vec::new();
    {
        let mut writer = ArrowWriter::try_new(&mut buffer, schema, None).unwrap();
        writer.write(&batch).unwrap();
        writer.close().unwrap();
    }
    buffer
}

fn config() -> CompactorConfig {
    CompactorConfig {
        l0_merge_threshold: THRESHOLD,
        max_levels: 0, // L0 -> L1 only: keeps the expected fixed point obvious
        retention_days: 50_000,
        gc_grace_period: Duration::from_secs(3600),
        sharding_enabled: false,
        ..Default::default()
    }
}

fn compactor(store: &Arc<dyn ObjectStore>, meta: &Arc<dyn MetadataClient>) -> Compactor {
    Compactor::new(
        config(),
        store.clone(),
        meta.clone(),
        StorageConfig::default(),
        Arc::new(ShardMonitor::new(HotShardConfig::default())),
    )
}

async fn run(s3: bool, fail_at: FailAt) {
    let store: Arc<dyn ObjectStore> = Arc::new(InMemory::new());
    let catalog: Arc<dyn MetadataClient> = if s3 {
        Arc::new(S3MetadataClient::new(
            store.clone(),
            S3MetadataConfig {
                bucket: "b".into(),
                metadata_prefix: "meta/".into(),
                enable_cache: false,
                allow_unsafe_overwrite: false,
            },
        ))
    } else {
        Arc::new(LocalMetadataClient::new())
    };

    // A dataset that is no longer written: 8 hour buckets with THRESHOLD L0 chunks each.
    let hours = 8usize;
    let base = 1_700_000_000i64 * 1_000_000_000 / HOUR * HOUR;
    for h in 0..hours {
        for i in 0..THRESHOLD {
            let start = base + h as i64 * HOUR + i as i64 * 60_000_000_000;
            let ts: Vec<i64> = (0..10).map(|r| start + r * 1_000_000_000).collect();
            let path = format!("t/data/h{}_{}.parquet", h, i);
            let bytes = parquet_bytes(ts.clone());
            let md = ChunkMetadata {
                path: path.clone(),
                min_timestamp: ts[0],
                max_timestamp: ts[9],
                row_count: 10,
                size_bytes: bytes.len() as u64,
            };
            store.put(&path.clone().into(), bytes.into()).await.unwrap();
            catalog.register_chunk(&path, &md).await.unwrap();
        }
    }
    assert_eq!(
        catalog.get_l0_candidates(THRESHOLD).await.unwrap().len(),
        hours
    );

    // The compactor under test talks to the catalog through a client whose first four
    // calls of one method fail transiently.
    let flaky: Arc<dyn MetadataClient> = Arc::new(Flaky {
        inner: catalog.clone(),
        fail_at,
        remaining: AtomicUsize::new(4),
    });
    let under_test = compactor(&store, &flaky);

    let mut errors = 0;
    let mut cycles = 0;
    while errors < 4 {
        cycles += 1;
        assert!(cycles < 20, "the injected errors were not reached");
        if under_test.run_compaction_cycle().await.is_err() {
            errors += 1;
        }
    }
    let eligible_after_errors = catalog.get_l0_candidates(THRESHOLD).await.unwrap().len();
    println!(
        "[s3={s3} {fail_at:?}] {cycles} cycles, 4 of them failed transiently; \
         L0 groups at or above the threshold now: {eligible_after_errors}"
    );
    assert!(eligible_after_errors >= hours - 4);

    // The fault is gone. Twenty more cycles, every one of them reports success.
    for _ in 0..20 {
        under_test
            .run_compaction_cycle()
            .await
            .expect("cycle after the fault cleared");
    }
    let eligible_stuck = catalog.get_l0_candidates(THRESHOLD).await.unwrap();
    // Which of them could be compacted right now (not covered by a left-over lease)?
    let leased: std::collections::HashSet<String> = catalog
        .load_leases()
        .await
        .unwrap()
        .leases
        .values()
        .filter(|l| l.status == cardinalsin::metadata::LeaseStatus::Active)
        .flat_map(|l| l.chunks.clone())
        .collect();
    let free_groups = eligible_stuck
        .iter()
        .filter(|g| g.iter().all(|p| !leased.contains(p)))
        .count();
    println!(
        "[s3={s3} {fail_at:?}] after 20 further error-free cycles: {} eligible L0 groups, \
         {} of them not leased by anybody",
        eligible_stuck.len(),
        free_groups
    );

    // Control: a compactor process started now on the very same catalog and store.
    let fresh = compactor(&store, &catalog);
    fresh.run_compaction_cycle().await.unwrap();
    let eligible_after_fresh = catalog.get_l0_candidates(THRESHOLD).await.unwrap().len();
    println!(
        "[s3={s3} {fail_at:?}] one cycle of a freshly started compactor: {} eligible L0 groups left",
        eligible_after_fresh
    );
    // (after the fix the compactor under test has itself merged every group nobody holds a lease on, so the fresh
    // compactor has nothing left to do: the control only applies while something is free)
    assert!(
        free_groups == 0 || eligible_after_fresh < eligible_stuck.len(),
        "control failed: the groups are not compactable at all"
    );

    assert_eq!(
        free_groups, 0,
        "C20 violated (s3={s3}, fault at {fail_at:?}): after 4 transient metadata errors the \
         compactor ran 20 error-free cycles that all returned Ok and changed nothing, although \
         {free_groups} L0 groups with >= {THRESHOLD} chunks and no lease were waiting (a freshly \
         started compactor merged them in its first cycle, {} -> {} eligible groups): the state \
         it settled in is not a fixed point of compaction, the slot counter \
         active_compactions leaked on the error returns and has_capacity() is false for ever",
        eligible_stuck.len(),
        eligible_after_fresh
    );
}

#[tokio::test(flavor = "multi_thread", worker_threads = 2)]
async fn slot_leak_object_store_catalog_error_before_merge() {
    run(true, FailAt::CreateJob).await;
}

#[tokio::test(flavor = "multi_thread", worker_threads = 2)]
async fn slot_leak_object_store_catalog_error_after_publish() {
    run(true, FailAt::CompleteLease).await;
}

#[tokio::test(flavor = "multi_thread", worker_threads = 2)]
async fn slot_leak_local_catalog_error_before_merge() {
    run(false, FailAt::CreateJob).await;
}
