//! C01 audit, defect 2: `WriteAheadLog::append_payload` writes a frame with two separate
//! `write_all` calls (22-byte header, then payload) on a `tokio::fs::File`. The second call
//! has to wait for the background write of the first, so it is an await point *between* the
//! header and the payload. `Ingester::write` is awaited directly by the HTTP / gRPC request
//! handlers, so its future is dropped when the client disconnects or the request is
//! cancelled. Dropped at that await point, the header is on disk (tokio's file writes are
//! "mandatory" blocking tasks and complete anyway), the payload is never written, `next_seq`
//! stays incremented, and nothing repairs the segment. Every later append lands BEHIND this
//! bare header. Readers stop at the first malformed frame, so all of those later,
//! acknowledged and fsynced writes are unreadable after a crash -- and `open()`'s
//! torn-tail repair then physically cuts them off the segment.

use arrow_array::{Array, Int64Array, RecordBatch, TimestampNanosecondArray};
use arrow_schema::{DataType, Field, Schema, TimeUnit};
use bytes::Bytes;
use cardinalsin::ingester::{Ingester, IngesterConfig, WalConfig, WalSyncMode, WriteAheadLog};
use cardinalsin::metadata::{LocalMetadataClient, MetadataClient};
use cardinalsin::schema::MetricSchema;
use cardinalsin::{CloudProvider, StorageConfig};
use object_store::memory::InMemory;
use object_store::path::Path;
use object_store::ObjectStore;
use parquet::arrow::arrow_reader::ParquetRecordBatchReaderBuilder;
use std::collections::BTreeSet;
use std::sync::Arc;
use std::task::Poll;
use std::time::Duration;
use tempfile::TempDir;

const WAL_HEADER_LEN: u64 = 22;

fn batch(values: std::ops::RangeInclusive<i64>) -> RecordBatch {
    let values: Vec<i64> = values.collect();
    let schema = Arc::new(Schema::new(vec![
        Field::new(
            "timestamp",
            DataType::Timestamp(TimeUnit::Nanosecond, None),
            false,
        ),
        Field::new("value", DataType::Int64, false),
    ]));
    let ts: Vec<i64> = values.iter().map(|v| v * 1_000_000_000).collect();
    RecordBatch::try_new(
        schema,
        vec![
            Arc::new(TimestampNanosecondArray::from(ts)),
            Arc::new(Int64Array::from(values)),
        ],
    )
    .unwrap()
}

fn wal_config(dir: &TempDir) -> WalConfig {
    WalConfig {
        wal_dir: dir.path().to_path_buf(),
        max_segment_size: 64 * 1024 * 1024,
        sync_mode: WalSyncMode::EveryWrite,
        enabled: true,
    }
}

fn config(dir: &TempDir) -> IngesterConfig {
    IngesterConfig {
        flush_row_count: 1_000_000,
        flush_size_bytes: 1 << 30,
        flush_interval: Duration::from_secs(3600),
        wal: wal_config(dir),
        ..Default::default()
    }
}

fn storage() -> StorageConfig {
    StorageConfig {
        provider: CloudProvider::Memory,
        container: "bucket".into(),
        tenant_id: "tenant".into(),
    }
}

fn segment_len(dir: &TempDir) -> u64 {
    std::fs::metadata(dir.path().join("segment-000001.wal"))
        .map(|m| m.len())
        .unwrap_or(0)
}

async fn settled_segment_len(dir: &TempDir) -> u64 {
    // let tokio's background file write finish
    let mut last = segment_len(dir);
    loop {
        tokio::time::sleep(Duration::from_millis(30)).await;
        let now = segment_len(dir);
        if now == last {
            return now;
        }
        last = now;
    }
}

async fn values_in_catalog(
    store: &Arc<dyn ObjectStore>,
    metadata: &Arc<dyn MetadataClient>,
) -> BTreeSet<i64> {
    let mut out = BTreeSet::new();
    for chunk in metadata.list_chunks().await.unwrap() {
        let bytes: Bytes = store
            .get(&Path::from(chunk.chunk_path.as_str()))
            .await
            .unwrap()
            .bytes()
            .await
            .unwrap();
        let reader = ParquetRecordBatchReaderBuilder::try_new(bytes)
            .unwrap()
            .build()
            .unwrap();
        for b in reader {
            let b = b.unwrap();
            let col = b.column_by_name("value").unwrap();
            let a = col.as_any().downcast_ref::<Int64Array>().unwrap();
            out.extend(a.iter().flatten());
        }
    }
    out
}

#[tokio::test(flavor = "multi_thread", worker_threads = 2)]
async fn acked_writes_behind_a_cancelled_wal_append_are_unrecoverable() {
    let dir = TempDir::new().unwrap();
    let store: Arc<dyn ObjectStore> = Arc::new(InMemory::new());
    let metadata: Arc<dyn MetadataClient> = Arc::new(LocalMetadataClient::new());

    let mut ing = Ingester::new(
        config(&dir),
        store.clone(),
        metadata.clone(),
        storage(),
        MetricSchema::default_metrics(),
    );
    ing.ensure_wal().await.unwrap();

    // Write #1: acknowledged.
    ing.write(batch(1..=5)).await.expect("write #1 must be acked");

    // A request whose client goes away while the WAL append is between header and payload.
    // The request future is polled once and dropped at its first suspension point, which is
    // the wait for the header's background write inside `append_payload`. (If the header's
    // background write happened to finish before the payload write was attempted, the frame
    // is complete and the attempt is simply repeated.)
    let mut torn = false;
    for attempt in 1..=200 {
        let before = settled_segment_len(&dir).await;
        let mut request = Box::pin(ing.write(batch(1000..=1004)));
        let first_poll = futures::poll!(request.as_mut());
        drop(request); // client disconnected: hyper / tonic drop the handler future
        let after = settled_segment_len(&dir).await;
        println!(
            "attempt {}: first poll ready = {}, segment grew by {} bytes",
            attempt,
            matches!(first_poll, Poll::Ready(_)),
            after - before
        );
        if after - before == WAL_HEADER_LEN {
            torn = true;
            break;
        }
    }
    assert!(
        torn,
        "could not reproduce the header-only frame (timing); the defect was not exercised"
    );

    // Writes #3 and #4: acknowledged, WAL fsynced on every write.
    ing.write(batch(11..=15)).await.expect("write #3 must be acked");
    ing.write(batch(16..=20)).await.expect("write #4 must be acked");
    assert_eq!(ing.buffer_stats().await.row_count >= 15, true);

    // Crash. What can be read back from the log?
    drop(ing);
    {
        let wal = WriteAheadLog::open(wal_config(&dir)).await.unwrap();
        let readable: Vec<u64> = wal
            .read_entries_after(0)
            .unwrap()
            .iter()
            .map(|e| e.seq)
            .collect();
        println!(
            "readable WAL sequences after crash: {:?}; segment length now {}",
            readable,
            segment_len(&dir)
        );
    }

    // Restart on the same WAL directory.
    let mut ing = Ingester::new(
        config(&dir),
        store.clone(),
        metadata.clone(),
        storage(),
        MetricSchema::default_metrics(),
    );
    ing.ensure_wal().await.unwrap();
    let recovered_rows = ing.buffer_stats().await.row_count;
    ing.shutdown_token().cancel();
    ing.run_flush_timer().await;
    let stored = values_in_catalog(&store, &metadata).await;
    println!(
        "recovered buffer rows = {}, catalog values after restart+flush = {:?}",
        recovered_rows, stored
    );

    let missing: Vec<i64> = (1..=5)
        .chain(11..=20)
        .filter(|v| !stored.contains(v))
        .collect();
    assert!(
        missing.is_empty(),
        "C01 violated: writes #3 and #4 were acknowledged with the WAL fsynced on every write, but \
         after a crash their rows {:?} are neither in a catalog chunk nor in the recovered buffer \
         ({} rows recovered); their WAL frames sit behind the header-only frame left by a cancelled \
         append and cannot be read back",
        missing,
        recovered_rows
    );
}
