//! Demonstration for F18: `timestamp NOT BETWEEN a AND b` must not narrow the scan range to [a, b].
use cardinalsin::query::{CacheConfig, QueryEngine, TieredCache};
use cardinalsin::StorageConfig;
use object_store::memory::InMemory;
use std::sync::Arc;

async fn engine() -> (QueryEngine, tempfile::TempDir) {
    let dir = tempfile::tempdir().unwrap();
    let cache = Arc::new(
        TieredCache::new(CacheConfig {
            l1_size: 10 * 1024 * 1024,
            l2_size: 50 * 1024 * 1024,
            l2_dir: Some(dir.path().to_str().unwrap().to_string()),
        })
        .await
        .unwrap(),
    );
    let engine = QueryEngine::new(Arc::new(InMemory::new()), cache, &StorageConfig::default())
        .await
        .unwrap();
    (engine, dir)
}

#[tokio::test]
async fn not_between_gives_no_bound() {
    let (engine, _dir) = engine().await;
    let range = engine
        .extract_time_range("SELECT * FROM metrics WHERE timestamp NOT BETWEEN 100 AND 200")
        .await
        .unwrap();
    // timestamps 50 and 250 satisfy the WHERE clause, so the scan range must not be [100, 200]
    assert!(
        !(range.start == 100 && range.end == 200),
        "NOT BETWEEN was treated like BETWEEN: range = [{}, {}]",
        range.start,
        range.end
    );
}

#[tokio::test]
async fn between_still_bounds() {
    let (engine, _dir) = engine().await;
    let range = engine
        .extract_time_range("SELECT * FROM metrics WHERE timestamp BETWEEN 100 AND 200")
        .await
        .unwrap();
    assert_eq!((range.start, range.end), (100, 200));
}
