//! C03 audit, defect 1: ChunkMerger::merge concatenates the source chunks BY COLUMN POSITION
//! (arrow `concat_batches(&batches[0].schema(), ..)`), not by column name.
//!
//! The ingester deliberately writes one chunk per schema (`WriteBuffer::schema_compatible`
//! flushes on every schema change), and the ingest front-ends derive the label columns from
//! hash sets / hash maps, so two chunks of the same hour routinely have
//!   * the same label columns in a different order, or
//!   * a different number of label columns.
//! The query engine copes with that (ListingTable merges the file schemas by name), so all
//! those rows are queryable before compaction.  After one compaction cycle
//!   * label VALUES have moved to another column (same column count), or
//!   * a label column is gone / the compactor panicked (different column count).
//!
//! Everything here uses public APIs only and the unchanged code.

use std::collections::{BTreeMap, HashMap};
use std::sync::Arc;

use arrow_array::{Array, ArrayRef, Float64Array, RecordBatch, StringArray, TimestampNanosecondArray};
use arrow_schema::{DataType, Field, Schema, TimeUnit};
use bytes::Bytes;
use object_store::memory::InMemory;
use object_store::ObjectStore;
use parquet::arrow::arrow_reader::ParquetRecordBatchReaderBuilder;

use cardinalsin::api::ingest::otlp::{data_points_to_arrow, MetricDataPoint};
use cardinalsin::compactor::{Compactor, CompactorConfig};
use cardinalsin::ingester::{Ingester, IngesterConfig};
use cardinalsin::metadata::{
    LocalMetadataClient, MetadataClient, S3MetadataClient, S3MetadataConfig,
};
use cardinalsin::query::{QueryConfig, QueryNode};
use cardinalsin::schema::MetricSchema;
use cardinalsin::sharding::{HotShardConfig, ShardMonitor};
use cardinalsin::StorageConfig;

const HOUR: i64 = 3_600_000_000_000;

/// Start of the current hour: every test row lives in [hour start, hour start + 1 ms),
/// i.e. in one L0 hour group and far inside the 90 day retention window.
fn base_ts() -> i64 {
    let now = chrono::Utc::now().timestamp_nanos_opt().unwrap();
    (now / HOUR) * HOUR
}

/// A batch `timestamp, metric_name, value_f64, <labels in the given order>`.
fn batch(ts0: i64, n: usize, labels: &[(&str, &str)]) -> RecordBatch {
    let mut fields = vec![
        Field::new(
            "timestamp",
            DataType::Timestamp(TimeUnit::Nanosecond, Some("UTC".into())),
            false,
        ),
        Field::new("metric_name", DataType::Utf8, false),
        Field::new("value_f64", DataType::Float64, true),
    ];
    let mut cols: Vec<ArrayRef> = vec![
        Arc::new(
            TimestampNanosecondArray::from((0..n as i64).map(|i| ts0 + i).collect::<Vec<_>>())
                .with_timezone("UTC"),
        ),
        Arc::new(StringArray::from(vec!["cpu"; n])),
        Arc::new(Float64Array::from(
            (0..n).map(|i| i as f64).collect::<Vec<_>>(),
        )),
    ];
    for (k, v) in labels {
        fields.push(Field::new(*k, DataType::Utf8, true));
        cols.push(Arc::new(StringArray::from(vec![*v; n])));
    }
    RecordBatch::try_new(Arc::new(Schema::new(fields)), cols).unwrap()
}

fn s3_metadata(store: Arc<dyn ObjectStore>) -> Arc<dyn MetadataClient> {
    Arc::new(S3MetadataClient::new(
        store,
        S3MetadataConfig {
            bucket: "test".into(),
            metadata_prefix: "meta/".into(),
            enable_cache: false,
            allow_unsafe_overwrite: false,
        },
    ))
}

/// An ingester that turns every write() into one flushed L0 chunk.
fn ingester(store: Arc<dyn ObjectStore>, metadata: Arc<dyn MetadataClient>) -> Ingester {
    let mut cfg = IngesterConfig::default();
    cfg.flush_row_count = 1;
    cfg.wal.enabled = false;
    Ingester::new(
        cfg,
        store,
        metadata,
        StorageConfig::default(),
        MetricSchema::default_metrics(),
    )
}

fn compactor(store: Arc<dyn ObjectStore>, metadata: Arc<dyn MetadataClient>) -> Compactor {
    Compactor::new(
        CompactorConfig {
            l0_merge_threshold: 2,
            sharding_enabled: false,
            ..Default::default()
        },
        store,
        metadata,
        StorageConfig::default(),
        Arc::new(ShardMonitor::new(HotShardConfig::default())),
    )
}

/// The multiset of rows reachable through the catalog.  A row is the set of its non-null
/// `column=value` pairs (by column NAME), so neither the column order of a file nor an
/// absent-vs-null label makes two rows differ.
async fn reachable_rows(
    store: &Arc<dyn ObjectStore>,
    metadata: &Arc<dyn MetadataClient>,
) -> BTreeMap<String, usize> {
    let mut rows = BTreeMap::new();
    for chunk in metadata.list_chunks().await.unwrap() {
        let bytes: Bytes = store
            .get(&chunk.chunk_path.as_str().into())
            .await
            .unwrap()
            .bytes()
            .await
            .unwrap();
        let reader = ParquetRecordBatchReaderBuilder::try_new(bytes)
            .unwrap()
            .build()
            .unwrap();
        for b in reader {
            let b = b.unwrap();
            let schema = b.schema();
            for r in 0..b.num_rows() {
                let mut kv: Vec<String> = Vec::new();
                for (c, f) in schema.fields().iter().enumerate() {
                    let col = b.column(c);
                    if col.is_null(r) {
                        continue;
                    }
                    let v = arrow::util::display::array_value_to_string(col, r).unwrap();
                    kv.push(format!("{}={}", f.name(), v));
                }
                kv.sort();
                *rows.entry(kv.join(" ")).or_insert(0) += 1;
            }
        }
    }
    rows
}

fn diff(before: &BTreeMap<String, usize>, after: &BTreeMap<String, usize>) -> String {
    let mut out = String::new();
    let mut lost = 0;
    let mut invented = 0;
    for (row, n) in before {
        let m = after.get(row).copied().unwrap_or(0);
        if m < *n {
            lost += n - m;
            if lost <= 3 {
                out.push_str(&format!("\n  LOST      {}x  {}", n - m, row));
            }
        }
    }
    for (row, m) in after {
        let n = before.get(row).copied().unwrap_or(0);
        if *m > n {
            invented += m - n;
            if invented <= 3 {
                out.push_str(&format!("\n  INVENTED  {}x  {}", m - n, row));
            }
        }
    }
    format!("{lost} stored rows lost, {invented} rows that were never written appeared{out}")
}

async fn sql_count(node: &QueryNode, sql: &str) -> i64 {
    use arrow_array::cast::AsArray;
    use arrow_array::types::Int64Type;
    let batches = node.query(sql).await.unwrap();
    batches
        .iter()
        .map(|b| {
            let c = b.column(0).as_primitive::<Int64Type>();
            (0..c.len()).map(|i| c.value(i)).sum::<i64>()
        })
        .sum()
}

/// Same label set, different column order (what the OTLP front-end produces for two requests
/// with identical labels, see test 3).  Deterministic: whichever chunk the merger reads first,
/// the other chunk's label values land in the wrong columns.
#[tokio::test(flavor = "multi_thread", worker_threads = 2)]
async fn d1a_compaction_moves_label_values_into_other_columns() {
    let store: Arc<dyn ObjectStore> = Arc::new(InMemory::new());
    let metadata = s3_metadata(store.clone());
    let ing = ingester(store.clone(), metadata.clone());
    let t0 = base_ts();

    // chunk 1: columns .. host, region      chunk 2: columns .. region, host
    ing.write(batch(t0, 10, &[("host", "web-1"), ("region", "eu")]))
        .await
        .unwrap();
    ing.write(batch(t0 + 100, 10, &[("region", "us"), ("host", "db-7")]))
        .await
        .unwrap();
    assert_eq!(metadata.list_chunks().await.unwrap().len(), 2, "two L0 chunks");

    let node = QueryNode::new(
        QueryConfig::default(),
        store.clone(),
        metadata.clone(),
        StorageConfig::default(),
    )
    .await
    .unwrap();

    let before = reachable_rows(&store, &metadata).await;
    let web1_before = sql_count(&node, "SELECT count(*) FROM metrics WHERE host = 'web-1'").await;
    let db7_before = sql_count(&node, "SELECT count(*) FROM metrics WHERE host = 'db-7'").await;
    assert_eq!((web1_before, db7_before), (10, 10), "both hosts queryable before compaction");

    compactor(store.clone(), metadata.clone())
        .run_compaction_cycle()
        .await
        .expect("compaction cycle reports success");
    assert_eq!(
        metadata.list_chunks().await.unwrap().len(),
        1,
        "the two L0 chunks were merged into one"
    );

    let web1_after = sql_count(&node, "SELECT count(*) FROM metrics WHERE host = 'web-1'").await;
    let db7_after = sql_count(&node, "SELECT count(*) FROM metrics WHERE host = 'db-7'").await;
    let as_host_after = sql_count(
        &node,
        "SELECT count(*) FROM metrics WHERE host = 'eu' OR host = 'us'",
    )
    .await;
    let after = reachable_rows(&store, &metadata).await;

    assert!(
        before == after && (web1_after, db7_after) == (10, 10),
        "C03 VIOLATED: run_compaction_cycle returned Ok, but the rows reachable through the \
         catalog are no longer the rows that were stored: {}\n  SQL: host='web-1' {} -> {} rows, \
         host='db-7' {} -> {} rows, rows whose *host* is now a region name ('eu'/'us'): {}",
        diff(&before, &after),
        web1_before,
        web1_after,
        db7_before,
        db7_after,
        as_host_after,
    );
}

/// One chunk has a label the other lacks.  Which chunk the merger reads first is decided by
/// hash-map iteration order, so both outcomes are collected over fresh trials:
///   narrow chunk first -> the extra label column is silently dropped from the merged chunk,
///   wide chunk first   -> arrow indexes past the narrow batch's columns and the cycle panics.
#[tokio::test(flavor = "multi_thread", worker_threads = 2)]
async fn d1b_compaction_drops_a_label_column_or_panics() {
    let mut dropped: Option<String> = None;
    let mut panicked: Option<String> = None;
    let mut intact = 0;

    for _trial in 0..40 {
        if dropped.is_some() && panicked.is_some() {
            break;
        }
        let store: Arc<dyn ObjectStore> = Arc::new(InMemory::new());
        let metadata: Arc<dyn MetadataClient> = Arc::new(LocalMetadataClient::new());
        let ing = ingester(store.clone(), metadata.clone());
        let t0 = base_ts();
        ing.write(batch(t0, 5, &[("host", "web-1")])).await.unwrap();
        ing.write(batch(t0 + 100, 5, &[("host", "web-2"), ("pod", "p-42")]))
            .await
            .unwrap();
        let before = reachable_rows(&store, &metadata).await;

        let c = Arc::new(compactor(store.clone(), metadata.clone()));
        let c2 = c.clone();
        let res = tokio::spawn(async move { c2.run_compaction_cycle().await }).await;
        match res {
            Err(join_err) if join_err.is_panic() => {
                let p = join_err.into_panic();
                let msg = p
                    .downcast_ref::<String>()
                    .cloned()
                    .or_else(|| p.downcast_ref::<&str>().map(|s| s.to_string()))
                    .unwrap_or_default();
                panicked.get_or_insert(msg);
            }
            Err(e) => panic!("unexpected join error {e}"),
            Ok(r) => {
                r.expect("cycle reports success");
                let after = reachable_rows(&store, &metadata).await;
                if before == after {
                    intact += 1;
                } else {
                    dropped.get_or_insert(diff(&before, &after));
                }
            }
        }
    }

    assert!(
        dropped.is_none() && panicked.is_none(),
        "C03 VIOLATED when two L0 chunks of one hour differ in their label columns \
         ({intact} trials left the rows intact):\n \
         narrow chunk read first -> run_compaction_cycle returned Ok but {}\n \
         wide chunk read first   -> run_compaction_cycle panicked: {}",
        dropped.unwrap_or_else(|| "(order not hit in 40 trials)".into()),
        panicked.unwrap_or_else(|| "(order not hit in 40 trials)".into()),
    );
}

/// The same thing without hand-made schemas: four OTLP exports with IDENTICAL label keys go
/// through the crate's own OTLP -> Arrow conversion (label columns in HashSet order, a fresh
/// RandomState per request) and through the ingester.
#[tokio::test(flavor = "multi_thread", worker_threads = 2)]
async fn d1c_otlp_requests_with_identical_labels_are_scrambled_by_compaction() {
    let store: Arc<dyn ObjectStore> = Arc::new(InMemory::new());
    let metadata = s3_metadata(store.clone());
    let ing = ingester(store.clone(), metadata.clone());
    let t0 = base_ts();

    let mut orders = Vec::new();
    for req in 0..4i64 {
        let points: Vec<MetricDataPoint> = (0..5i64)
            .map(|i| MetricDataPoint {
                timestamp_nanos: t0 + req * 100 + i,
                metric_name: "http_requests".into(),
                value: i as f64,
                labels: HashMap::from([
                    ("host".to_string(), format!("host-{req}")),
                    ("region".to_string(), "eu-west-1".to_string()),
                    ("service".to_string(), "checkout".to_string()),
                    ("pod".to_string(), format!("pod-{req}-{i}")),
                    ("version".to_string(), "v1.2.3".to_string()),
                ]),
            })
            .collect();
        let b = data_points_to_arrow(points).unwrap();
        orders.push(
            b.schema()
                .fields()
                .iter()
                .skip(3)
                .map(|f| f.name().clone())
                .collect::<Vec<_>>()
                .join(","),
        );
        ing.write(b).await.unwrap();
    }

    let before = reachable_rows(&store, &metadata).await;
    assert_eq!(before.values().sum::<usize>(), 20);

    // all four chunks are in one hour group; threshold 2
    let c = Arc::new(compactor(store.clone(), metadata.clone()));
    let c2 = c.clone();
    let res = tokio::spawn(async move { c2.run_compaction_cycle().await }).await;
    let outcome = match res {
        Err(e) if e.is_panic() => "panicked".to_string(),
        Err(e) => panic!("{e}"),
        Ok(r) => format!("returned {:?}", r.map(|_| ())),
    };
    let after = reachable_rows(&store, &metadata).await;

    assert!(
        before == after,
        "C03 VIOLATED for plain OTLP ingestion: 4 exports with the same 5 label keys produced the \
         label column orders {:?}; run_compaction_cycle {} and afterwards {}",
        orders,
        outcome,
        diff(&before, &after),
    );
}
