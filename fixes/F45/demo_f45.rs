//! C09 audit - defect 2 demonstration.
//! One failed GET of pending-deletions.json at start-up makes the first cycle's persist overwrite
//! (wipe) every deletion the previous process had persisted.
//!
//! Drop into tests/ and run: cargo test --offline --test defect2 -- --nocapture
//! Expected on the unchanged code: the test FAILS with a message stating the violation.
#![allow(unused_imports, dead_code)]

mod c09_common {
//! Shared scaffolding for the C09 audit demonstrations (public APIs only).
#![allow(dead_code)]

use arrow_array::{Float64Array, RecordBatch, StringArray, TimestampNanosecondArray};
use arrow_schema::{DataType, Field, Schema, TimeUnit};
use async_trait::async_trait;
use cardinalsin::ingester::{ChunkMetadata, ParquetWriter};
use cardinalsin::metadata::{
    ColumnPredicate, CompactionJob, CompactionLease, CompactionLeases, CompactionStatus,
    MetadataClient, SplitState, TimeRange,
};
use cardinalsin::sharding::SplitPhase;
use futures::future::BoxFuture;
use futures::stream::BoxStream;
use object_store::memory::InMemory;
use object_store::path::Path;
use object_store::{
    GetOptions, GetResult, ListResult, MultipartUpload, ObjectMeta, ObjectStore, PutMultipartOpts,
    PutOptions, PutPayload, PutResult,
};
use parking_lot::Mutex;
use std::sync::Arc;
use std::time::Duration;

// ── one-shot latch ───────────────────────────────────────────────────────

#[derive(Clone)]
pub struct Latch(Arc<tokio::sync::watch::Sender<bool>>);

impl Latch {
    pub fn new() -> Self {
        Latch(Arc::new(tokio::sync::watch::channel(false).0))
    }
    pub fn open(&self) {
        self.0.send_replace(true);
    }
    pub fn is_open(&self) -> bool {
        *self.0.borrow()
    }
    pub async fn wait(&self, what: &str) {
        let mut rx = self.0.subscribe();
        let fut = async {
            while !*rx.borrow_and_update() {
                rx.changed().await.unwrap();
            }
        };
        if tokio::time::timeout(Duration::from_secs(20), fut)
            .await
            .is_err()
        {
            panic!("test harness: timed out waiting for latch '{}'", what);
        }
    }
}

// ── object store wrapper with hooks ──────────────────────────────────────

/// Hook result: `Some(err)` makes the request fail with `err` *without* reaching the
/// inner store; `None` lets it through.
pub type Hook =
    Arc<dyn Fn(String) -> BoxFuture<'static, Option<object_store::Error>> + Send + Sync>;

pub struct HookStore {
    pub inner: Arc<InMemory>,
    pub on_delete: Mutex<Option<Hook>>,
    pub on_get: Mutex<Option<Hook>>,
    /// DELETE requests that reached the inner store, in order.
    pub deletes: Mutex<Vec<String>>,
}

impl HookStore {
    pub fn new() -> Arc<Self> {
        Arc::new(Self {
            inner: Arc::new(InMemory::new()),
            on_delete: Mutex::new(None),
            on_get: Mutex::new(None),
            deletes: Mutex::new(Vec::new()),
        })
    }
    pub fn set_on_delete(&self, h: Hook) {
        *self.on_delete.lock() = Some(h);
    }
    pub fn set_on_get(&self, h: Hook) {
        *self.on_get.lock() = Some(h);
    }
    pub async fn exists(&self, path: &str) -> bool {
        self.inner.head(&Path::from(path)).await.is_ok()
    }
    pub async fn read_string(&self, path: &str) -> Option<String> {
        match self.inner.get(&Path::from(path)).await {
            Ok(r) => Some(String::from_utf8_lossy(&r.bytes().await.unwrap()).to_string()),
            Err(_) => None,
        }
    }
}

pub fn injected(msg: &str) -> object_store::Error {
    object_store::Error::Generic {
        store: "HookStore",
        source: msg.to_string().into(),
    }
}

impl std::fmt::Debug for HookStore {
    fn fmt(&self, f: &mut std::fmt::Formatter<'_>) -> std::fmt::Result {
        write!(f, "HookStore")
    }
}
impl std::fmt::Display for HookStore {
    fn fmt(&self, f: &mut std::fmt::Formatter<'_>) -> std::fmt::Result {
        write!(f, "HookStore")
    }
}

#[async_trait]
impl ObjectStore for HookStore {
    async fn put_opts(
        &self,
        location: &Path,
        payload: PutPayload,
        opts: PutOptions,
    ) -> object_store::Result<PutResult> {
        self.inner.put_opts(location, payload, opts).await
    }
    async fn put_multipart_opts(
        &self,
        location: &Path,
        opts: PutMultipartOpts,
    ) -> object_store::Result<Box<dyn MultipartUpload>> {
        self.inner.put_multipart_opts(location, opts).await
    }
    async fn get_opts(
        &self,
        location: &Path,
        options: GetOptions,
    ) -> object_store::Result<GetResult> {
        let hook = self.on_get.lock().clone();
        if let Some(h) = hook {
            if let Some(e) = h(location.to_string()).await {
                return Err(e);
            }
        }
        self.inner.get_opts(location, options).await
    }
    async fn delete(&self, location: &Path) -> object_store::Result<()> {
        let hook = self.on_delete.lock().clone();
        if let Some(h) = hook {
            if let Some(e) = h(location.to_string()).await {
                return Err(e);
            }
        }
        self.deletes.lock().push(location.to_string());
        self.inner.delete(location).await
    }
    fn list(&self, prefix: Option<&Path>) -> BoxStream<'_, object_store::Result<ObjectMeta>> {
        self.inner.list(prefix)
    }
    async fn list_with_delimiter(&self, prefix: Option<&Path>) -> object_store::Result<ListResult> {
        self.inner.list_with_delimiter(prefix).await
    }
    async fn copy(&self, from: &Path, to: &Path) -> object_store::Result<()> {
        self.inner.copy(from, to).await
    }
    async fn copy_if_not_exists(&self, from: &Path, to: &Path) -> object_store::Result<()> {
        self.inner.copy_if_not_exists(from, to).await
    }
}

// ── metadata wrapper that can park a query at two well-defined points ────

/// Delegates everything to `inner`. Two optional one-shot gates model a slow metadata
/// service as seen by the query node:
///   * `after_chunk_list`: the chunk list has been computed by the catalog, the response
///     is "in flight" (the query has not pinned yet);
///   * `in_has_active_split`: called by `QueryNode::query_for_tenant` right AFTER it pinned
///     its chunks, i.e. the query is running and holds its pins.
pub struct GateMetadata {
    pub inner: Arc<dyn MetadataClient>,
    /// (reached, proceed)
    pub after_chunk_list: Mutex<Option<(Latch, Latch)>>,
    pub in_has_active_split: Mutex<Option<(Latch, Latch)>>,
}

impl GateMetadata {
    pub fn new(inner: Arc<dyn MetadataClient>) -> Arc<Self> {
        Arc::new(Self {
            inner,
            after_chunk_list: Mutex::new(None),
            in_has_active_split: Mutex::new(None),
        })
    }
}

#[async_trait]
impl MetadataClient for GateMetadata {
    async fn register_chunk(&self, path: &str, metadata: &ChunkMetadata) -> cardinalsin::Result<()> {
        self.inner.register_chunk(path, metadata).await
    }
    async fn get_chunks(
        &self,
        range: TimeRange,
    ) -> cardinalsin::Result<Vec<cardinalsin::metadata::TimeIndexEntry>> {
        self.inner.get_chunks(range).await
    }
    async fn get_chunks_with_predicates(
        &self,
        range: TimeRange,
        predicates: &[ColumnPredicate],
    ) -> cardinalsin::Result<Vec<cardinalsin::metadata::TimeIndexEntry>> {
        let result = self
            .inner
            .get_chunks_with_predicates(range, predicates)
            .await;
        let gate = self.after_chunk_list.lock().take();
        if let Some((reached, proceed)) = gate {
            reached.open();
            proceed.wait("after_chunk_list.proceed").await;
        }
        result
    }
    async fn get_chunk(&self, path: &str) -> cardinalsin::Result<Option<ChunkMetadata>> {
        self.inner.get_chunk(path).await
    }
    async fn delete_chunk(&self, path: &str) -> cardinalsin::Result<()> {
        self.inner.delete_chunk(path).await
    }
    async fn list_chunks(&self) -> cardinalsin::Result<Vec<cardinalsin::metadata::TimeIndexEntry>> {
        self.inner.list_chunks().await
    }
    async fn get_l0_candidates(&self, min_count: usize) -> cardinalsin::Result<Vec<Vec<String>>> {
        self.inner.get_l0_candidates(min_count).await
    }
    async fn get_level_candidates(
        &self,
        level: usize,
        target_size: usize,
    ) -> cardinalsin::Result<Vec<Vec<String>>> {
        self.inner.get_level_candidates(level, target_size).await
    }
    async fn create_compaction_job(&self, job: CompactionJob) -> cardinalsin::Result<()> {
        self.inner.create_compaction_job(job).await
    }
    async fn complete_compaction(
        &self,
        source_chunks: &[String],
        target_chunk: &str,
    ) -> cardinalsin::Result<()> {
        self.inner
            .complete_compaction(source_chunks, target_chunk)
            .await
    }
    async fn update_compaction_status(
        &self,
        job_id: &str,
        status: CompactionStatus,
    ) -> cardinalsin::Result<()> {
        self.inner.update_compaction_status(job_id, status).await
    }
    async fn get_pending_compaction_jobs(&self) -> cardinalsin::Result<Vec<CompactionJob>> {
        self.inner.get_pending_compaction_jobs().await
    }
    async fn cleanup_completed_jobs(&self, max_age_secs: i64) -> cardinalsin::Result<usize> {
        self.inner.cleanup_completed_jobs(max_age_secs).await
    }
    async fn start_split(
        &self,
        old_shard: &str,
        new_shards: Vec<String>,
        split_point: Vec<u8>,
    ) -> cardinalsin::Result<()> {
        self.inner
            .start_split(old_shard, new_shards, split_point)
            .await
    }
    async fn get_split_state(&self, shard_id: &str) -> cardinalsin::Result<Option<SplitState>> {
        self.inner.get_split_state(shard_id).await
    }
    async fn update_split_progress(
        &self,
        shard_id: &str,
        progress: f64,
        phase: SplitPhase,
    ) -> cardinalsin::Result<()> {
        self.inner
            .update_split_progress(shard_id, progress, phase)
            .await
    }
    async fn complete_split(&self, old_shard: &str) -> cardinalsin::Result<()> {
        self.inner.complete_split(old_shard).await
    }
    async fn get_chunks_for_shard(
        &self,
        shard_id: &str,
    ) -> cardinalsin::Result<Vec<cardinalsin::metadata::TimeIndexEntry>> {
        self.inner.get_chunks_for_shard(shard_id).await
    }
    async fn get_shard_metadata(
        &self,
        shard_id: &str,
    ) -> cardinalsin::Result<Option<cardinalsin::sharding::ShardMetadata>> {
        self.inner.get_shard_metadata(shard_id).await
    }
    async fn update_shard_metadata(
        &self,
        shard_id: &str,
        metadata: &cardinalsin::sharding::ShardMetadata,
        expected_generation: u64,
    ) -> cardinalsin::Result<()> {
        self.inner
            .update_shard_metadata(shard_id, metadata, expected_generation)
            .await
    }
    async fn acquire_lease(
        &self,
        node_id: &str,
        chunks: &[String],
        level: u32,
    ) -> cardinalsin::Result<CompactionLease> {
        self.inner.acquire_lease(node_id, chunks, level).await
    }
    async fn complete_lease(&self, lease_id: &str) -> cardinalsin::Result<()> {
        self.inner.complete_lease(lease_id).await
    }
    async fn fail_lease(&self, lease_id: &str) -> cardinalsin::Result<()> {
        self.inner.fail_lease(lease_id).await
    }
    async fn renew_lease(&self, lease_id: &str) -> cardinalsin::Result<()> {
        self.inner.renew_lease(lease_id).await
    }
    async fn load_leases(&self) -> cardinalsin::Result<CompactionLeases> {
        self.inner.load_leases().await
    }
    async fn scavenge_leases(&self) -> cardinalsin::Result<usize> {
        self.inner.scavenge_leases().await
    }
    async fn has_active_split(&self) -> cardinalsin::Result<bool> {
        let gate = self.in_has_active_split.lock().take();
        if let Some((reached, proceed)) = gate {
            reached.open();
            proceed.wait("in_has_active_split.proceed").await;
        }
        self.inner.has_active_split().await
    }
}

// ── data helpers ─────────────────────────────────────────────────────────

pub fn now_nanos() -> i64 {
    chrono::Utc::now().timestamp_nanos_opt().unwrap()
}

/// `n` rows, one per millisecond starting at `start_ts` (nanoseconds).
pub fn make_batch(n: usize, start_ts: i64) -> RecordBatch {
    let schema = Arc::new(Schema::new(vec![
        Field::new(
            "timestamp",
            DataType::Timestamp(TimeUnit::Nanosecond, Some("UTC".into())),
            false,
        ),
        Field::new("metric_name", DataType::Utf8, false),
        Field::new("value_f64", DataType::Float64, true),
    ]));
    let timestamps: Vec<i64> = (0..n as i64).map(|i| start_ts + i * 1_000_000).collect();
    let names: Vec<&str> = (0..n).map(|_| "cpu").collect();
    let values: Vec<f64> = (0..n).map(|i| i as f64).collect();
    RecordBatch::try_new(
        schema,
        vec![
            Arc::new(TimestampNanosecondArray::from(timestamps).with_timezone("UTC")),
            Arc::new(StringArray::from(names)),
            Arc::new(Float64Array::from(values)),
        ],
    )
    .unwrap()
}

/// Write a real Parquet chunk to `store` and register it in the catalog, the way the
/// ingester does.
pub async fn put_chunk(
    store: &Arc<dyn ObjectStore>,
    metadata: &Arc<dyn MetadataClient>,
    path: &str,
    n: usize,
    start_ts: i64,
) {
    let batch = make_batch(n, start_ts);
    let bytes = ParquetWriter::new().write_batch(&batch).unwrap();
    let size = bytes.len() as u64;
    store.put(&Path::from(path), bytes.into()).await.unwrap();
    let meta = ChunkMetadata {
        path: path.to_string(),
        min_timestamp: start_ts,
        max_timestamp: start_ts + (n as i64 - 1) * 1_000_000,
        row_count: n as u64,
        size_bytes: size,
    };
    metadata.register_chunk(path, &meta).await.unwrap();
}

pub fn total_rows(batches: &[RecordBatch]) -> usize {
    batches.iter().map(|b| b.num_rows()).sum()
}

/// Value of a single-row, single-column COUNT(*) result.
pub fn count_value(batches: &[RecordBatch]) -> i64 {
    use arrow_array::cast::AsArray;
    use arrow_array::types::Int64Type;
    let b = batches.iter().find(|b| b.num_rows() > 0).expect("count row");
    b.column(0).as_primitive::<Int64Type>().value(0)
}
}
use c09_common::*;

use cardinalsin::compactor::{ChunkPinRegistry, Compactor, CompactorConfig};
use cardinalsin::metadata::{LocalMetadataClient, MetadataClient};
use cardinalsin::query::{QueryConfig, QueryNode};
use cardinalsin::sharding::{HotShardConfig, ShardMonitor, ShardSplitter};
use cardinalsin::StorageConfig;
use futures::FutureExt;
use object_store::path::Path;
use object_store::ObjectStore;
use parking_lot::Mutex;
use std::sync::atomic::{AtomicUsize, Ordering};
use std::sync::Arc;
use std::time::Duration;

const PENDING: &str = "default/metadata/pending-deletions.json";

fn compactor_config(grace: Duration) -> CompactorConfig {
    CompactorConfig {
        l0_merge_threshold: 2,
        gc_grace_period: grace,
        check_interval: Duration::from_millis(50),
        sharding_enabled: false,
        ..Default::default()
    }
}

fn new_compactor(
    cfg: CompactorConfig,
    store: Arc<dyn ObjectStore>,
    metadata: Arc<dyn MetadataClient>,
) -> Compactor {
    Compactor::new(
        cfg,
        store,
        metadata,
        StorageConfig::default(),
        Arc::new(ShardMonitor::new(HotShardConfig::default())),
    )
}

/// Run `Compactor::run()` (load persisted deletions, then cycles) for `for_how_long`.
async fn run_for(compactor: Arc<Compactor>, for_how_long: Duration) {
    let token = compactor.shutdown_token();
    let c = compactor.clone();
    let h = tokio::spawn(async move { c.run().await });
    tokio::time::sleep(for_how_long).await;
    token.cancel();
    h.await.expect("compactor.run() panicked");
}

fn pending_json(path: &str, scheduled_at: chrono::DateTime<chrono::Utc>) -> String {
    serde_json::json!([{ "path": path, "scheduled_at": scheduled_at }]).to_string()
}

// ─────────────────────────────────────────────────────────────────────────
// 2. A failed load at start-up makes the first persist wipe the persisted deletions
// ─────────────────────────────────────────────────────────────────────────
#[tokio::test(flavor = "multi_thread", worker_threads = 4)]
async fn persisted_deletions_lost_when_startup_load_fails_once() {
    async fn scenario(fail_first_load: bool) -> (bool, Option<String>) {
        let store = HookStore::new();
        let store_dyn: Arc<dyn ObjectStore> = store.clone();
        let metadata: Arc<dyn MetadataClient> = Arc::new(LocalMetadataClient::new());

        // State left behind by the previous compactor process: an unreferenced data file
        // and the deletion it persisted at the end of its last cycle, 10 minutes ago.
        let p = "default/data/year=2026/month=01/day=01/hour=00/chunk_old.parquet";
        store_dyn
            .put(&Path::from(p), bytes::Bytes::from_static(b"x").into())
            .await
            .unwrap();
        let ten_min_ago = chrono::Utc::now() - chrono::Duration::minutes(10);
        store_dyn
            .put(
                &Path::from(PENDING),
                pending_json(p, ten_min_ago).into_bytes().into(),
            )
            .await
            .unwrap();

        if fail_first_load {
            let calls = Arc::new(AtomicUsize::new(0));
            store.set_on_get(Arc::new(move |path: String| {
                let calls = calls.clone();
                async move {
                    if path == PENDING && calls.fetch_add(1, Ordering::SeqCst) == 0 {
                        Some(injected("transient 503 on GET pending-deletions.json"))
                    } else {
                        None
                    }
                }
                .boxed()
            }));
        }

        // The restarted compactor: default 5 min grace, which has long elapsed for `p`.
        let compactor = Arc::new(new_compactor(
            compactor_config(Duration::from_secs(300)),
            store_dyn.clone(),
            metadata,
        ));
        run_for(compactor, Duration::from_millis(600)).await;
        (store.exists(p).await, store.read_string(PENDING).await)
    }

    let (exists, pending) = scenario(false).await;
    assert!(
        !exists,
        "control: without the fault the restarted compactor carries the persisted deletion out"
    );
    println!("control ok: file deleted, pending file now {:?}", pending);

    let (exists, pending) = scenario(true).await;
    println!(
        "faulty start-up: file still exists = {}, pending-deletions.json = {:?}",
        exists, pending
    );
    assert!(
        !exists || pending.as_deref().map_or(false, |s| s.contains("chunk_old")),
        "C09 violated: a deletion persisted at the end of a cycle was neither carried out after \
         the restart nor kept for later. One transient GET failure in load_pending_deletions() \
         left the in-memory list empty and the first cycle's persist_pending_deletions() \
         overwrote the file with it: data file still exists = {}, pending-deletions.json = {:?}",
        exists,
        pending
    );
}

