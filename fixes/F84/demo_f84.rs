//! C17 defect 2: a label / attribute whose NAME equals one of the fixed column names
//! (`timestamp`, `metric_name`, `value_f64`, ...) is turned into a second column of the
//! same name. The request is acknowledged (204 / OK), but the sample's label set can no
//! longer be read back, and for `timestamp` the flushed chunk makes EVERY later query on
//! the `metrics` table fail (rows of all other series included).

use arrow_array::cast::AsArray;
use arrow_array::{Array, RecordBatch};
use axum::body::Bytes;
use axum::extract::State;
use axum::http::StatusCode;
use axum::response::IntoResponse;
use cardinalsin::api::grpc::OtlpGrpcService;
use cardinalsin::api::ingest::prometheus::handle_remote_write;
use cardinalsin::api::ApiState;
use cardinalsin::ingester::{Ingester, IngesterConfig};
use cardinalsin::metadata::LocalMetadataClient;
use cardinalsin::query::{QueryConfig, QueryNode};
use cardinalsin::schema::MetricSchema;
use cardinalsin::StorageConfig;
use object_store::memory::InMemory;
use opentelemetry_proto::tonic::collector::metrics::v1::metrics_service_server::MetricsService;
use opentelemetry_proto::tonic::collector::metrics::v1::ExportMetricsServiceRequest;
use opentelemetry_proto::tonic::common::v1::{any_value, AnyValue, KeyValue};
use opentelemetry_proto::tonic::metrics::v1::{
    metric::Data, number_data_point, Gauge, Metric, NumberDataPoint, ResourceMetrics, ScopeMetrics,
};
use std::sync::Arc;

// ---- minimal protobuf writer for prometheus.WriteRequest --------------------------
fn varint(mut v: u64, out: &mut Vec<u8>) {
    loop {
        let b = (v & 0x7f) as u8;
        v >>= 7;
        if v == 0 {
            out.push(b);
            return;
        }
        out.push(b | 0x80);
    }
}
fn ld(field: u32, payload: &[u8], out: &mut Vec<u8>) {
    varint(((field << 3) | 2) as u64, out);
    varint(payload.len() as u64, out);
    out.extend_from_slice(payload);
}
fn series(labels: &[(&str, &str)], samples: &[(f64, i64)]) -> Vec<u8> {
    let mut ts = Vec::new();
    for (n, v) in labels {
        let mut l = Vec::new();
        ld(1, n.as_bytes(), &mut l);
        ld(2, v.as_bytes(), &mut l);
        ld(1, &l, &mut ts);
    }
    for (v, t) in samples {
        let mut s = vec![(1 << 3) | 1];
        s.extend_from_slice(&v.to_le_bytes());
        s.push(2 << 3);
        varint(*t as u64, &mut s);
        ld(2, &s, &mut ts);
    }
    ts
}
fn remote_write_body(series_list: &[Vec<u8>]) -> Bytes {
    let mut req = Vec::new();
    for s in series_list {
        ld(1, s, &mut req);
    }
    Bytes::from(snap::raw::Encoder::new().compress_vec(&req).unwrap())
}

/// Ingester that flushes every request into its own chunk + a query node on the same store.
async fn setup() -> ApiState {
    let store = Arc::new(InMemory::new());
    let metadata = Arc::new(LocalMetadataClient::new());
    let ingester = Arc::new(Ingester::new(
        IngesterConfig {
            flush_row_count: 1,
            ..Default::default()
        },
        store.clone(),
        metadata.clone(),
        StorageConfig::default(),
        MetricSchema::default_metrics(),
    ));
    let query_node = Arc::new(
        QueryNode::new(
            QueryConfig::default(),
            store,
            metadata,
            StorageConfig::default(),
        )
        .await
        .unwrap(),
    );
    ApiState {
        ingester,
        query_node,
    }
}

async fn post(state: &ApiState, body: Bytes) -> StatusCode {
    handle_remote_write(State(state.clone()), body)
        .await
        .into_response()
        .status()
}

fn strings(batches: &[RecordBatch], col: usize) -> Vec<Option<String>> {
    let mut out = Vec::new();
    for b in batches {
        let c = arrow::compute::cast(b.column(col), &arrow_schema::DataType::Utf8).unwrap();
        let c = c.as_string::<i32>();
        for i in 0..c.len() {
            out.push((!c.is_null(i)).then(|| c.value(i).to_string()));
        }
    }
    out
}


/// After `mem{host=b}` and `cpu{host=a, timestamp=...}` were both acknowledged: both must be
/// readable, and the cpu row must carry the sample's own timestamp.
async fn check_cpu_and_mem(state: &ApiState, expected_cpu_ts_ns: i64) -> Vec<String> {
    let mut violations = Vec::new();
    match state
        .query_node
        .query("SELECT metric_name, host FROM metrics WHERE metric_name = 'mem'")
        .await
    {
        Ok(b) if b.iter().map(|x| x.num_rows()).sum::<usize>() == 1 => {}
        other => violations.push(format!(
            "the row of the UNRELATED series `mem` became unreadable: {other:?}"
        )),
    }
    match state
        .query_node
        .query("SELECT \"timestamp\", metric_name FROM metrics WHERE metric_name = 'cpu'")
        .await
    {
        Err(e) => violations.push(format!("the acknowledged cpu row cannot be read back: {e}")),
        Ok(b) => {
            let mut ts = Vec::new();
            for batch in &b {
                let c = arrow::compute::cast(batch.column(0), &arrow_schema::DataType::Int64)
                    .unwrap();
                let c = c.as_primitive::<arrow_array::types::Int64Type>();
                ts.extend((0..c.len()).map(|i| c.value(i)));
            }
            if ts != vec![expected_cpu_ts_ns] {
                violations.push(format!(
                    "the cpu sample's timestamp was replaced by the LABEL VALUE parsed as a date: \
                     stored/returned timestamp(s) {:?} (= {:?}), sample timestamp {} ns",
                    ts,
                    ts.iter()
                        .map(|t| chrono::DateTime::from_timestamp_nanos(*t).to_rfc3339())
                        .collect::<Vec<_>>(),
                    expected_cpu_ts_ns
                ));
            }
        }
    }
    violations
}

/// Prometheus remote write, label called `timestamp` (exporters do expose such labels).
#[tokio::test]
async fn prom_label_named_timestamp_poisons_the_table() {
    let state = setup().await;
    let now_ms = chrono::Utc::now().timestamp_millis();

    // an ordinary series first, and proof that it is readable
    let ordinary = remote_write_body(&[series(
        &[("__name__", "mem"), ("host", "b")],
        &[(2.5, now_ms)],
    )]);
    assert_eq!(post(&state, ordinary).await, StatusCode::NO_CONTENT);
    let before = state
        .query_node
        .query("SELECT metric_name, host FROM metrics WHERE metric_name = 'mem'")
        .await
        .expect("ordinary series is readable before the colliding request");
    assert_eq!(strings(&before, 1), vec![Some("b".to_string())]);

    // a well-formed series that happens to have a label named `timestamp`
    let colliding = remote_write_body(&[series(
        &[("__name__", "cpu"), ("host", "a"), ("timestamp", "2024-01-01")],
        &[(1.5, now_ms)],
    )]);
    let status = post(&state, colliding).await;
    if status.is_client_error() {
        return; // refusing the request outright would be acceptable
    }
    assert_eq!(status, StatusCode::NO_CONTENT);

    let violations = check_cpu_and_mem(&state, now_ms * 1_000_000).await;
    assert!(
        violations.is_empty(),
        "C17 violated: remote-write series {{__name__=cpu, host=a, timestamp=2024-01-01}} with one \
         sample at {now_ms} ms was acknowledged with 204, but (which of the two happens depends on \
         the random chunk file names):\n  - {}",
        violations.join("\n  - ")
    );
}

/// Prometheus remote write, label called `metric_name`: the label value must survive and
/// the metric name must stay the metric name.
#[tokio::test]
async fn prom_label_named_metric_name_is_not_faithful() {
    let state = setup().await;
    let now_ms = chrono::Utc::now().timestamp_millis();
    let body = remote_write_body(&[series(
        &[("__name__", "cpu"), ("host", "a"), ("metric_name", "shadow")],
        &[(1.5, now_ms)],
    )]);
    let status = post(&state, body).await;
    if status.is_client_error() {
        return;
    }
    assert_eq!(status, StatusCode::NO_CONTENT);

    let all = state
        .query_node
        .query("SELECT * FROM metrics")
        .await
        .expect("SELECT * on the acknowledged row");
    let rows: usize = all.iter().map(|b| b.num_rows()).sum();
    assert_eq!(rows, 1, "the sample must be exactly one row");
    let schema = all[0].schema();
    let names: Vec<&str> = schema.fields().iter().map(|f| f.name().as_str()).collect();
    // collect every value stored in a column called metric_name*
    let mut seen = Vec::new();
    for (i, n) in names.iter().enumerate() {
        if n.starts_with("metric_name") {
            seen.extend(strings(&all, i).into_iter().flatten());
        }
    }
    seen.sort();
    assert!(
        seen.contains(&"cpu".to_string()) && seen.contains(&"shadow".to_string()),
        "C17 violated: series {{__name__=cpu, host=a, metric_name=shadow}} was acknowledged, \
         but the stored row does not carry both the metric name `cpu` and the label value \
         `shadow` (columns {names:?}, values found under metric_name*: {seen:?})"
    );
}

/// The same through OTLP: a data point attribute called `timestamp`.
#[tokio::test]
async fn otlp_attribute_named_timestamp_poisons_the_table() {
    let state = setup().await;
    let now_ns = chrono::Utc::now().timestamp_nanos_opt().unwrap() as u64;
    let svc = OtlpGrpcService::new(state.ingester.clone());
    let kv = |k: &str, v: &str| KeyValue {
        key: k.to_string(),
        value: Some(AnyValue {
            value: Some(any_value::Value::StringValue(v.to_string())),
        }),
    };
    let export = |name: &str, attrs: Vec<KeyValue>, v: f64| ExportMetricsServiceRequest {
        resource_metrics: vec![ResourceMetrics {
            resource: None,
            scope_metrics: vec![ScopeMetrics {
                scope: None,
                metrics: vec![Metric {
                    name: name.to_string(),
                    description: String::new(),
                    unit: String::new(),
                    metadata: vec![],
                    data: Some(Data::Gauge(Gauge {
                        data_points: vec![NumberDataPoint {
                            attributes: attrs,
                            start_time_unix_nano: 0,
                            time_unix_nano: now_ns,
                            exemplars: vec![],
                            flags: 0,
                            value: Some(number_data_point::Value::AsDouble(v)),
                        }],
                    })),
                }],
                schema_url: String::new(),
            }],
            schema_url: String::new(),
        }],
    };

    svc.export(tonic::Request::new(export("mem", vec![kv("host", "b")], 2.5)))
        .await
        .expect("ordinary export");
    state
        .query_node
        .query("SELECT metric_name, host FROM metrics WHERE metric_name = 'mem'")
        .await
        .expect("ordinary point readable before the colliding export");

    let r = svc
        .export(tonic::Request::new(export(
            "cpu",
            vec![kv("host", "a"), kv("timestamp", "2024-01-01")],
            1.5,
        )))
        .await;
    if r.is_err() {
        return; // refusing would be acceptable
    }
    let violations = check_cpu_and_mem(&state, now_ns as i64).await;
    assert!(
        violations.is_empty(),
        "C17 violated: OTLP gauge point cpu{{host=a, timestamp=2024-01-01}} at {now_ns} ns was \
         acknowledged, but (which of the two happens depends on the random chunk file names):\n  - {}",
        violations.join("\n  - ")
    );
}
