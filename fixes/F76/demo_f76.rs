//! C07 defect 2: complete_compaction whose target is also listed among the sources --
//! the in-memory backend deletes the target and reports success, the object-store backend refuses and keeps everything.
#![allow(dead_code, unused_imports)]

use cardinalsin::ingester::ChunkMetadata;
use cardinalsin::metadata::{
    LocalMetadataClient, MetadataClient, ObjectStoreMetadataClient, ObjectStoreMetadataConfig,
    TimeRange,
};
use object_store::memory::InMemory;
use std::collections::{BTreeMap, BTreeSet};
use std::sync::Arc;

const H: i64 = 3_600_000_000_000;

fn s3_client(store: Arc<InMemory>) -> ObjectStoreMetadataClient {
    ObjectStoreMetadataClient::new(
        store,
        ObjectStoreMetadataConfig {
            bucket: "b".into(),
            metadata_prefix: "meta/".into(),
            enable_cache: false,
            allow_unsafe_overwrite: false,
        },
    )
}

fn meta(path: &str, min: i64, max: i64, tag: u64) -> ChunkMetadata {
    ChunkMetadata {
        path: path.to_string(),
        min_timestamp: min,
        max_timestamp: max,
        row_count: tag,
        size_bytes: tag * 10,
    }
}

type Row = (String, i64, i64, u64, u64);

async fn ranged(c: &dyn MetadataClient, r: TimeRange) -> Vec<Row> {
    let mut v: Vec<Row> = c
        .get_chunks(r)
        .await
        .unwrap()
        .into_iter()
        .map(|e| {
            (
                e.chunk_path,
                e.min_timestamp,
                e.max_timestamp,
                e.row_count,
                e.size_bytes,
            )
        })
        .collect();
    v.sort();
    v
}

async fn listed(c: &dyn MetadataClient) -> Vec<Row> {
    let mut v: Vec<Row> = c
        .list_chunks()
        .await
        .unwrap()
        .into_iter()
        .map(|e| {
            (
                e.chunk_path,
                e.min_timestamp,
                e.max_timestamp,
                e.row_count,
                e.size_bytes,
            )
        })
        .collect();
    v.sort();
    v
}

struct Rng(u64);
impl Rng {
    fn next(&mut self) -> u64 {
        let mut x = self.0;
        x ^= x << 13;
        x ^= x >> 7;
        x ^= x << 17;
        self.0 = x;
        x
    }
    fn below(&mut self, n: u64) -> u64 {
        self.next() % n
    }
    fn pick<T: Copy>(&mut self, xs: &[T]) -> T {
        xs[self.below(xs.len() as u64) as usize]
    }
}

fn points() -> Vec<i64> {
    let mut p = Vec::new();
    for k in [-50i64, -25, -3, -2, -1, 0, 1, 2, 3, 24, 49, 120] {
        for d in [-1i64, 0, 1] {
            p.push(k * H + d);
        }
        p.push(k * H + H / 2);
    }
    p
}

/// Reference model: path -> metadata of the live chunks.
fn model_query(model: &BTreeMap<String, ChunkMetadata>, r: TimeRange) -> Vec<Row> {
    let mut v: Vec<Row> = model
        .values()
        .filter(|m| r.start <= r.end && m.min_timestamp <= r.end && m.max_timestamp >= r.start)
        .map(|m| {
            (
                m.path.clone(),
                m.min_timestamp,
                m.max_timestamp,
                m.row_count,
                m.size_bytes,
            )
        })
        .collect();
    v.sort();
    v
}

/// Candidate A: compaction completion whose target is also listed among the sources.
#[tokio::test]
async fn compaction_target_among_sources_backends_agree() {
    let s3 = s3_client(Arc::new(InMemory::new()));
    let local = LocalMetadataClient::new();
    for c in [&s3 as &dyn MetadataClient, &local as &dyn MetadataClient] {
        c.register_chunk("a", &meta("a", 0, 10, 1)).await.unwrap();
        c.register_chunk("t", &meta("t", 0, 10, 2)).await.unwrap();
    }
    let srcs = vec!["a".to_string(), "t".to_string()];
    let r_s3 = s3.complete_compaction(&srcs, "t").await;
    let r_local = local.complete_compaction(&srcs, "t").await;
    let all = TimeRange::new(i64::MIN, i64::MAX);
    let after_s3 = ranged(&s3, all).await;
    let after_local = ranged(&local, all).await;
    assert!(
        r_s3.is_ok() == r_local.is_ok() && after_s3 == after_local,
        "same history, different answers: complete_compaction([a,t] -> t) gave {:?} on the object store \
         (live chunks afterwards {:?}) but {:?} in memory (live chunks afterwards {:?})",
        r_s3.map_err(|e| e.to_string()),
        after_s3.iter().map(|r| r.0.clone()).collect::<Vec<_>>(),
        r_local.map_err(|e| e.to_string()),
        after_local.iter().map(|r| r.0.clone()).collect::<Vec<_>>(),
    );
}

