//! C14 defect 4 (adjacent to the literal property: the interrupted split is *re-started*, not
//! resumed - which is the only thing the shipped driver ever does).
//!
//! `ShardSplitter::resume_split` has no caller anywhere in src/. The only driver,
//! `Compactor::run_sharding_cycle`, calls `execute_split_with_monitoring` for every hot shard
//! whose metadata is still `Active` - and the old shard stays `Active` until step 3 of the
//! cut-over. `execute_split_with_monitoring` does not look for an existing progress file or
//! split state: it draws two fresh shard ids and overwrites both. So
//!   (a) after an interruption, the next sharding cycle starts a second split of the same
//!       shard. It completes, but the chunks the first attempt back-filled into its own two
//!       shard ids stay registered in the catalog for ever: shards without metadata that hold
//!       a second copy of old-shard rows. Queries select chunks by time range, so they return
//!       those rows twice.
//!   (b) the same happens without any failure when a back-fill outlasts the compactor's 60 s
//!       check interval: two splits of one shard run concurrently, one of them fails, and the
//!       rows again end up in more than two shards.

use arrow::array::{Int64Array, RecordBatch};
use arrow::datatypes::{DataType, Field, Schema};
use async_trait::async_trait;
use cardinalsin::ingester::ChunkMetadata;
use cardinalsin::metadata::{LocalMetadataClient, MetadataClient};
use cardinalsin::query::{QueryConfig, QueryNode};
use cardinalsin::sharding::{ReplicaInfo, ShardMetadata, ShardSplitter, ShardState};
use cardinalsin::StorageConfig;
use futures::stream::BoxStream;
use object_store::memory::InMemory;
use object_store::path::Path;
use object_store::{
    GetOptions, GetResult, ListResult, MultipartUpload, ObjectMeta, ObjectStore, PutMultipartOpts,
    PutOptions, PutPayload, PutResult,
};
use parquet::arrow::ArrowWriter;
use std::collections::BTreeMap;
use std::sync::atomic::{AtomicBool, Ordering};
use std::sync::Arc;
use std::time::Duration;

const OLD: &str = "shard-old";
const SP: i64 = 600_000_000_000;
const MAX_T: i64 = 1_200_000_000_000;

/// Fails one read of `shard-old/c2.parquet` (the back-fill's read of its second source chunk).
struct FlakyStore {
    inner: Arc<InMemory>,
    fail_c2_read: AtomicBool,
}
impl std::fmt::Debug for FlakyStore {
    fn fmt(&self, f: &mut std::fmt::Formatter<'_>) -> std::fmt::Result {
        write!(f, "FlakyStore")
    }
}
impl std::fmt::Display for FlakyStore {
    fn fmt(&self, f: &mut std::fmt::Formatter<'_>) -> std::fmt::Result {
        write!(f, "FlakyStore")
    }
}
#[async_trait]
impl ObjectStore for FlakyStore {
    async fn put_opts(&self, l: &Path, p: PutPayload, o: PutOptions) -> object_store::Result<PutResult> {
        self.inner.put_opts(l, p, o).await
    }
    async fn put_multipart_opts(
        &self,
        l: &Path,
        o: PutMultipartOpts,
    ) -> object_store::Result<Box<dyn MultipartUpload>> {
        self.inner.put_multipart_opts(l, o).await
    }
    async fn get_opts(&self, l: &Path, o: GetOptions) -> object_store::Result<GetResult> {
        if l.as_ref().ends_with("c2.parquet") && self.fail_c2_read.swap(false, Ordering::SeqCst) {
            return Err(object_store::Error::Generic {
                store: "FlakyStore",
                source: "injected: connection reset".into(),
            });
        }
        self.inner.get_opts(l, o).await
    }
    async fn delete(&self, l: &Path) -> object_store::Result<()> {
        self.inner.delete(l).await
    }
    fn list(&self, p: Option<&Path>) -> BoxStream<'_, object_store::Result<ObjectMeta>> {
        self.inner.list(p)
    }
    async fn list_with_delimiter(&self, p: Option<&Path>) -> object_store::Result<ListResult> {
        self.inner.list_with_delimiter(p).await
    }
    async fn copy(&self, f: &Path, t: &Path) -> object_store::Result<()> {
        self.inner.copy(f, t).await
    }
    async fn copy_if_not_exists(&self, f: &Path, t: &Path) -> object_store::Result<()> {
        self.inner.copy_if_not_exists(f, t).await
    }
}

fn old_shard() -> ShardMetadata {
    ShardMetadata {
        shard_id: OLD.to_string(),
        generation: 1,
        key_range: (vec![0u8; 8], vec![255u8; 8]),
        replicas: vec![ReplicaInfo {
            replica_id: "r1".into(),
            node_id: "n1".into(),
            is_leader: true,
        }],
        state: ShardState::Active,
        min_time: 0,
        max_time: MAX_T,
    }
}

async fn seed(raw: &Arc<InMemory>, catalog: &Arc<LocalMetadataClient>) -> usize {
    catalog
        .update_shard_metadata(OLD, &old_shard(), 0)
        .await
        .unwrap();
    let chunks: Vec<(&str, Vec<(i64, i64)>)> = vec![
        ("c1", vec![(SP - 2, 1), (SP - 1, 2), (SP, 3), (SP + 1, 4)]),
        ("c2", vec![(100, 5), (SP, 6), (SP + 5, 7)]),
        ("c3", vec![(1, 8), (2, 9)]),
    ];
    let schema = Arc::new(Schema::new(vec![
        Field::new("timestamp", DataType::Int64, false),
        Field::new("value_i64", DataType::Int64, false),
    ]));
    let mut total = 0;
    for (name, rows) in chunks {
        let b = RecordBatch::try_new(
            schema.clone(),
            vec![
                Arc::new(Int64Array::from(rows.iter().map(|r| r.0).collect::<Vec<_>>())),
                Arc::new(Int64Array::from(rows.iter().map(|r| r.1).collect::<Vec<_>>())),
            ],
        )
        .unwrap();
        let mut buf = Vec::new();
        let mut w = ArrowWriter::try_new(&mut buf, schema.clone(), None).unwrap();
        w.write(&b).unwrap();
        w.close().unwrap();
        let path = format!("{OLD}/{name}.parquet");
        let len = buf.len() as u64;
        raw.put(&Path::from(path.as_str()), buf.into()).await.unwrap();
        catalog
            .register_chunk(
                &path,
                &ChunkMetadata {
                    path: path.clone(),
                    min_timestamp: rows.iter().map(|r| r.0).min().unwrap(),
                    max_timestamp: rows.iter().map(|r| r.0).max().unwrap(),
                    row_count: rows.len() as u64,
                    size_bytes: len,
                },
            )
            .await
            .unwrap();
        total += rows.len();
    }
    total
}

/// shard id (first path segment) -> number of rows registered under it
async fn rows_per_shard(catalog: &Arc<LocalMetadataClient>) -> BTreeMap<String, u64> {
    let mut m = BTreeMap::new();
    for c in catalog.list_chunks().await.unwrap() {
        let shard = c.chunk_path.split('/').next().unwrap().to_string();
        *m.entry(shard).or_insert(0) += c.row_count;
    }
    m
}

async fn describe(
    catalog: &Arc<LocalMetadataClient>,
    raw: &Arc<InMemory>,
    total_rows: usize,
) -> (BTreeMap<String, u64>, Vec<String>, String) {
    let per_shard = rows_per_shard(catalog).await;
    let mut without_metadata = Vec::new();
    for id in per_shard.keys() {
        if catalog.get_shard_metadata(id).await.unwrap().is_none() {
            without_metadata.push(id.clone());
        }
    }
    let qn = QueryNode::new(
        QueryConfig::default(),
        raw.clone(),
        catalog.clone(),
        StorageConfig::default(),
    )
    .await
    .unwrap();
    let q = match qn
        .query("SELECT timestamp, value_i64 FROM metrics WHERE timestamp >= 0")
        .await
    {
        Ok(b) => format!(
            "{} rows (the old shard held {total_rows})",
            b.iter().map(|x| x.num_rows()).sum::<usize>()
        ),
        Err(e) => format!("Err({e})"),
    };
    (per_shard, without_metadata, q)
}

#[tokio::test(start_paused = true)]
async fn restarting_an_interrupted_split_leaves_the_first_attempts_copies_registered() {
    let raw = Arc::new(InMemory::new());
    let catalog = Arc::new(LocalMetadataClient::new());
    let total_rows = seed(&raw, &catalog).await;
    let store = Arc::new(FlakyStore {
        inner: raw.clone(),
        fail_c2_read: AtomicBool::new(true),
    });
    let splitter = ShardSplitter::new(catalog.clone(), store.clone());

    // first sharding cycle: the split is interrupted in the back-fill
    let first = splitter.execute_split_with_monitoring(&old_shard()).await;
    println!("first  execute_split_with_monitoring -> {first:?}");
    assert!(first.is_err());

    // next sharding cycle: what Compactor::run_sharding_cycle does
    let shard_metadata = catalog.get_shard_metadata(OLD).await.unwrap().unwrap();
    assert!(shard_metadata.is_active(), "the compactor's only guard lets the shard through");
    let second = splitter.execute_split_with_monitoring(&shard_metadata).await;
    println!("second execute_split_with_monitoring -> {second:?}");
    assert!(second.is_ok());

    let (per_shard, without_metadata, q) = describe(&catalog, &raw, total_rows).await;
    println!("rows registered per shard id: {per_shard:?}");
    println!("query over everything: {q}");
    assert!(
        without_metadata.is_empty() && per_shard.values().sum::<u64>() == total_rows as u64,
        "C14 violated: after the interrupted split was started again and reported success, the {total_rows} \
         old-shard rows are registered {} times, spread over {} shard ids: {per_shard:?}; {without_metadata:?} \
         are the first attempt's targets - they have no shard metadata and nothing will ever remove their \
         chunks. A query over the whole range returns {q}.",
        per_shard.values().sum::<u64>(),
        per_shard.len(),
    );
}

#[tokio::test(start_paused = true)]
async fn two_sharding_cycles_split_the_same_shard_concurrently() {
    let raw = Arc::new(InMemory::new());
    let catalog = Arc::new(LocalMetadataClient::new());
    let total_rows = seed(&raw, &catalog).await;
    let splitter = Arc::new(ShardSplitter::new(catalog.clone(), raw.clone()));

    // cycle 1 spawns the split (as run_sharding_cycle does) ...
    let s1 = {
        let s = splitter.clone();
        tokio::spawn(async move { s.execute_split_with_monitoring(&old_shard()).await })
    };
    // ... and the next cycle finds the shard still hot and still Active (the first split is in
    // its dual-write wait; a long back-fill gives the same picture 60 s later)
    tokio::time::sleep(Duration::from_secs(5)).await;
    let shard_metadata = catalog.get_shard_metadata(OLD).await.unwrap().unwrap();
    assert!(shard_metadata.is_active());
    let s2 = {
        let s = splitter.clone();
        tokio::spawn(async move { s.execute_split_with_monitoring(&shard_metadata).await })
    };
    let r1 = s1.await.unwrap();
    let r2 = s2.await.unwrap();
    println!("split started by cycle 1 -> {r1:?}");
    println!("split started by cycle 2 -> {r2:?}");

    let (per_shard, without_metadata, q) = describe(&catalog, &raw, total_rows).await;
    println!("rows registered per shard id: {per_shard:?}");
    println!("shard ids without metadata: {without_metadata:?}");
    println!("query over everything: {q}");
    let progress_left = raw
        .head(&Path::from(format!("metadata/split-progress/{OLD}.json")))
        .await
        .is_ok();
    assert!(
        // after the fix the second cycle joins the split on record; it may lose the race for the last steps and
        // report an error, which is not a property violation: what C14 constrains is the state
        r1.is_ok()
            && without_metadata.is_empty()
            && per_shard.values().sum::<u64>() == total_rows as u64
            && !progress_left,
        "C14 violated: two sharding cycles split {OLD} concurrently (cycle 1 -> {r1:?}, cycle 2 -> {r2:?}); \
         afterwards the {total_rows} old-shard rows are registered {} times over {} shard ids {per_shard:?}, \
         shard ids without metadata: {without_metadata:?}, progress file left behind: {progress_left}; \
         a query over the whole range returns {q}.",
        per_shard.values().sum::<u64>(),
        per_shard.len(),
    );
}
