//! C03 audit, defect 2: `ObjectStoreMetadataClient::rebuild_time_index` (run by the shipped
//! `rebuild_metadata` and `backfill_levels` binaries against the live catalog) is a
//! read-modify-write of catalog.json that IGNORES the ETag it loaded and writes the result
//! back with an unconditional PUT.  A compaction swap (and any chunk registration) that
//! commits between its read and its write is silently undone: the catalog lists the compaction
//! SOURCES again and forgets the merged chunk, while the compactor - whose swap succeeded -
//! has scheduled the source objects for deletion.  After the GC grace period the catalog
//! points at objects that no longer exist and the only copy of the rows (the merged chunk) is
//! not in the catalog: every row of the compacted group is unreachable.
//!
//! The interleaving is forced with an ObjectStore wrapper that holds back exactly one request:
//! the unconditional PUT of catalog.json issued by rebuild_time_index.

use std::collections::BTreeMap;
use std::fmt;
use std::sync::atomic::{AtomicBool, Ordering};
use std::sync::Arc;
use std::time::Duration;

use arrow_array::{Array, ArrayRef, Float64Array, RecordBatch, StringArray, TimestampNanosecondArray};
use arrow_schema::{DataType, Field, Schema, TimeUnit};
use async_trait::async_trait;
use futures::stream::BoxStream;
use object_store::memory::InMemory;
use object_store::path::Path;
use object_store::{
    GetOptions, GetResult, ListResult, MultipartUpload, ObjectMeta, ObjectStore, PutMode,
    PutMultipartOpts, PutOptions, PutPayload, PutResult, Result as OsResult,
};
use parquet::arrow::arrow_reader::ParquetRecordBatchReaderBuilder;
use tokio::sync::Notify;

use cardinalsin::compactor::{Compactor, CompactorConfig};
use cardinalsin::ingester::{Ingester, IngesterConfig};
use cardinalsin::metadata::{MetadataClient, S3MetadataClient, S3MetadataConfig};
use cardinalsin::schema::MetricSchema;
use cardinalsin::sharding::{HotShardConfig, ShardMonitor};
use cardinalsin::StorageConfig;

const HOUR: i64 = 3_600_000_000_000;

/// Delegates everything to `inner`; when armed, parks the first *unconditional* PUT of
/// `.../catalog.json` (the compactor and the ingester only ever write it with
/// PutMode::Create / PutMode::Update) until `release` is notified.
struct GateStore {
    inner: Arc<dyn ObjectStore>,
    armed: AtomicBool,
    arrived: Notify,
    release: Notify,
}

impl fmt::Display for GateStore {
    fn fmt(&self, f: &mut fmt::Formatter<'_>) -> fmt::Result {
        write!(f, "GateStore({})", self.inner)
    }
}
impl fmt::Debug for GateStore {
    fn fmt(&self, f: &mut fmt::Formatter<'_>) -> fmt::Result {
        write!(f, "GateStore")
    }
}

#[async_trait]
impl ObjectStore for GateStore {
    async fn put_opts(
        &self,
        location: &Path,
        payload: PutPayload,
        opts: PutOptions,
    ) -> OsResult<PutResult> {
        // the first catalog write after arming is the maintenance tool's, whatever its mode
        if location.as_ref().ends_with("catalog.json") && self.armed.swap(false, Ordering::SeqCst)
        {
            self.arrived.notify_one();
            self.release.notified().await;
        }
        self.inner.put_opts(location, payload, opts).await
    }
    async fn put_multipart_opts(
        &self,
        location: &Path,
        opts: PutMultipartOpts,
    ) -> OsResult<Box<dyn MultipartUpload>> {
        self.inner.put_multipart_opts(location, opts).await
    }
    async fn get_opts(&self, location: &Path, options: GetOptions) -> OsResult<GetResult> {
        self.inner.get_opts(location, options).await
    }
    async fn delete(&self, location: &Path) -> OsResult<()> {
        self.inner.delete(location).await
    }
    fn list(&self, prefix: Option<&Path>) -> BoxStream<'_, OsResult<ObjectMeta>> {
        self.inner.list(prefix)
    }
    async fn list_with_delimiter(&self, prefix: Option<&Path>) -> OsResult<ListResult> {
        self.inner.list_with_delimiter(prefix).await
    }
    async fn copy(&self, from: &Path, to: &Path) -> OsResult<()> {
        self.inner.copy(from, to).await
    }
    async fn copy_if_not_exists(&self, from: &Path, to: &Path) -> OsResult<()> {
        self.inner.copy_if_not_exists(from, to).await
    }
}

fn batch(ts0: i64, n: usize, host: &str) -> RecordBatch {
    let schema = Arc::new(Schema::new(vec![
        Field::new(
            "timestamp",
            DataType::Timestamp(TimeUnit::Nanosecond, Some("UTC".into())),
            false,
        ),
        Field::new("metric_name", DataType::Utf8, false),
        Field::new("value_f64", DataType::Float64, true),
        Field::new("host", DataType::Utf8, true),
    ]));
    let cols: Vec<ArrayRef> = vec![
        Arc::new(
            TimestampNanosecondArray::from((0..n as i64).map(|i| ts0 + i).collect::<Vec<_>>())
                .with_timezone("UTC"),
        ),
        Arc::new(StringArray::from(vec!["cpu"; n])),
        Arc::new(Float64Array::from(
            (0..n).map(|i| i as f64).collect::<Vec<_>>(),
        )),
        Arc::new(StringArray::from(vec![host; n])),
    ];
    RecordBatch::try_new(schema, cols).unwrap()
}

fn new_client(store: Arc<dyn ObjectStore>) -> Arc<S3MetadataClient> {
    Arc::new(S3MetadataClient::new(
        store,
        S3MetadataConfig {
            bucket: "test".into(),
            metadata_prefix: "meta/".into(),
            enable_cache: false,
            allow_unsafe_overwrite: false,
        },
    ))
}

struct Reach {
    rows: BTreeMap<String, usize>,
    listed: Vec<String>,
    missing_objects: Vec<String>,
}

/// What a freshly started reader gets: the chunks the catalog lists, and the rows in them.
async fn reachable(store: &Arc<dyn ObjectStore>) -> Reach {
    let metadata = new_client(store.clone()); // no cache: reads catalog.json as it is now
    let mut r = Reach {
        rows: BTreeMap::new(),
        listed: Vec::new(),
        missing_objects: Vec::new(),
    };
    for chunk in metadata.list_chunks().await.unwrap() {
        r.listed.push(chunk.chunk_path.clone());
        let got = match store.get(&chunk.chunk_path.as_str().into()).await {
            Ok(g) => g,
            Err(object_store::Error::NotFound { .. }) => {
                r.missing_objects.push(chunk.chunk_path.clone());
                continue;
            }
            Err(e) => panic!("{e}"),
        };
        let reader = ParquetRecordBatchReaderBuilder::try_new(got.bytes().await.unwrap())
            .unwrap()
            .build()
            .unwrap();
        for b in reader {
            let b = b.unwrap();
            let schema = b.schema();
            for row in 0..b.num_rows() {
                let mut kv = Vec::new();
                for (c, f) in schema.fields().iter().enumerate() {
                    if !b.column(c).is_null(row) {
                        let v =
                            arrow::util::display::array_value_to_string(b.column(c), row).unwrap();
                        kv.push(format!("{}={}", f.name(), v));
                    }
                }
                kv.sort();
                *r.rows.entry(kv.join(" ")).or_insert(0) += 1;
            }
        }
    }
    r.listed.sort();
    r
}

#[tokio::test(flavor = "multi_thread", worker_threads = 4)]
async fn d2_rebuild_time_index_undoes_a_compaction_swap_and_gc_then_destroys_the_rows() {
    let gate = Arc::new(GateStore {
        inner: Arc::new(InMemory::new()),
        armed: AtomicBool::new(false),
        arrived: Notify::new(),
        release: Notify::new(),
    });
    let store: Arc<dyn ObjectStore> = gate.clone();

    // the cluster's metadata client (ingester + compactor) and the maintenance tool's own one
    let metadata: Arc<dyn MetadataClient> = new_client(store.clone());
    let admin = new_client(store.clone());

    let mut icfg = IngesterConfig::default();
    icfg.flush_row_count = 1;
    icfg.wal.enabled = false;
    let ing = Ingester::new(
        icfg,
        store.clone(),
        metadata.clone(),
        StorageConfig::default(),
        MetricSchema::default_metrics(),
    );
    let now = chrono::Utc::now().timestamp_nanos_opt().unwrap();
    let t0 = (now / HOUR) * HOUR;
    ing.write(batch(t0, 10, "web-1")).await.unwrap();
    ing.write(batch(t0 + 100, 10, "web-2")).await.unwrap();

    assert_eq!(reachable(&store).await.listed.len(), 2);

    // 1. the maintenance tool reads the catalog {S1, S2} ... and its write is in flight
    gate.armed.store(true, Ordering::SeqCst);
    let rebuild = tokio::spawn({
        let admin = admin.clone();
        async move { admin.rebuild_time_index().await }
    });
    tokio::time::timeout(Duration::from_secs(10), gate.arrived.notified())
        .await
        .expect("rebuild_time_index reached its catalog PUT");

    // 2. meanwhile the ingester flushes a third chunk of that hour (CAS register) and a
    //    compaction cycle merges S1+S2+S3 -> T and swaps them atomically (CAS).
    //    l0_merge_threshold is 3, so once the swap is undone the two resurrected sources alone
    //    never form a compaction group again: no later cycle can "repair" the catalog before
    //    the GC runs, whatever the grace period is (1 s here only to keep the test short).
    ing.write(batch(t0 + 200, 10, "web-3")).await.unwrap();
    let before = reachable(&store).await;
    assert_eq!(before.listed.len(), 3);
    assert_eq!(before.rows.values().sum::<usize>(), 30);
    let compactor = Compactor::new(
        CompactorConfig {
            l0_merge_threshold: 3,
            sharding_enabled: false,
            gc_grace_period: Duration::from_secs(1),
            ..Default::default()
        },
        store.clone(),
        metadata.clone(),
        StorageConfig::default(),
        Arc::new(ShardMonitor::new(HotShardConfig::default())),
    );
    compactor.run_compaction_cycle().await.expect("cycle 1 ok");
    let after_swap = reachable(&store).await;
    assert_eq!(after_swap.listed.len(), 1, "S1,S2,S3 swapped for T");
    assert_eq!(after_swap.rows, before.rows, "swap itself conserves the rows");
    let merged_chunk = after_swap.listed[0].clone();

    // 3. the tool's PUT lands (no If-Match): the swap is gone from the catalog
    gate.release.notify_one();
    rebuild.await.unwrap().expect("rebuild_time_index reports success");
    let after_rebuild = reachable(&store).await;

    // 4. the GC grace period passes; the compactor deletes the sources of ITS successful swap
    tokio::time::sleep(Duration::from_millis(1200)).await;
    compactor.run_compaction_cycle().await.expect("cycle 2 ok");
    let end = reachable(&store).await;

    let lost: usize = before
        .rows
        .iter()
        .map(|(row, n)| n.saturating_sub(end.rows.get(row).copied().unwrap_or(0)))
        .sum();
    assert!(
        end.rows == before.rows,
        "C03 VIOLATED: {lost} of {} stored rows are unreachable although every call returned Ok.\n  \
         catalog before            : {:?}\n  \
         catalog after the swap    : {:?}\n  \
         catalog after rebuild PUT : {:?}   <- swap undone, merged chunk forgotten\n  \
         catalog at the end        : {:?}\n  \
         listed chunks whose object was garbage-collected: {:?}\n  \
         merged chunk {merged_chunk} still in the object store: {}, in the catalog: {}",
        before.rows.values().sum::<usize>(),
        before.listed,
        after_swap.listed,
        after_rebuild.listed,
        end.listed,
        end.missing_objects,
        store.head(&merged_chunk.as_str().into()).await.is_ok(),
        end.listed.contains(&merged_chunk),
    );
}
