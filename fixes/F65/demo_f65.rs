//! C17: "no payload can crash the receiver".  A Prometheus remote-write request whose only series carries no
//! samples (legal protobuf, what a sender emits for a series it has nothing to report for) is converted into a
//! ZERO-ROW RecordBatch; `Ingester::write` -> `compute_shard_id` reads `metric_name.value(0)` / `timestamp.value(0)`
//! and panics inside the request handler.  Same for a zero-row batch arriving over Flight (`process_stream`).

use std::sync::Arc;

use axum::extract::State;
use axum::response::IntoResponse;
use bytes::Bytes;
use cardinalsin::api::ingest::prometheus::handle_remote_write;
use cardinalsin::api::ApiState;
use cardinalsin::ingester::{Ingester, IngesterConfig};
use cardinalsin::metadata::{LocalMetadataClient, MetadataClient};
use cardinalsin::query::{QueryConfig, QueryNode};
use cardinalsin::schema::MetricSchema;
use cardinalsin::StorageConfig;
use object_store::memory::InMemory;
use object_store::ObjectStore;

async fn state() -> ApiState {
    let store: Arc<dyn ObjectStore> = Arc::new(InMemory::new());
    let metadata: Arc<dyn MetadataClient> = Arc::new(LocalMetadataClient::new());
    let mut cfg = IngesterConfig::default();
    cfg.wal.enabled = false;
    let ingester = Arc::new(Ingester::new(
        cfg,
        store.clone(),
        metadata.clone(),
        StorageConfig::default(),
        MetricSchema::default_metrics(),
    ));
    let query_node = Arc::new(
        QueryNode::new(QueryConfig::default(), store, metadata, StorageConfig::default())
            .await
            .unwrap(),
    );
    ApiState { ingester, query_node }
}

/// WriteRequest { timeseries: [ TimeSeries { labels: [ {__name__ = up} ], samples: [] } ] }, snappy-compressed
fn body_with_a_series_without_samples() -> Bytes {
    let mut label = vec![0x0a, 8];
    label.extend_from_slice(b"__name__");
    label.extend_from_slice(&[0x12, 2]);
    label.extend_from_slice(b"up");
    let mut ts = vec![0x0a, label.len() as u8];
    ts.extend_from_slice(&label);
    let mut req = vec![0x0a, ts.len() as u8];
    req.extend_from_slice(&ts);
    Bytes::from(snap::raw::Encoder::new().compress_vec(&req).unwrap())
}

#[tokio::test]
async fn remote_write_with_a_series_without_samples_must_not_panic_the_handler() {
    let st = state().await;
    let body = body_with_a_series_without_samples();
    let handle = tokio::spawn(async move {
        handle_remote_write(State(st), body).await.into_response().status()
    });
    match handle.await {
        Ok(status) => println!("handler answered {status}"),
        Err(e) => panic!(
            "C17 violated: a remote-write request whose series has no samples crashed the request handler: {e} \
             (zero-row batch -> Ingester::write -> compute_shard_id -> value(0))"
        ),
    }
}
