//! C14 defect 3: the split only understands `timestamp: Int64`. The schema the system itself
//! defines (`MetricSchema`, src/schema/metrics.rs) and the batches the OTLP and Prometheus
//! ingest paths build carry `timestamp: Timestamp(Nanosecond, "UTC")`; the ingester's flush and
//! the compactor accept both types, `ShardSplitter::split_batch` / `write_chunk_to_path` and
//! `Ingester::split_batch_by_key` do not.
//!   (a) A shard that holds such a chunk can never be split: the back-fill fails on it with
//!       "Timestamp column is not Int64" on the first run and on every resume; the split state
//!       stays in phase Backfill for ever (queries de-duplicate for ever, ingesters stay in
//!       dual-write mode for ever).
//!   (b) While the split sits in DualWrite/Backfill, every write of such a batch to the shard
//!       is answered with an error - after the rows were already appended to the old shard's
//!       buffer, so a client that retries duplicates them.

use arrow::array::{Float64Array, RecordBatch, StringArray, TimestampNanosecondArray};
use arrow::datatypes::{DataType, Field, Schema, TimeUnit};
use cardinalsin::ingester::{ChunkMetadata, Ingester, IngesterConfig, ParquetWriter, WalConfig};
use cardinalsin::metadata::{LocalMetadataClient, MetadataClient};
use cardinalsin::schema::MetricSchema;
use cardinalsin::sharding::{
    ReplicaInfo, ShardKey, ShardMetadata, ShardSplitter, ShardState, SplitPhase,
};
use cardinalsin::StorageConfig;
use object_store::memory::InMemory;
use object_store::path::Path;
use object_store::ObjectStore;
use std::sync::Arc;

const OLD: &str = "shard-old";
const SP: i64 = 600_000_000_000;
const MAX_T: i64 = 1_200_000_000_000;

/// A batch exactly as src/api/ingest/otlp.rs / prometheus.rs lay it out.
fn otlp_shaped_batch(ts: &[i64]) -> RecordBatch {
    let schema = Arc::new(Schema::new(vec![
        Field::new(
            "timestamp",
            DataType::Timestamp(TimeUnit::Nanosecond, Some("UTC".into())),
            false,
        ),
        Field::new("metric_name", DataType::Utf8, false),
        Field::new("value_f64", DataType::Float64, true),
    ]));
    RecordBatch::try_new(
        schema,
        vec![
            Arc::new(TimestampNanosecondArray::from(ts.to_vec()).with_timezone("UTC")),
            Arc::new(StringArray::from(vec!["cpu_usage"; ts.len()])),
            Arc::new(Float64Array::from(vec![0.5; ts.len()])),
        ],
    )
    .unwrap()
}

fn old_shard() -> ShardMetadata {
    ShardMetadata {
        shard_id: OLD.to_string(),
        generation: 1,
        key_range: (vec![0u8; 8], vec![255u8; 8]),
        replicas: vec![ReplicaInfo {
            replica_id: "r1".into(),
            node_id: "n1".into(),
            is_leader: true,
        }],
        state: ShardState::Active,
        min_time: 0,
        max_time: MAX_T,
    }
}

#[tokio::test(start_paused = true)]
async fn shard_with_timestamp_typed_chunks_can_never_be_split() {
    let store = Arc::new(InMemory::new());
    let catalog = Arc::new(LocalMetadataClient::new());
    catalog
        .update_shard_metadata(OLD, &old_shard(), 0)
        .await
        .unwrap();

    // an old-shard chunk written by the ingester's own Parquet writer
    let ts = [SP - 2, SP - 1, SP, SP + 1];
    let bytes = ParquetWriter::new().write_batch(&otlp_shaped_batch(&ts)).unwrap();
    let path = format!("{OLD}/c1.parquet");
    let len = bytes.len() as u64;
    store.put(&Path::from(path.as_str()), bytes.into()).await.unwrap();
    catalog
        .register_chunk(
            &path,
            &ChunkMetadata {
                path: path.clone(),
                min_timestamp: SP - 2,
                max_timestamp: SP + 1,
                row_count: 4,
                size_bytes: len,
            },
        )
        .await
        .unwrap();

    let splitter = ShardSplitter::new(catalog.clone(), store.clone());
    let mut outcomes = vec![format!("{:?}", splitter.execute_split(&old_shard()).await)];
    let mut finished = outcomes[0].starts_with("Ok");
    for _ in 0..3 {
        if finished {
            break;
        }
        let r = splitter.resume_split(OLD).await;
        finished = r.is_ok();
        outcomes.push(format!("{r:?}"));
    }
    for (i, o) in outcomes.iter().enumerate() {
        println!("run {i}: {o}");
    }
    let state = catalog.get_split_state(OLD).await.unwrap();
    println!("split state afterwards: {state:?}");
    println!("has_active_split: {:?}", catalog.has_active_split().await);
    let old = catalog.get_shard_metadata(OLD).await.unwrap().unwrap();

    assert!(
        finished,
        "C14 violated: a split of a shard whose chunk has the system's own \
         `timestamp: Timestamp(Nanosecond, UTC)` column does not finish, neither uninterrupted nor after \
         any number of resumes: {outcomes:?}. It is wedged with split state {:?} (has_active_split = {:?}), \
         old shard state {:?}, progress file present: {}",
        state.map(|s| (s.phase, s.backfill_progress)),
        catalog.has_active_split().await,
        old.state,
        store
            .head(&Path::from(format!("metadata/split-progress/{OLD}.json")))
            .await
            .is_ok(),
    );
}

#[tokio::test]
async fn writes_of_timestamp_typed_batches_are_rejected_while_the_shard_is_splitting() {
    let store = Arc::new(InMemory::new());
    let catalog = Arc::new(LocalMetadataClient::new());
    let ingester = Ingester::new(
        IngesterConfig {
            wal: WalConfig {
                enabled: false,
                ..Default::default()
            },
            ..Default::default()
        },
        store.clone(),
        catalog.clone(),
        StorageConfig::default(),
        MetricSchema::default_metrics(),
    );

    let now = chrono::Utc::now().timestamp_nanos_opt().unwrap();
    let batch = otlp_shaped_batch(&[now, now + 1]);

    // accepted while no split is running
    ingester.write(batch.clone()).await.expect("write before the split");

    // the id Ingester::compute_shard_id derives for this batch (tenant 0)
    let key = ShardKey::new(0, "cpu_usage", now).to_bytes();
    let shard_id = format!("shard-{:x}", u64::from_be_bytes(key[0..8].try_into().unwrap()));
    assert!(
        ingester.shard_monitor().get_metrics(&shard_id).is_some(),
        "shard id reconstruction is off"
    );

    // phases 1 and 2 of a split of that shard, as execute_split issues them
    catalog
        .start_split(
            &shard_id,
            vec!["new-a".into(), "new-b".into()],
            now.to_be_bytes().to_vec(),
        )
        .await
        .unwrap();
    catalog
        .update_split_progress(&shard_id, 0.0, SplitPhase::DualWrite)
        .await
        .unwrap();

    let r = ingester.write(batch).await;
    println!("write during dual-write -> {r:?}");
    assert!(
        r.is_ok(),
        "during the dual-write / back-fill phases of a split the ingester rejects a batch with the \
         system's own Timestamp(Nanosecond, UTC) column: {r:?}"
    );
}
