//! F21 (C12 / C04): `col NOT BETWEEN low AND high` was pushed down as `Between(col, low, high)` --
//! convert_expr_to_predicate ignored `between.negated` -- so exactly the chunks holding the accepted rows were pruned.
//! (Harness adapted from seeded/C12/m2.)  Fails before the fix, passes after.

use cardinalsin::ingester::ChunkMetadata;
use cardinalsin::metadata::{
    ColumnPredicate, ColumnStats, MetadataClient, PredicateValue, S3MetadataClient,
    S3MetadataConfig, TimeRange,
};
use cardinalsin::query::{CacheConfig, QueryEngine, TieredCache};
use cardinalsin::StorageConfig;
use object_store::memory::InMemory;
use std::sync::Arc;

async fn engine() -> (QueryEngine, tempfile::TempDir) {
    let dir = tempfile::tempdir().unwrap();
    let cache = Arc::new(
        TieredCache::new(CacheConfig {
            l1_size: 10 * 1024 * 1024,
            l2_size: 50 * 1024 * 1024,
            l2_dir: Some(dir.path().to_str().unwrap().to_string()),
        })
        .await
        .unwrap(),
    );
    let engine = QueryEngine::new(Arc::new(InMemory::new()), cache, &StorageConfig::default())
        .await
        .unwrap();
    (engine, dir)
}

async fn catalog_with(
    chunks: &[(&str, serde_json::Value, serde_json::Value)],
    column: &str,
    base: i64,
    hour: i64,
) -> S3MetadataClient {
    let client = S3MetadataClient::new(
        Arc::new(InMemory::new()),
        S3MetadataConfig {
            bucket: "test-bucket".to_string(),
            metadata_prefix: "test/".to_string(),
            enable_cache: true,
            allow_unsafe_overwrite: false,
        },
    );
    for (i, (path, _, _)) in chunks.iter().enumerate() {
        client
            .register_chunk(
                path,
                &ChunkMetadata {
                    path: path.to_string(),
                    min_timestamp: base + i as i64 * hour,
                    max_timestamp: base + (i as i64 + 1) * hour,
                    row_count: 2,
                    size_bytes: 1000,
                },
            )
            .await
            .unwrap();
    }
    let mut all = client.load_chunk_metadata().await.unwrap();
    for (path, min, max) in chunks {
        all.get_mut(*path).unwrap().column_stats.insert(
            column.to_string(),
            ColumnStats {
                min: min.clone(),
                max: max.clone(),
                has_nulls: false,
            },
        );
    }
    client.save_chunk_metadata(&all).await.unwrap();
    client
}

/// chunk_a rows value_i64 in {5, 8}     -> stats [5, 8]     (both rows satisfy NOT BETWEEN 10 AND 100)
/// chunk_b rows value_i64 in {50, 80}   -> stats [50, 80]   (no row satisfies it)
/// chunk_c rows value_i64 in {200, 300} -> stats [200, 300] (both rows satisfy it)
#[tokio::test]
async fn f21_not_between_keeps_chunks_outside_the_interval() {
    let (engine, _dir) = engine().await;
    let sql = "SELECT * FROM metrics WHERE value_i64 NOT BETWEEN 10 AND 100";
    let predicates = engine.extract_column_predicates(sql).await.unwrap();
    println!("extracted predicates: {:?}", predicates);

    let base = 1_000_000_000_000_000_000i64;
    let hour = 3_600_000_000_000i64;
    let client = catalog_with(
        &[
            ("chunk_a.parquet", serde_json::json!(5), serde_json::json!(8)),
            ("chunk_b.parquet", serde_json::json!(50), serde_json::json!(80)),
            ("chunk_c.parquet", serde_json::json!(200), serde_json::json!(300)),
        ],
        "value_i64",
        base,
        hour,
    )
    .await;

    let chunks = client
        .get_chunks_with_predicates(TimeRange::new(base, base + 4 * hour), &predicates)
        .await
        .unwrap();
    let mut kept: Vec<_> = chunks.iter().map(|c| c.chunk_path.clone()).collect();
    kept.sort();
    println!("kept chunks: {:?}", kept);
    assert!(kept.contains(&"chunk_a.parquet".to_string()), "chunk_a (rows 5, 8 match NOT BETWEEN 10 AND 100) was pruned; kept = {:?}", kept);
    assert!(kept.contains(&"chunk_c.parquet".to_string()), "chunk_c (rows 200, 300 match NOT BETWEEN 10 AND 100) was pruned; kept = {:?}", kept);
}
