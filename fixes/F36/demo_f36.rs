//! C14 defect 1: the clean-up phase swallows storage / catalog errors and then declares the
//! split finished (progress file removed), so a single transient failure while deleting an
//! old-shard chunk leaves a state that differs from an uninterrupted split and that no
//! `resume_split` will ever repair:
//!   (a) catalog delete fails  -> the object is gone but its catalog entry stays: a dangling
//!       entry that every query over that time range trips on;
//!   (b) object delete fails   -> the catalog entry is gone but the old-shard object stays
//!       in the store for ever (nothing references it any more).
//!
//! Control: `C14_CONTROL=1 cargo test --test c14_defect1 catalog` runs (a) without the fault and passes
//! (the query then returns all 9 rows).

use arrow::array::{Int64Array, RecordBatch};
use arrow::datatypes::{DataType, Field, Schema};
use async_trait::async_trait;
use cardinalsin::ingester::ChunkMetadata;
use cardinalsin::metadata::{
    CompactionJob, CompactionStatus, LocalMetadataClient, MetadataClient, SplitState,
    TimeIndexEntry, TimeRange,
};
use cardinalsin::query::{QueryConfig, QueryNode};
use cardinalsin::sharding::{ReplicaInfo, ShardMetadata, ShardSplitter, ShardState, SplitPhase};
use cardinalsin::StorageConfig;
use futures::stream::BoxStream;
use futures::StreamExt;
use object_store::memory::InMemory;
use object_store::path::Path;
use object_store::{
    GetOptions, GetResult, ListResult, MultipartUpload, ObjectMeta, ObjectStore, PutMultipartOpts,
    PutOptions, PutPayload, PutResult,
};
use parquet::arrow::ArrowWriter;
use std::sync::atomic::{AtomicBool, Ordering};
use std::sync::Arc;

const OLD: &str = "shard-old";
const SP: i64 = 600_000_000_000; // the split point execute_split computes for [0, 20 min]
const MAX_T: i64 = 1_200_000_000_000;

/// Metadata client that fails exactly one `delete_chunk` call (before it takes effect).
struct FlakyCatalog {
    inner: Arc<LocalMetadataClient>,
    fail_next_delete: AtomicBool,
}

#[async_trait]
impl MetadataClient for FlakyCatalog {
    async fn register_chunk(&self, p: &str, m: &ChunkMetadata) -> cardinalsin::Result<()> {
        self.inner.register_chunk(p, m).await
    }
    async fn get_chunks(&self, r: TimeRange) -> cardinalsin::Result<Vec<TimeIndexEntry>> {
        self.inner.get_chunks(r).await
    }
    async fn get_chunk(&self, p: &str) -> cardinalsin::Result<Option<ChunkMetadata>> {
        self.inner.get_chunk(p).await
    }
    async fn delete_chunk(&self, p: &str) -> cardinalsin::Result<()> {
        if self.fail_next_delete.swap(false, Ordering::SeqCst) {
            return Err(cardinalsin::Error::Metadata(format!(
                "injected: catalog unavailable while deleting {p}"
            )));
        }
        self.inner.delete_chunk(p).await
    }
    async fn list_chunks(&self) -> cardinalsin::Result<Vec<TimeIndexEntry>> {
        self.inner.list_chunks().await
    }
    async fn get_l0_candidates(&self, n: usize) -> cardinalsin::Result<Vec<Vec<String>>> {
        self.inner.get_l0_candidates(n).await
    }
    async fn get_level_candidates(&self, l: usize, t: usize) -> cardinalsin::Result<Vec<Vec<String>>> {
        self.inner.get_level_candidates(l, t).await
    }
    async fn create_compaction_job(&self, j: CompactionJob) -> cardinalsin::Result<()> {
        self.inner.create_compaction_job(j).await
    }
    async fn complete_compaction(&self, s: &[String], t: &str) -> cardinalsin::Result<()> {
        self.inner.complete_compaction(s, t).await
    }
    async fn update_compaction_status(&self, j: &str, s: CompactionStatus) -> cardinalsin::Result<()> {
        self.inner.update_compaction_status(j, s).await
    }
    async fn get_pending_compaction_jobs(&self) -> cardinalsin::Result<Vec<CompactionJob>> {
        self.inner.get_pending_compaction_jobs().await
    }
    async fn start_split(&self, o: &str, n: Vec<String>, sp: Vec<u8>) -> cardinalsin::Result<()> {
        self.inner.start_split(o, n, sp).await
    }
    async fn get_split_state(&self, s: &str) -> cardinalsin::Result<Option<SplitState>> {
        self.inner.get_split_state(s).await
    }
    async fn update_split_progress(&self, s: &str, p: f64, ph: SplitPhase) -> cardinalsin::Result<()> {
        self.inner.update_split_progress(s, p, ph).await
    }
    async fn complete_split(&self, o: &str) -> cardinalsin::Result<()> {
        self.inner.complete_split(o).await
    }
    async fn get_chunks_for_shard(&self, s: &str) -> cardinalsin::Result<Vec<TimeIndexEntry>> {
        self.inner.get_chunks_for_shard(s).await
    }
    async fn get_shard_metadata(&self, s: &str) -> cardinalsin::Result<Option<ShardMetadata>> {
        self.inner.get_shard_metadata(s).await
    }
    async fn update_shard_metadata(&self, s: &str, m: &ShardMetadata, g: u64) -> cardinalsin::Result<()> {
        self.inner.update_shard_metadata(s, m, g).await
    }
    async fn has_active_split(&self) -> cardinalsin::Result<bool> {
        self.inner.has_active_split().await
    }
}

/// Object store that fails exactly one `delete` of an old-shard data object (before it takes effect).
struct FlakyStore {
    inner: Arc<InMemory>,
    fail_next_delete: AtomicBool,
}
impl std::fmt::Debug for FlakyStore {
    fn fmt(&self, f: &mut std::fmt::Formatter<'_>) -> std::fmt::Result {
        write!(f, "FlakyStore")
    }
}
impl std::fmt::Display for FlakyStore {
    fn fmt(&self, f: &mut std::fmt::Formatter<'_>) -> std::fmt::Result {
        write!(f, "FlakyStore")
    }
}
#[async_trait]
impl ObjectStore for FlakyStore {
    async fn put_opts(&self, l: &Path, p: PutPayload, o: PutOptions) -> object_store::Result<PutResult> {
        self.inner.put_opts(l, p, o).await
    }
    async fn put_multipart_opts(
        &self,
        l: &Path,
        o: PutMultipartOpts,
    ) -> object_store::Result<Box<dyn MultipartUpload>> {
        self.inner.put_multipart_opts(l, o).await
    }
    async fn get_opts(&self, l: &Path, o: GetOptions) -> object_store::Result<GetResult> {
        self.inner.get_opts(l, o).await
    }
    async fn delete(&self, l: &Path) -> object_store::Result<()> {
        if l.as_ref().starts_with(OLD) && self.fail_next_delete.swap(false, Ordering::SeqCst) {
            return Err(object_store::Error::Generic {
                store: "FlakyStore",
                source: "injected: 503 SlowDown".into(),
            });
        }
        self.inner.delete(l).await
    }
    fn list(&self, p: Option<&Path>) -> BoxStream<'_, object_store::Result<ObjectMeta>> {
        self.inner.list(p)
    }
    async fn list_with_delimiter(&self, p: Option<&Path>) -> object_store::Result<ListResult> {
        self.inner.list_with_delimiter(p).await
    }
    async fn copy(&self, f: &Path, t: &Path) -> object_store::Result<()> {
        self.inner.copy(f, t).await
    }
    async fn copy_if_not_exists(&self, f: &Path, t: &Path) -> object_store::Result<()> {
        self.inner.copy_if_not_exists(f, t).await
    }
}

fn old_shard() -> ShardMetadata {
    ShardMetadata {
        shard_id: OLD.to_string(),
        generation: 1,
        key_range: (vec![0u8; 8], vec![255u8; 8]),
        replicas: vec![ReplicaInfo {
            replica_id: "r1".into(),
            node_id: "n1".into(),
            is_leader: true,
        }],
        state: ShardState::Active,
        min_time: 0,
        max_time: MAX_T,
    }
}

async fn seed(raw: &Arc<InMemory>, catalog: &Arc<LocalMetadataClient>) -> usize {
    catalog
        .update_shard_metadata(OLD, &old_shard(), 0)
        .await
        .unwrap();
    let chunks: Vec<(&str, Vec<(i64, i64)>)> = vec![
        ("c1", vec![(SP - 2, 1), (SP - 1, 2), (SP, 3), (SP + 1, 4)]),
        ("c2", vec![(100, 5), (SP, 6), (SP + 5, 7)]),
        ("c3", vec![(1, 8), (2, 9)]),
    ];
    let schema = Arc::new(Schema::new(vec![
        Field::new("timestamp", DataType::Int64, false),
        Field::new("value_i64", DataType::Int64, false),
    ]));
    let mut total = 0;
    for (name, rows) in chunks {
        let b = RecordBatch::try_new(
            schema.clone(),
            vec![
                Arc::new(Int64Array::from(rows.iter().map(|r| r.0).collect::<Vec<_>>())),
                Arc::new(Int64Array::from(rows.iter().map(|r| r.1).collect::<Vec<_>>())),
            ],
        )
        .unwrap();
        let mut buf = Vec::new();
        let mut w = ArrowWriter::try_new(&mut buf, schema.clone(), None).unwrap();
        w.write(&b).unwrap();
        w.close().unwrap();
        let path = format!("{OLD}/{name}.parquet");
        let len = buf.len() as u64;
        raw.put(&Path::from(path.as_str()), buf.into()).await.unwrap();
        catalog
            .register_chunk(
                &path,
                &ChunkMetadata {
                    path: path.clone(),
                    min_timestamp: rows.iter().map(|r| r.0).min().unwrap(),
                    max_timestamp: rows.iter().map(|r| r.0).max().unwrap(),
                    row_count: rows.len() as u64,
                    size_bytes: len,
                },
            )
            .await
            .unwrap();
        total += rows.len();
    }
    total
}

/// (a) one catalog `delete_chunk` fails during clean-up.
#[tokio::test(start_paused = true)]
async fn cleanup_catalog_error_is_swallowed_and_leaves_a_dangling_catalog_entry() {
    let raw = Arc::new(InMemory::new());
    let catalog = Arc::new(LocalMetadataClient::new());
    let total_rows = seed(&raw, &catalog).await;

    let flaky = Arc::new(FlakyCatalog {
        inner: catalog.clone(),
        fail_next_delete: AtomicBool::new(std::env::var("C14_CONTROL").is_err()),
    });
    let splitter = ShardSplitter::new(flaky.clone(), raw.clone());

    let res = splitter.execute_split(&old_shard()).await;
    println!("execute_split -> {res:?}");
    let resumed = splitter.resume_split(OLD).await;
    println!("resume_split  -> {resumed:?} (false = \"nothing to resume\")");
    assert!(!flaky.fail_next_delete.load(Ordering::SeqCst), "the fault was injected");

    // what a query sees afterwards
    let qn = QueryNode::new(
        QueryConfig::default(),
        raw.clone(),
        catalog.clone(),
        StorageConfig::default(),
    )
    .await
    .unwrap();
    let q = qn.query("SELECT timestamp, value_i64 FROM metrics WHERE timestamp >= 0").await;
    println!(
        "query after the split -> {}",
        match &q {
            Ok(b) => format!("Ok({} rows)", b.iter().map(|x| x.num_rows()).sum::<usize>()),
            Err(e) => format!("Err({e})"),
        }
    );

    let mut dangling = Vec::new();
    for c in catalog.list_chunks().await.unwrap() {
        if raw.head(&Path::from(c.chunk_path.as_str())).await.is_err() {
            dangling.push(c.chunk_path);
        }
    }
    let left = catalog.get_chunks_for_shard(OLD).await.unwrap();
    assert!(
        dangling.is_empty() && left.is_empty(),
        "C14 violated: one failed catalog request during clean-up, execute_split returned {res:?} and \
         resume_split returned {resumed:?}, yet the end state is not that of an uninterrupted split: \
         {} old-shard chunk(s) are still registered ({:?}) and {:?} point(s) to an object that the same \
         clean-up already deleted; the progress file is gone, so no resume will ever repair it. \
         A `SELECT timestamp, value_i64 FROM metrics WHERE timestamp >= 0` ({total_rows} rows expected) now gives: {}",
        left.len(),
        left.iter().map(|c| &c.chunk_path).collect::<Vec<_>>(),
        dangling,
        match &q {
            Ok(b) => format!("Ok({} rows)", b.iter().map(|x| x.num_rows()).sum::<usize>()),
            Err(e) => format!("Err({e})"),
        }
    );
}

/// (b) one object-store `delete` fails during clean-up.
#[tokio::test(start_paused = true)]
async fn cleanup_store_error_is_swallowed_and_leaves_old_shard_data_behind() {
    let raw = Arc::new(InMemory::new());
    let catalog = Arc::new(LocalMetadataClient::new());
    seed(&raw, &catalog).await;

    let store = Arc::new(FlakyStore {
        inner: raw.clone(),
        fail_next_delete: AtomicBool::new(true),
    });
    let splitter = ShardSplitter::new(catalog.clone(), store.clone());

    let res = splitter.execute_split(&old_shard()).await;
    println!("execute_split -> {res:?}");
    let resumed = splitter.resume_split(OLD).await;
    println!("resume_split  -> {resumed:?}");
    assert!(!store.fail_next_delete.load(Ordering::SeqCst), "the fault was injected");

    let mut left = Vec::new();
    let mut it = raw.list(Some(&Path::from(OLD)));
    while let Some(m) = it.next().await {
        left.push(m.unwrap().location.to_string());
    }
    let registered = catalog.get_chunks_for_shard(OLD).await.unwrap().len();
    assert!(
        left.is_empty(),
        "C14 violated: one failed object-store delete during clean-up, execute_split returned {res:?} and \
         resume_split returned {resumed:?}, yet old-shard object(s) {left:?} are still in the store while \
         the catalog lists {registered} chunk(s) for the old shard and the progress file is gone: the \
         end state differs from an uninterrupted split and nothing will ever remove the object"
    );
}
