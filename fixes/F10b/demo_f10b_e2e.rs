//! F10b end to end: rows older than one hour are returned by queries whose WHERE clause confines the timestamp with a
//! now()-relative bound or a TIMESTAMP literal (default schema: `timestamp` is Timestamp(ns, UTC)).
use arrow_array::{Float64Array, Int64Array, RecordBatch, StringArray, TimestampNanosecondArray};
use arrow_schema::{DataType, Field, Schema, TimeUnit};
use cardinalsin::ingester::{Ingester, IngesterConfig, WalConfig};
use cardinalsin::metadata::{LocalMetadataClient, MetadataClient};
use cardinalsin::query::{QueryConfig, QueryNode};
use cardinalsin::schema::MetricSchema;
use cardinalsin::StorageConfig;
use object_store::memory::InMemory;
use std::sync::Arc;

fn count_of(batches: &[RecordBatch]) -> i64 {
    batches
        .iter()
        .filter(|b| b.num_rows() > 0)
        .map(|b| b.column(0).as_any().downcast_ref::<Int64Array>().unwrap().value(0))
        .sum()
}

#[tokio::test]
async fn rows_older_than_an_hour_are_found_through_relative_and_literal_bounds() {
    let store = Arc::new(InMemory::new());
    let meta: Arc<dyn MetadataClient> = Arc::new(LocalMetadataClient::new());
    let ingester = Ingester::new(
        IngesterConfig { flush_row_count: 1, wal: WalConfig { enabled: false, ..Default::default() }, ..Default::default() },
        store.clone(),
        meta.clone(),
        StorageConfig::default(),
        MetricSchema::default_metrics(),
    );
    let node = QueryNode::new(QueryConfig::default(), store.clone(), meta.clone(), StorageConfig::default()).await.unwrap();

    let now = chrono::Utc::now();
    let t0 = now - chrono::Duration::minutes(150);
    let ts: Vec<i64> = (0..3).map(|i| t0.timestamp_nanos_opt().unwrap() + i * 1_000_000_000).collect();
    let schema = Arc::new(Schema::new(vec![
        Field::new("timestamp", DataType::Timestamp(TimeUnit::Nanosecond, Some("UTC".into())), false),
        Field::new("metric_name", DataType::Utf8, false),
        Field::new("value_f64", DataType::Float64, true),
        Field::new("host", DataType::Utf8, true),
    ]));
    let batch = RecordBatch::try_new(
        schema,
        vec![
            Arc::new(TimestampNanosecondArray::from(ts.clone()).with_timezone("UTC")),
            Arc::new(StringArray::from(vec!["cpu"; 3])),
            Arc::new(Float64Array::from(vec![1.0, 2.0, 3.0])),
            Arc::new(StringArray::from(vec!["a", "b", "c"])),
        ],
    )
    .unwrap();
    ingester.write(batch).await.unwrap();
    assert_eq!(meta.list_chunks().await.unwrap().len(), 1);

    let lo = (t0 - chrono::Duration::minutes(10)).format("%Y-%m-%dT%H:%M:%SZ").to_string();
    let hi = (t0 + chrono::Duration::minutes(10)).format("%Y-%m-%dT%H:%M:%SZ").to_string();
    let queries = vec![
        "SELECT count(*) FROM metrics WHERE timestamp > now() - interval '3 hours' AND timestamp <= now()".to_string(),
        format!("SELECT count(*) FROM metrics WHERE timestamp >= TIMESTAMP '{lo}' AND timestamp < TIMESTAMP '{hi}'"),
        format!("SELECT count(*) FROM metrics WHERE timestamp BETWEEN '{lo}' AND '{hi}'"),
        format!("SELECT count(*) FROM (SELECT * FROM metrics WHERE timestamp >= TIMESTAMP '{lo}') t"),
    ];
    let mut wrong = Vec::new();
    for sql in &queries {
        match node.query(sql).await {
            Ok(b) => {
                let n = count_of(&b);
                println!("{:>5}  count = {}  {}", if n == 3 { "ok" } else { "WRONG" }, n, sql);
                if n != 3 { wrong.push(sql.clone()); }
            }
            Err(e) => { println!("ERROR  {}  {}", e, sql); wrong.push(sql.clone()); }
        }
    }
    assert!(wrong.is_empty(), "rows ingested 150 minutes ago were not returned by: {:#?}", wrong);
}
