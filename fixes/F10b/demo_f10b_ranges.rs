//! Demonstration for known finding F10b: a now()-relative bound is ignored and replaced by "the last hour".
use cardinalsin::query::{CacheConfig, QueryEngine, TieredCache};
use cardinalsin::StorageConfig;
use object_store::memory::InMemory;
use std::sync::Arc;

async fn engine() -> (QueryEngine, tempfile::TempDir) {
    let dir = tempfile::tempdir().unwrap();
    let cache = Arc::new(
        TieredCache::new(CacheConfig {
            l1_size: 10 * 1024 * 1024,
            l2_size: 50 * 1024 * 1024,
            l2_dir: Some(dir.path().to_str().unwrap().to_string()),
        })
        .await
        .unwrap(),
    );
    let engine = QueryEngine::new(Arc::new(InMemory::new()), cache, &StorageConfig::default())
        .await
        .unwrap();
    (engine, dir)
}

#[tokio::test]
async fn now_relative_lower_bound_is_not_cut_to_the_last_hour() {
    let (engine, _dir) = engine().await;
    let range = engine
        .extract_time_range("SELECT * FROM metrics WHERE timestamp > now() - interval '2 hours' AND timestamp <= now()")
        .await
        .unwrap();
    let now = chrono::Utc::now().timestamp_nanos_opt().unwrap();
    let ninety_min_ago = now - 90 * 60 * 1_000_000_000i64;
    // a row written 90 minutes ago satisfies the WHERE clause, so it must be inside the scan range
    assert!(range.start <= ninety_min_ago, "scan range starts at {} (now - {} min)", range.start, ((now as i128 - range.start as i128) / 60_000_000_000));
}


/// the same default swallows an absolute bound written as a TIMESTAMP literal, as a string, or through
/// to_timestamp_nanos(): on the default schema (`timestamp` is Timestamp(ns, UTC)) these reach the extractor as
/// Cast / ScalarFunction expressions, not as literals
#[tokio::test]
async fn absolute_bounds_in_other_spellings_are_not_cut_to_the_last_hour() {
    let (engine, _dir) = engine().await;
    let day = 86_400_000_000_000i64;
    let now = chrono::Utc::now().timestamp_nanos_opt().unwrap();
    let mut failures = Vec::new();
    for sql in [
        "SELECT * FROM metrics WHERE timestamp >= TIMESTAMP '2024-01-01T00:00:00Z' AND timestamp < TIMESTAMP '2024-01-02T00:00:00Z'",
        "SELECT * FROM metrics WHERE timestamp >= '2024-01-01T00:00:00Z' AND timestamp < '2024-01-02T00:00:00Z'",
        "SELECT * FROM metrics WHERE timestamp >= to_timestamp_nanos(1704067200000000000) AND timestamp < to_timestamp_nanos(1704153600000000000)",
        "SELECT * FROM (SELECT * FROM metrics WHERE timestamp >= 1704067200000000000 AND timestamp < 1704153600000000000) t",
    ] {
        let range = engine.extract_time_range(sql).await.unwrap();
        // rows of 2024-01-01 satisfy the WHERE clause; a scan range that starts within the last day cannot contain them
        let ok = range.start <= 1704067200000000000 && range.end >= 1704153599999999999;
        println!("{:>5}  scan [{} .. {}]  (start = now - {} min)  {}", if ok { "ok" } else { "WRONG" }, range.start, range.end, ((now as i128 - range.start as i128) / 60_000_000_000), sql);
        if !ok { failures.push(sql); }
        let _ = day;
    }
    assert!(failures.is_empty(), "bounds ignored for: {:#?}", failures);
}
