//! Demonstration for F15: `WHERE a = .. OR b = ..` in a streaming subscription's live filter.
use arrow_array::{RecordBatch, StringArray, TimestampNanosecondArray};
use arrow_schema::{DataType, Field, Schema, TimeUnit};
use cardinalsin::query::QueryFilter;
use std::sync::Arc;

fn batch() -> RecordBatch {
    let schema = Arc::new(Schema::new(vec![
        Field::new("timestamp", DataType::Timestamp(TimeUnit::Nanosecond, None), false),
        Field::new("host", DataType::Utf8, false),
        Field::new("region", DataType::Utf8, false),
    ]));
    RecordBatch::try_new(
        schema,
        vec![
            Arc::new(TimestampNanosecondArray::from(vec![10, 20, 30, 40])),
            Arc::new(StringArray::from(vec!["a", "b", "b", "a"])),
            Arc::new(StringArray::from(vec!["y", "x", "y", "x"])),
        ],
    )
    .unwrap()
}

#[test]
fn or_filter_delivers_rows_matching_either_side() {
    let filter = QueryFilter::from_sql("SELECT * FROM metrics WHERE host = 'a' OR region = 'x'");
    let out = filter.apply(&batch(), 0).unwrap().expect("some rows match");
    // rows 0 (host a), 1 (region x), 3 (both) satisfy the WHERE clause; row 2 does not
    assert_eq!(out.num_rows(), 3, "a disjunction must deliver rows matching either side");
}

#[test]
fn and_filter_unchanged() {
    let filter = QueryFilter::from_sql("SELECT * FROM metrics WHERE host = 'a' AND region = 'x'");
    let out = filter.apply(&batch(), 0).unwrap().expect("one row matches");
    assert_eq!(out.num_rows(), 1);
}

#[test]
fn or_nested_in_and() {
    let filter = QueryFilter::from_sql(
        "SELECT * FROM metrics WHERE (host = 'a' OR region = 'x') AND host = 'b'",
    );
    let out = filter.apply(&batch(), 0).unwrap().expect("row 1 matches");
    assert_eq!(out.num_rows(), 1);
}
