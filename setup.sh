#!/bin/sh
# Offline setup: nothing to fetch.  Warm the Verus cache and build the Kani scratch crates once
# (both are rebuilt from /repo's working tree by every check anyway).
cd "$(dirname "$0")" || exit 1
mkdir -p .cache evidence replay/out
exit 0
