"""Run Verus on an assembled file and classify the outcome."""
from __future__ import annotations
import json
import os
import re
import subprocess
import time
from dataclasses import dataclass, field
from typing import Dict, List, Optional

from .assemble import Assembled, UnitInfo

VERUS = os.environ.get("VERIF_VERUS", "verus")

# messages that mean "this proof obligation was not discharged"
OBLIGATION_MSGS = [
    (re.compile(r"^postcondition not satisfied"), "postcondition"),
    (re.compile(r"^precondition not satisfied"), "precondition"),
    (re.compile(r"^assertion failed"), "assertion"),
    (re.compile(r"^invariant not satisfied before loop"), "invariant-entry"),
    (re.compile(r"^invariant not satisfied at end of loop body"), "invariant-preserved"),
    (re.compile(r"^loop invariant not satisfied"), "invariant-at-exit"),
    (re.compile(r"^possible arithmetic underflow/overflow"), "arithmetic-overflow"),
    (re.compile(r"^possible division by zero"), "division-by-zero"),
    (re.compile(r"^possible bit shift underflow/overflow"), "shift-overflow"),
    (re.compile(r"^decreases not satisfied"), "termination"),
    (re.compile(r"^could not prove termination"), "termination"),
    (re.compile(r"^recursive function must have a decreases clause"), "termination"),
    (re.compile(r"^loop must have a decreases clause"), "termination"),
    (re.compile(r"^constructed value may fail to meet its declared type invariant"), "type-invariant"),
    (re.compile(r"^unreachable|^reached unreachable|^cannot prove.*unreachable"), "unreachable"),
    (re.compile(r"^possible.*out of bounds|index out of bounds"), "bounds"),
    (re.compile(r"^value may be out of range of the target type"), "cast-range"),
]
# messages that mean the verifier gave up (never a violation)
UNDECIDED_MSGS = re.compile(r"rlimit|Resource limit|timed out|solver.*(crash|killed)|unsupported|not supported|unknown response", re.I)


@dataclass
class Failure:
    kind: str
    message: str
    line: int
    text: str
    unit: Optional[str]
    function: Optional[str]
    related: List[str] = field(default_factory=list)
    rendered: str = ""
    canary: bool = False


@dataclass
class VerusResult:
    template: str
    path: str
    cmd: str
    wall_s: float
    verified: int = 0
    errors: int = 0
    failures: List[Failure] = field(default_factory=list)
    undecided: List[str] = field(default_factory=list)
    functions: List[dict] = field(default_factory=list)   # function-breakdown
    smt_ms: int = 0
    raw_stderr: str = ""
    canaries_expected: List[str] = field(default_factory=list)
    canaries_failed: List[str] = field(default_factory=list)


def _enclosing_fn(lines: List[str], line: int) -> Optional[str]:
    pat = re.compile(r"^\s*(?:#\[[^\]]*\]\s*)*(?:pub(?:\([^)]*\))?\s+)?(?:open\s+|closed\s+|broadcast\s+|uninterp\s+)*(?:proof\s+|spec\s+|exec\s+)?(?:const\s+)?fn\s+([A-Za-z_][A-Za-z0-9_]*)")
    for i in range(min(line, len(lines)) - 1, -1, -1):
        m = pat.match(lines[i])
        if m:
            return m.group(1)
    return None


def run_verus(asm: Assembled, out_path: str, rlimit: int = 40, timeout_s: int = 600, extra: Optional[List[str]] = None) -> VerusResult:
    os.makedirs(os.path.dirname(out_path), exist_ok=True)
    with open(out_path, "w", encoding="utf-8") as f:
        f.write(asm.text)
    cmd = [VERUS, out_path, "--output-json", "--time-expanded", "--multiple-errors", "25",
           "--error-format=json", "--rlimit", str(rlimit), "--num-threads", "8"] + (extra or [])
    t0 = time.time()
    res = VerusResult(template=asm.template, path=out_path, cmd=" ".join(cmd), wall_s=0.0)
    try:
        p = subprocess.run(cmd, capture_output=True, text=True, timeout=timeout_s, cwd=os.path.dirname(out_path))
    except subprocess.TimeoutExpired:
        res.wall_s = time.time() - t0
        res.undecided.append("verus timed out after %ds" % timeout_s)
        return res
    res.wall_s = time.time() - t0
    res.raw_stderr = p.stderr
    lines = asm.text.split("\n")
    res.canaries_expected = sorted(set(re.findall(r"fn\s+(canary_[A-Za-z0-9_]*)", asm.text)))
    try:
        j = json.loads(p.stdout)
    except Exception:
        res.undecided.append("verus produced no JSON summary (exit %d): %s" % (p.returncode, (p.stderr or p.stdout)[-1500:]))
        return res
    vr = j.get("verification-results", {})
    res.verified = int(vr.get("verified", 0))
    res.errors = int(vr.get("errors", 0))
    try:
        smt = j["times-ms"]["smt"]
        res.smt_ms = int(smt.get("total", 0))
        for m in smt.get("smt-run-module-times", []):
            for fb in m.get("function-breakdown", []):
                res.functions.append({"function": fb.get("function"), "mode": fb.get("mode:"),
                                      "ms": fb.get("time"), "rlimit": fb.get("rlimit"), "success": fb.get("success")})
    except Exception:
        pass
    if vr.get("encountered-vir-error"):
        res.undecided.append("verus front-end (VIR) error")
    n_diag_err = 0
    for ln in p.stderr.split("\n"):
        ln = ln.strip()
        if not ln.startswith("{"):
            continue
        try:
            d = json.loads(ln)
        except Exception:
            continue
        if d.get("level") != "error":
            # rlimit notes come as warnings/notes in some versions
            if UNDECIDED_MSGS.search(d.get("message", "")) and "rlimit" in d.get("message", "").lower():
                res.undecided.append(d.get("message", ""))
            continue
        msg = d.get("message", "")
        if msg.startswith("aborting due to"):
            continue
        n_diag_err += 1
        spans = d.get("spans", [])
        prim = next((s for s in spans if s.get("is_primary")), spans[0] if spans else None)
        line = prim["line_start"] if prim else 0
        text = (prim["text"][0]["text"].strip() if prim and prim.get("text") else "")
        related = []
        for s in spans:
            if s is not prim and s.get("text"):
                related.append("%s: %s" % (s.get("label") or "related", s["text"][0]["text"].strip()))
        kind = None
        for rx, k in OBLIGATION_MSGS:
            if rx.search(msg):
                kind = k
                break
        if kind is None:
            if UNDECIDED_MSGS.search(msg):
                res.undecided.append("%s (line %d: %s)" % (msg, line, text))
            else:
                # rustc / mode / syntax error in the assembled file: the unit could not be checked
                res.undecided.append("assembled file rejected: %s (line %d: %s)" % (msg, line, text))
            continue
        unit = None
        for u in asm.units:
            if u.asm_start <= line <= u.asm_end:
                unit = u.uid
                break
        fn = _enclosing_fn(lines, line)
        fl = Failure(kind=kind, message=msg, line=line, text=text, unit=unit, function=fn,
                     related=related, rendered=d.get("rendered", ""))
        if fn and fn.startswith("canary_"):
            fl.canary = True
            res.canaries_failed.append(fn)
        res.failures.append(fl)
    # functions the solver could not finish
    for fb in res.functions:
        if fb.get("success") is False:
            pass
    if res.errors > 0 and n_diag_err == 0:
        res.undecided.append("verus reported %d errors but no diagnostics could be parsed" % res.errors)
    if not vr.get("success") and res.errors == 0 and not res.undecided:
        res.undecided.append("verus failed without verification errors: %s" % p.stderr[-1500:])
    return res
