"""Per-property configuration: which contract groups decide it, at which level, and what is assumed."""

TRUSTED_BASE = [
    "Verus 0.2026.09.13 + bundled Z3 (verification condition generation and SMT solving)",
    "Kani 0.68.0 + CBMC 6.11 + CaDiCaL (bit-precise symbolic execution of the extracted functions)",
    "the extractor /verif/vx (tokenizer, statement drops, async removal, declared rewrite rules, contract splicing)",
    "sequential reading of async code: `.await` points are not interleaving points unless a unit declares a rely",
    "assumed contracts of dependencies as listed under `assumptions` (external_body shims)",
]

PROPS = {}

PROPS["C05"] = {
    "level": "proof",
    "technique": "Verus contracts on the extracted WAL reader (equals a recursive reference parser for all byte strings, with termination) + torn-tail lemmas; Kani complete harnesses for the header codec; encode_record_batch (what is written to the log decodes to the batch that was appended: the arrow IPC round trip is assumed only for a writer that assigns one dictionary id per column, and the unit must establish that configuration: F82)",
    "verus": ["c05_wal_reader.rs.in"],
    "kani": ["c05_header"],
    "explanation": "",
    "assumptions": [
        "std::io::Read::read on a file returns 1..=n bytes, or 0 only at EOF; I/O errors while reading at recovery are outside the crash model",
        "crc32fast::Hasher computes a deterministic function of the bytes fed in",
        "synced bytes survive a crash; the unsynced suffix may be cut at any byte but is not reordered",
    ],
}

HOOKS = {
    "guard": "none (no source hooks: every unit is extracted from /repo's working tree into /verif/.cache on each run)",
    "enable": "not needed; checks read /repo's sources directly",
    "baseline_off_cmd": "cd /repo && cargo nextest run --workspace --no-fail-fast --tool-config-file pb:/w/lib/nextest.toml --profile pb --test-threads 8 --offline",
    "source_commits": [],
    "add_only": True,
}

NOT_APPLICABLE = {
}

NOTES = "Exit codes: 0 all obligations discharged; 1 VIOLATION (a named obligation failed); 2 UNDECIDED (lost anchor / unsupported construct / solver limit — never reported as a violation)."

PROPS["C12"] = {
    "level": "proof",
    "technique": "Verus soundness contracts on the extracted QueryEngine::convert_expr_to_predicate and convert_scalar_to_predicate_value over a DataFusion Expr shim (whenever a predicate is produced, every row the WHERE expression accepts satisfies it: comparisons, BETWEEN / NOT BETWEEN, IN / NOT IN, AND, OR, NOT at every depth); Verus soundness contract on the extracted evaluate_against_stats (every arm, And/Or/Not recursion) against row semantics over an abstract totally pre-ordered key domain; Kani complete harnesses for the numeric leaf comparators on the real serde_json::Value; the plan walk extract_predicates_from_plan (new template c12_scope): the predicates handed to pruning are exactly those of the Filters on a plain chain (Filter / Sort / Limit) above the TableScan -- a filter above a projection, aggregate, join or alias never gates chunks by the stored column of that name (F67), proved for every plan shape by structural recursion",
    "verus": ["c12_pruning.rs.in", "c12_scope.rs.in"],
    "kani": ["c12_leaves"],
    "explanation": "",
    "assumptions": [
        "DataFusion Expr / BinaryExpr / Between / InList / Column / Operator / ScalarValue have the shapes of the shim enum (other variants are opaque and must convert to None); comparisons with the column on the right-hand side are not pushed down; iter().map(f).collect::<Option<Vec<_>>>() is Some of the element-wise results or None",
        "HashMap::get returns the entry stored under the key (shim StatsMap)",
        "Iterator::any over a slice = exists over its elements (combinator shim; the closure body is verified as lifted real text)",
        "the key order of each type family is a total preorder; row values are compared through the literal's family (DataFusion casts an integer column to double for a float literal); chunk statistics are true minima / maxima under each accessor (monotone accessors)",
        "string comparison (byte-wise Ord on str) is a total order: the String arms of the leaves are covered only through this assumption (Kani harness for strings not built)",
    ],
}

PROPS["C07"] = {
    "level": "proof",
    "technique": "Verus contracts on the extracted registration / deletion / lookup code of both metadata backends: bucket-index representation invariant preserved by every transformer, lookup result equals the property's answer set (cover lemma over monotone hour buckets), with map / sort / retain combinators as assumed shims; in-memory backend: register_chunk and delete_chunk update chunk map, index and level inside one scope of the index lock (guard directive; F75), complete_compaction refuses a target that is one of its sources (F76)",
    "verus": ["c07_local.rs.in", "c07_s3.rs.in"],
    "explanation": "",
    "assumptions": [
        "std map semantics of HashMap/DashMap/BTreeMap/HashSet get/insert/remove/range as stated in the shims of prelude_meta.inc",
        "Vec::retain keeps exactly the elements on which the (lifted, verified) closure returns true; sort_by_key is a permutation sorted by the key",
        "strings are abstracted to their identity (only equality / copying of paths is used in these units)",
        "object-store backend: the client's 60 s catalog cache equals the stored object (operations issued through the same client); conditional PUT is atomic (ghost store contract)",
        "chunks are registered under their own path (metadata.path == path) — checked at the ingester call site in C06",
        "an interval with min > max is empty (never returned)",
    ],
}

PROPS["C08"] = {
    "level": "proof",
    "technique": "Verus contracts on the extracted lease operations (acquire / renew / complete / fail / scavenge on both backends; the object-store versions with their CAS retry loops: success is justified relative to the version the successful attempt loaded): inductive invariant 'Active leases have pairwise disjoint chunk lists', closures handed to retain/filter lifted and verified, rely on the conditional-PUT contract of the lease file; holder side (Compactor): the renewal cadence lies strictly inside the TTL, the renewal loop has no exit of its own (a failed renewal is retried at the next tick: F41), and the guard returned by spawn_lease_renewal aborts the task when dropped (F40)",
    "frame_scans": [{"file": "src/metadata/s3.rs", "patterns": [".atomic_save_leases("],
                     "allowed_units": ["s3_acquire_lease", "s3_renew_lease", "s3_complete_lease", "s3_fail_lease", "s3_scavenge_leases"],
                     "message": "the lease file is written only by the five lease operations under contract"}],
    "verus": ["c08_leases.rs.in", "c02_save.rs.in"],
    "explanation": "",
    "assumptions": [
        "HashMap::retain / values().filter().flat_map().collect() / iter().filter().cloned().collect() have their std meaning, stated over the lifted closure predicates",
        "chrono::DateTime<Utc> is a totally ordered instant; Utc::now() is the shared monotone clock, far from i64 overflow; + Duration::seconds(300) is exact",
        "uuid::Uuid::new_v4() is fresh with respect to ids already in the lease file",
        "holder side (F40): Rust drops the local that holds the LeaseRenewal guard on every exit of compact_l0 / compact_level (language semantics: early `?` returns, panics, a dropped future); tokio cancels an aborted task at its next await. Proved: the guard's drop and abort request the abort, and spawn_lease_renewal hands out the guard, not a bare JoinHandle",
        "holder side: the renewal loop's behaviour after a failed renew_lease is known finding F41 (probe); the 120 s cadence is proved to lie strictly inside the 300 s TTL, scheduling delay is not modelled",
        "object-store backend: other nodes follow the same protocol (every version of the lease file they write satisfies the invariant); conditional PUT succeeds only if the ETag is the one returned by the load of the same attempt, atomically",
    ],
}

PROPS["C13"] = {
    "level": "proof",
    "technique": "Verus contracts on the extracted update_shard_metadata (in-memory: whole function under a rely that lets other threads change the shared DashMap between any two of its calls -- a success is one write whose linearisation point satisfies the sequential contract; object store: the one-attempt body of the CAS loop over a ghost shard store with the conditional-PUT contract, and load_shard_with_etag / atomic_save_shard: value and ETag from one GET, one conditional PUT) and on ShardRouter::update_routing (same rely: the cached entry is never replaced by a lower generation at the linearisation point)",
    "frame_scans": [{"file": "src/metadata/s3.rs", "patterns": [".atomic_save_shard("],
                     "allowed_units": ["s3_update_shard_body"],
                     "message": "shard metadata objects are written only by update_shard_metadata (generation-fenced)"}],
    "verus": ["c13_generation.rs.in", "c02_save.rs.in"],
    "explanation": "",
    "assumptions": [
        "conditional PUT: create-if-absent for the \"none\" tag, update only if the stored ETag equals the one given, atomic, no effect on failure (ghost shard store shim)",
        "stored generations are below u64::MAX (generation + 1 does not overflow)",
        "DashMap (in-memory shard table, router cache): every call is atomic; between two calls of one thread other threads may change the map arbitrarily (havoc at every standalone get / insert and when an entry is taken), while an entry (DashMap::entry) is held nobody else touches that key; stored generations stay below u64::MAX. Under this rely the in-memory update and the router update are proved for all interleavings by their linearisation point (ghost lin_pre / lin_post); the pre-fix get-then-insert shape fails the same obligations (defect F29, repaired in /repo b94443e)",
        "the entry match is read as `entry_begin; if occupied { .. } else { .. }` with OccupiedEntry::get / insert and VacantEntry::insert acting on that key (declared rewrite)",
        "ShardMetadata is abstracted to (shard_id, generation, rest); serde round-trips it",
        "match-guard desugaring of the ShardNotFound arm (declared rewrite; equivalent because the fall-through arm returns the same error)",
    ],
}

PROPS["C03"] = {
    "level": "other",
    "technique": "Verus typestate contracts on the extracted Compactor::compact_l0 / compact_level (the swap is requested only under the lease acquired on exactly these sources and only for the target that merging exactly them produced; a source is scheduled for deletion only after the swap that removed it succeeded), merge_chunks (upload, then register, the returned path is the registered one, registered row count and time span are those of the uploaded object, nothing else changes) and timestamp_bounds (true min / max for both column types); Verus contracts on the extracted complete_compaction transformers of both backends (atomic swap: exactly the sources leave, target stays one level above the highest source, index invariant kept, unknown target => no change) and on the compactor's publish order",
    "frame_scans": [{"file": "src/compactor/mod.rs", "patterns": [".complete_compaction(", ".schedule_deletion("],
                     "allowed_units": ["compact_l0", "compact_level"],
                     "allowed_functions": ["enforce_retention"],
                     "message": "sources are swapped out and scheduled for deletion only by compact_l0 / compact_level (retention schedules what it dropped from the catalog itself: C09 unit)"}],
    "verus": ["c03_compaction.rs.in", "c03_compactor.rs.in"],
    "explanation": "Deductive obligations on the catalog transformers and the publish order of one compaction; row conservation of the merge itself rests on assumed arrow/parquet kernel contracts (concat_batches, sort_to_indices + take, Parquet encode/decode are value preserving). Crashes, two compactors and lease expiry are covered only through the atomic-swap contract (sources leave the catalog only inside one conditional PUT that requires the registered target) and the lease invariant of C08; interleavings are not explored.",
    "assumptions": [
        "compactor units: acquire_lease success = an exclusive live lease on exactly these chunks (C08); complete_compaction success = exactly the sources left the catalog (catalog units); a failed request leaves the ghost state unchanged (a failed-but-applied swap only leaves garbage, never loses rows); sort_batch and the Parquet writer keep the rows; generate_compacted_path is fresh (uuid)",
        "ChunkMerger::merge (unit chunk_merger_merge): read_chunk decodes what was encoded; concat_batches pairs columns BY POSITION, so it is only applied to batches that all carry the schema given to it (precondition -- the pre-fix call under the first chunk's schema fails it: F31); align_by_column_name is a unit too (aligned_ok: one schema with distinct names for all batches, every column of every batch under its own name, NULLs where a batch lacks the column; the closures are lifted, iter_mut().find and the nullability pass are shims); reading aligned_ok row-wise as 'rows unchanged as name -> cell maps' is stated, not mechanised; input batches are assumed to have one column per field",
        "known findings F19 (probe finding_F19_compact_l0) and F20 (probe finding_F20_stale_sources), demonstrated under /verif/findings",
        "arrow concat_batches / sort_to_indices / take and the Parquet writer/reader preserve the multiset of rows",
        "conditional PUT of the catalog object is atomic (ghost store contract of prelude_s3.inc)",
        "chunk levels stay below u32::MAX",
    ],
}

PROPS["C20"] = {
    "level": "other",
    "technique": "Verus contracts on the extracted in-memory get_l0_candidates (only L0 chunks, none selected twice, groups of at least min_count) and get_level_candidates (only chunks of the requested level, none selected twice, groups of at least two) and local complete_compaction (level = max source level + 1, computed before the sources are deleted); Verus contracts on the extracted candidate selection (object-store get_level_candidates: selected paths are exactly the chunks of the requested level, each in one group only) and on the level arithmetic of complete_compaction (target strictly above every source); the compaction slot guard (CompactionSlot::take counts, drop un-counts exactly one: a slot cannot outlive its compaction, F66)",
    "verus": ["c03_compaction.rs.in", "c20_local.rs.in", "c20_slots.rs.in"],
    "explanation": "Per-call obligations: no chunk is selected into two groups of one call, only chunks of the level being compacted are grouped, the merged chunk's level is strictly above every source level and no other chunk's level changes. Convergence over repeated cycles is argued from these contracts (each successful merge of >= 2 live sources removes at least one catalog entry and never lowers a level; levels are bounded by max_levels + 1) but the whole-history induction is not mechanised.",
    "assumptions": [
        "HashMap::into_iter().filter().map().collect() yields exactly the entries satisfying the (lifted, verified) predicate, each key once; sort_by_key is a permutation; std::mem::take returns the old vector and leaves an empty one",
        "chunk sizes and target sizes are below 2^62 (the running size sum does not overflow)",
    ],
}

PROPS["C02"] = {
    "level": "other",
    "technique": "Verus contracts on the five atomic_save_* wrappers (each serialises exactly the value it is given and reaches put_with_cas once, for that object's own path, conditional on the ETag the caller passed) and the five load_*_with_etag functions (value and ETag come from one GET of that object; \"none\" and the empty value iff the object is absent; the catalog's empty-file and legacy cases); Verus contracts on the extracted CAS machinery: the cas_retry! macro body (at most 5 attempts, Ok only from a successful attempt, conflict => retry, other errors returned at once), put_with_cas (create-if-absent / update-if-ETag, conflicts mapped to Error::Conflict, overwrite only behind the opt-in) and the one-attempt bodies of register / delete / complete_compaction as pure transformers of the catalog loaded in the same attempt that keep chunk map and time index consistent",
    "frame_scans": [{"file": "src/metadata/s3.rs", "patterns": [".put(", ".put_opts(", ".put_multipart("],
                     "allowed_units": ["put_with_cas"],
                     "allowed_functions": ["save_chunk_metadata_internal", "save_time_index", "save_chunk_metadata"],
                     "message": "every write of a catalog object goes through put_with_cas (conditional PUT); the three legacy functions exempted by name (they write the pre-catalog.json files) are an assumption of C02"}],
    "verus": ["c02_cas.rs.in", "c07_s3.rs.in", "c03_compaction.rs.in", "c02_wrappers.rs.in", "c02_save.rs.in"],
    "explanation": "All interleavings are covered through the assumed conditional-PUT contract of the object store, not explored: each attempt is load -> pure transform -> put-with-the-ETag-just-loaded and reports success only after the put succeeded (per-function obligations, discharged); with atomic conditional PUT every successful mutation is f_op(previous version) and every failed one leaves the object unchanged, so the version history is a one-at-a-time history and every version satisfies the chunk-map/time-index invariant. The serialisation argument itself is not mechanised.",
    "assumptions": [
        "frame scan exemptions: save_chunk_metadata (pub test helper), save_chunk_metadata_internal and save_time_index write the legacy (pre-catalog.json) objects unconditionally; they are read only when catalog.json does not exist. rebuild_time_index used to overwrite catalog.json unconditionally as well (defect F33, repaired: it now runs inside the CAS loop and is under contract like every other mutation)",
        "object_store conditional PUT: Create succeeds only if absent, Update(etag) only if the stored ETag matches, both atomic; a failed put has no effect (ghost ObjStore / catalog store shims)",
        "u64::pow(2, e) <= 65536 for e <= 16 (assume_specification)",
        "serde_json round-trips the catalog",
        "macro text is verified after `(async $body).await` is replaced by an abstract attempt with a ghost outcome log",
    ],
}

PROPS["C17"] = {
    "level": "other",
    "technique": "Verus contract on the row-building loop of convert_prom_to_arrow (one row per sample of every series in order; every column one cell per row; each row carries its own series' metric name, its sample's timestamp in ns and its series' label values, None where the series lacks the label), over the Kani-decided value routing and ms->ns scaling of the same text; Verus functional contract on the extracted OTLP export_request_to_data_points (eight nested loops: the output is, in request order, exactly one point per data point of the request, each with its own timestamp, metric name and the resource attributes of its own ResourceMetrics entry merged with its own), on number_point_to_metric_point and on data_points_to_arrow (one row per point; fixed columns carry timestamp / name / value; exactly one column per label key occurring in any point, cell = the point's value for the key or NULL); Verus typestate contract on handle_remote_write (204 only after exactly the converted batch was written once; undecodable bodies are answered 400 and write nothing); Verus totality + termination + completeness contracts on the extracted protobuf reader (read_varint, parse_sample, parse_label, parse_timeseries, parse_write_request: every index, slice bound and addition proved safe for all byte strings, position strictly increasing; a varint is refused only if truncated or longer than ten bytes); Kani complete harnesses for the checked end computation, the value routing over all f64 bit patterns, the ms->ns conversion and the OTLP number value (exact for doubles and integers up to 2^53); bounded harness for the varint value; the entry of Ingester::write and compute_shard_id (row-0 reads of the key columns are in bounds for every batch with a row, and write answers a batch without rows before reading any: F65); both converters refuse a label named like a fixed column (no label column carries a fixed column's name: F84) and the remote-write handler answers a body that parses but does not convert with 400; the Flight decode region contains the decoder's panics (F85)",
    "verus": ["c17_parsers.rs.in", "c17_otlp.rs.in", "c17_prom_rows.rs.in", "c17_handler.rs.in"],
    "kani": ["c17_ingest"],
    "explanation": "Parser totality and termination are proved unbounded by Verus on the extracted text; end computation, value routing (all f64 bit patterns) and ms->ns conversion are complete Kani proofs; the varint value formula is checked by a bounded Kani harness (16-byte window). Values are opaque in the Verus units (f64 conversions are decided by the Kani units); snappy / prost / Flight decoding and FlightIngestService::process_stream are not under contract; known finding F28 (OTLP integers beyond 2^53). Hence level other.",
    "assumptions": [
        "a Rust slice never spans more than isize::MAX bytes",
        "String::from_utf8_lossy, f64::from_le_bytes do not panic (shims); snappy / prost / Flight decoders return errors rather than panic (external, not verified)",
        "alloc::fmt::format is stubbed in the Kani harnesses (error-message text only)",
        "arrow array constructors (TimestampNanosecondArray / StringArray / Float64Array ::from, with_timezone) keep the vector they are given cell for cell; RecordBatch::try_new fails unless there is one equally long column per field; HashMap keys() / HashSet iteration yield each element once",
    ],
}

PROPS["C19"] = {
    "level": "proof",
    "technique": "lock discipline as typestate (tokio RwLock guards keep their lexical scope in the extracted text: acquiring a lock the task already holds for writing, or calling a helper that takes it, is a failed precondition -- self-deadlock); Verus contracts on the extracted NodeInfo::can_accept_writes (equals the property's eligibility predicate), ShardAssignment::assign_shard / unassign_shard (one node per shard, an assignment whose node is still eligible is reused), ShardAssignment::rebalance and update_node_shards (every shard stays assigned to one node; it moves only onto a node that can accept writes now; the ring and assignment locks are free on return and update_node_shards is never called under the assignment write lock) and DistributedWriteRouter::route_write (returns only the registry's current record of an eligible node, or an error; termination by a decreases measure — unbounded recursion or an unbounded loop fails the termination obligation)",
    "verus": ["c19_routing.rs.in"],
    "explanation": "",
    "assumptions": [
        "lock model: only the assignment table's RwLock, as seen by one task (what other tasks hold is not modelled); a guard lives to the end of its block or to a return inside it; `?` inside a guard scope is not supported (undecided)",
        "the three assignment strategies (hash ring, fewest shards, least loaded) are external here: they return some node id or an error and do not touch the assignment table; ConsistentHashRing / rebalance are not under contract",
        "RwLock / Arc are transparent under the sequential reading; membership changes between two requests are covered because the contracts quantify over every registry state",
        "let-else is rewritten to an equivalent match (declared rewrite)",
    ],
}

PROPS["C09"] = {
    "level": "other",
    "technique": "Verus contracts on the extracted persist_pending_deletions / load_pending_deletions (what is persisted at the end of a cycle is the complete pending list; the persisted list is never replaced before it has been read: F45; after a restart exactly the persisted and the already pending paths are pending, each path once); Verus contracts on the extracted Compactor::garbage_collect (every path handed to the object store's delete was pending, past the CONFIGURED grace period -- no substitute value: F43 -- and unpinned when checked; an entry leaves the pending list only when the store said its object is gone: F42; the four closures are lifted and verified), Compactor::enforce_retention (only chunks whose newest row is older than the cut-off leave the catalog), BoundedClock::retention_cutoff_nanos and the pin registry (is_pinned; pin adds one count per occurrence of each path, PinGuard::drop takes back exactly its own counts -- another guard's pin on the same path survives); Verus scope contract on the pinning region of QueryNode::query_for_tenant (the RAII pin guard taken for the selected chunk paths is alive when the statement is planned and executed and is released on every exit: guard directive, mode x)",
    "frame_scans": [{"file": "src/compactor/mod.rs", "patterns": [".delete(", ".delete_chunk("],
                     "allowed_units": ["garbage_collect", "enforce_retention"],
                     "message": "the compactor deletes objects only in garbage_collect and drops catalog entries only in enforce_retention (nothing else is ever deleted)"}],
    "verus": ["c09_gc.rs.in", "c03_compactor.rs.in"],
    "explanation": "Sequential per-pass obligations proved for all pending lists, pin sets, clocks and configurations in the stated ranges. A pin taken between GC's check and its delete (schedule) and the persistence of pending deletions across restarts (load / persist merge) are not covered; the catalog's max_timestamp is taken to be the chunk's true newest row (C06/C07 contracts).",
    "assumptions": [
        "compactor units shared with C03: a path is handed to the deletion queue only after the swap that removed it from the catalog reported success (typestate preconditions on schedule_deletion / complete_compaction shims)",
        "iter().filter().filter().map().collect(), Vec::retain and into_iter().filter().collect() have their std meaning over the lifted closure predicates",
        "chrono instants are a totally ordered integer; clock readings lie in [0, 2^62); the retention arithmetic saturates (i64::saturating_mul / saturating_sub shims with the exact clamped result), so the units hold for every u32 retention_days and every non-negative skew margin (F32); a retention beyond the representable span (about 292 years) is capped there",
        "get_chunks returns entries carrying the catalog's max_timestamp for their path (C07 lookup contract)",
        "RwLock guards are transparent under the sequential reading",
    ],
}

PROPS["C14"] = {
    "level": "other",
    "technique": "Verus contracts on the extracted ShardSplitter::execute_split_with_monitoring, resume_split, run_from_phase, SplitProgress::next_phase (ghost event log: the split is announced only after its progress file exists; a resumed split carries out exactly the phases after the recorded one, each once, in protocol order, clean-up last and only after the cut-over; on interruption only a prefix ran and the progress file never records a phase that was not carried out) and run_cutover (over a ghost catalog whose every request may fail before or after taking effect: every exit state is resumable, success = the state of an uninterrupted cut-over, no fault => success), run_backfill_with_progress (per-source bookkeeping never names a source that is not completely copied, at every exit; each non-empty side of each batch is written under the path of its own target shard, source, batch index and partition label; success = every source chunk copied and recorded), the partition loop of split_batch (C15 unit); Kani on the extracted SplitPhase enum and next_phase (discriminant order = protocol order, successor function)",
    "frame_scans": [{"file": "src/sharding/splitter.rs", "patterns": [".complete_split(", ".update_shard_metadata(", ".delete(", ".delete_chunk("],
                     "allowed_units": ["run_cutover", "cleanup"],
                     "allowed_functions": ["remove_progress"],
                     "message": "shard metadata changes and the end of the split state happen only in run_cutover; data is deleted only by cleanup (remove_progress deletes the progress file)"}],
    "verus": ["c14_split.rs.in", "c15_split.rs.in"],
    "kani": ["c14_phases"],
    "explanation": "Decided for the phase engine (resume point, order, bookkeeping never ahead of work), for crash-consistency of the cut-over sub-steps, and for row partition of one batch. Also under contract: write_chunk_to_path (object and catalog entry under the same path, row count and true min / max of the written data) and clean-up's delete loop (only the old shard's chunks). Not under contract: the string format of backfill_chunk_path (assumed injective), and the composition 'resume as often as needed reaches the same final state' as an induction over whole histories - the per-call contracts (every exit resumable + what remains is a suffix of the protocol) are its inductive step, the induction itself is not mechanised. Defects F17/F17b found by these contracts were repaired.",
    "assumptions": [
        "each phase body is abstracted by one event (Ran(phase)) that either happens completely or fails without a visible effect on the event log; the cut-over unit refines this for Cutover, the other phases' internal crash-consistency is not under contract",
        "persist_progress may fail before or after taking effect; load_progress returns what was last persisted (object-store read-after-write)",
        "run_backfill_with_progress / run_cutover do not change progress.completed_phase or old_shard (run_cutover: proved for old_shard in its own unit)",
        "catalog shims of the cut-over unit: update_shard_metadata is a generation CAS (C13 units), complete_split removes the split state and marks the old shard for deletion, get_* read the ghost catalog",
        "`phase as u8` equals the protocol position (Kani harness discriminant_order_is_protocol_order on the extracted enum)",
        "tokio::time::sleep has no effect on state",
    ],
}

PROPS["C15"] = {
    "level": "other",
    "technique": "Verus contract on the whole extracted dedup_batches (every batch that has a readable timestamp and a metric column -- whatever the metric column's arrow type -- is run through the keep-mask with the cumulative seen-set of all earlier such batches; a batch is emitted unchanged only if it holds no duplicate, otherwise exactly its non-duplicate rows, omitted only if all its rows are duplicates; order kept); Verus contracts on the extracted partition loops (Ingester::split_batch_by_key and ShardSplitter::split_batch: every row index on exactly one side, rows below the split point on the lower side, rows at or above it on the upper side, order kept), on write_with_split_awareness (effect order; lower side to new_shards[0], upper side to new_shards[1], each non-empty side to exactly one new shard) and on the keep-mask loop of dedup_batches (exactly the rows equal in every column to an earlier row are masked)",
    "verus": ["c15_split.rs.in"],
    "explanation": "Row routing and row-level de-duplication are proved for all batches and split points. Not provable by a contract on the existing structure and recorded as a known finding: de-duplication is applied to the result of the SQL, i.e. after aggregation, so aggregates over double-written rows are inflated while a split is active; (the pass-through of batches whose metric_name column is Utf8View / dictionary encoded was defect F23, repaired).",
    "assumptions": [
        "arrow accessors: Int64Array::value(i), RecordBatch::num_rows, take_record_batch selects exactly the given row indices, filter_record_batch keeps exactly the rows whose mask is true",
        "arrow row format (RowConverter) is injective: two row keys are equal iff the rows agree in every column",
        "batches have at most u32::MAX rows (i as u32 is lossless)",
        "the split state lists exactly two new shards",
        "i64::from_be_bytes / try_into: 8 big-endian bytes or an error",
    ],
}

PROPS["C18"] = {
    "level": "other",
    "technique": "Verus contracts on the extracted QueryFilter::apply (merge-point cut on the timestamp column, conjunction of the predicate list, row selection: exactly the wanted rows are delivered, None only if there is none), apply_predicate_to_mask (AND / OR / NOT over masks), apply_comparison and compare_f64 (row mask of `column OP literal` over typed arrow arrays: NULL never matches, every operator is its own symbol, a number literal is compared numerically against both numeric column types); Verus contracts on the extracted TopicFilter::matches (equals the filter's denotation, recursion through And / Or with the any / all closures lifted), FilteredReceiver::recv (delivers the first pending batch that matches, skips exactly the non-matching ones before it), the publishing side (Ingester::extract_metrics returns exactly the non-null metric names of the batch it is given; the publish step of flush_batches sends one topic batch whose metadata -- metric list and shard -- describes the very batch it carries) and the WHERE-clause extractor of the live filter (from_sql, extract_predicates_from_set_expr, try_column_op_value, try_extract_comparison, conjunction_of, extract_predicates_from_expr over a sqlparser AST shim: the filter of a one-statement `SELECT ... WHERE e` is built from e; for comparisons in either operand order, AND, OR and parentheses the conjunction of the extracted list is equivalent to the WHERE clause); QueryFilter::parse_sql_value against `denotes` (a signed or parenthesised number is read as the number written: F68; formerly an assumed shim)",
    "frame_scans": [{"file": "src/ingester/mod.rs", "patterns": ["topic_broadcast.send(", "TopicBatch {"],
                     "allowed_units": ["flush_publish"],
                     "message": "topic batches are built and published only by the flush path under contract (metadata describes the batch that is sent)"}],
    "verus": ["c18_filters.rs.in", "c18_mask.rs.in", "c18_publish.rs.in"],
    "explanation": "Filter denotation, delivery order and predicate extraction are proved for all filters, metadata, pending sequences and supported WHERE expressions. The IN / NOT IN / BETWEEN arms of the mask walk (closure-based helpers row_matches_value / row_gte_value / row_lte_value, not produced by from_sql for the supported forms) are not under contract; NOT is two-valued as in the code; float equality is the code's epsilon equality, taken as intended; lag-induced drops are excluded by the property.",
    "assumptions": [
        "Iterator::any / all over a slice = exists / forall over its elements (combinator shims over the lifted closures); Vec::contains",
        "sqlparser's Expr has the shapes of the shim enum (BinaryOp{left,op,right}, Nested, Identifier, CompoundIdentifier, Value, other); parse_sql_value is an opaque literal reader; to_lowercase is a function",
        "row-level meaning of `column OP literal` is opaque (cmp_holds); reversed operand order means the flipped operator (taken from the property statement)",
        "the broadcast channel hands out the pending batches in order (ghost queue)",
        "arrow: column_by_name / as_string_opt / is_null / value read the metric_name column cell by cell; HashSet insert / into_iter().collect() keep each element once; compute_shard_id is the batch's shard (opaque)",
    ],
}

PROPS["C04"] = {
    "level": "other",
    "technique": "Verus contract on the extracted QueryEngine::extract_time_from_expr over a DataFusion Expr shim (every timestamp the WHERE clause may accept lies inside the extracted bounds: comparisons in either operand order, =, BETWEEN / NOT BETWEEN, AND, OR at every depth) and on the default handling of extract_time_range (time_range_defaults, has_time_predicate, node_has_time_predicate, mentions_time_column: only a statement without any time predicate is narrowed to the last hour); Verus contract on the body of QueryNode::query_for_tenant between the metadata lookup and the answer (the statement is evaluated over exactly the chunks the lookup returned, the byte count is theirs); composed with the exact chunk lookup (C07) and sound statistics pruning (C12)",
    "verus": ["c04_timebounds.rs.in", "c07_local.rs.in", "c07_s3.rs.in", "c12_pruning.rs.in", "c04_registration.rs.in", "c04_query.rs.in", "c12_scope.rs.in"],
    "kani": ["c12_leaves"],
    "explanation": "C04 is decided only for the three pruning stages cardinalsin itself implements: (1) the extracted time range over-approximates the accepted timestamps (proved; a window side the extractor cannot read stays unbounded whenever the statement has a time predicate at all -- units has_time_predicate / node_has_time_predicate / mentions_time_column / time_range_defaults, defect F10b repaired; a statement with no time predicate anywhere gets the product default 'last hour' and is outside the property's family), (2) the chunk lookup returns exactly the chunks meeting the range (C07 units), (3) statistics pruning never drops a chunk that can contain a matching row (C12 units). That DataFusion evaluates the SQL correctly on the registered files, per-query table registration and adaptive-index independence are assumed, not verified; convert_expr_to_predicate is not under contract yet.",
    "assumptions": [
        "table registration: ListingTable over a path set scans exactly those files; SessionContext::register_table binds the name or fails without effect; a register_table failure directly after deregister_table leaves the bookkeeping stale (not covered: the unit requires a clean state on entry); string normalisation of paths is opaque",
        "DataFusion's Expr / BinaryExpr / Between / Column / Operator have the shapes of the shim (only the variants the extractor matches on, plus Other); extract_timestamp_value is an opaque literal reader (its *1000 / *1e6 / *1e9 scalings are not checked for overflow)",
        "Option::unwrap_or, i64::min / max have their std meaning (i64_min / i64_max shims are verified functions)",
        "DataFusion plans and executes the SQL correctly over the registered Parquet files",
    ],
}

PROPS["C11"] = {
    "level": "other",
    "technique": "Verus call-site frame obligations on the extracted QueryEngine entry points that take user SQL (plan_read_only_sql_locked, plan_read_only_sql, the planning step of with_metrics_table, execute, execute_planned, execute_with_indexes and the collect of execute_planned_with_indexes, execute_stream, analyze, prepare and the planning statements of extract_time_range, extract_column_predicates): user SQL reaches the engine only through sql_with_options with DDL, DML and statements disallowed, and only read-only frames are run; the per-query binding of `metrics` that every statement performs keeps its bookkeeping invariant on every exit (unit register_metrics_table_for_chunks_locked of c04_registration), so a statement does not change what a later statement is answered over",
    "frame_scans": [{"file": "src/query/engine.rs", "patterns": [".sql(", ".sql_with_options(", ".execute_logical_plan(", ".state().create_logical_plan("],
                     "allowed_units": ["plan_read_only_sql_locked"],
                     "message": "user SQL may reach the embedded engine only through plan_read_only_sql_locked (the one place that plans with DDL / DML / statements disallowed)"}],
    "verus": ["c11_readonly.rs.in", "c04_registration.rs.in"],
    "explanation": "The deciding semantics live inside DataFusion: it is ASSUMED that SessionContext::sql_with_options with DDL, DML and statements disallowed returns an error for every plan that is not a read-only query and performs no write, while SessionContext::sql gives no such guarantee. Under that dependency contract each entry point is proved to leave storage, catalog and session bindings unchanged for every SQL string; a call site that goes back to ctx.sql or relaxes an option fails its frame obligation. HTTP / Flight / Prometheus handlers are covered because they all funnel into these entry points (not checked mechanically).",
    "assumptions": [
        "DataFusion honours SQLOptions (verify_plan rejects DDL, DML incl. COPY, and statements, also under EXPLAIN)",
        "collect / execute_stream of a read-only frame do not write; logical_plan() is a pure accessor",
        "the API layer passes user SQL only to these QueryEngine entry points",
    ],
}

PROPS["C10"] = {
    "level": "other",
    "technique": "Verus lock-discipline contracts on the extracted QueryEngine::with_metrics_table (the request's chunk set is registered and its statement planned inside one critical section of metrics_table_query_lock, so the planned statement resolved `metrics` to exactly the normalised chunk set asked for, on every exit the lock is released), register_metrics_table_for_chunks and plan_read_only_sql (locked helpers are called only with the lock held, never re-entrantly), plan_read_only_sql_locked, execute_planned, execute_planned_with_indexes (the answer is the collect of the planned statement handed in) and on the two operation closures at the call sites (QueryNode::query_for_tenant, StreamingQueryExecutor::execute: the answer is computed from the planned statement, not by planning the SQL text again); token frame scans close the discipline (the catalog binding is touched, and the locked helpers are called, only inside those units)",
    "frame_scans": [
        {"file": "src/query/engine.rs", "patterns": [".deregister_table(", ".register_table("],
         "allowed_units": ["register_metrics_table_for_chunks_locked", "register_empty_metrics_table"],
         "allowed_functions": ["register_chunk"],
         "message": "the session binding of `metrics` is written only by the two registration helpers that run under metrics_table_query_lock (register_chunk binds per-chunk table names, never `metrics`)"},
        {"file": "src/query/engine.rs", "patterns": [".register_metrics_table_for_chunks_locked(", ".register_empty_metrics_table(", ".plan_read_only_sql_locked("],
         "allowed_units": ["with_metrics_table", "register_metrics_table_for_chunks", "plan_read_only_sql", "register_metrics_table_for_chunks_locked"],
         "allowed_functions": ["new"],
         "message": "the helpers that read or write the `metrics` binding without taking the lock are called only from functions that hold it (QueryEngine::new runs before the engine is shared)"},
        {"file": "src/query/mod.rs", "patterns": ["engine.execute(", "engine.execute_with_indexes(", "engine.execute_stream(", "engine.execute_planned(", "engine.execute_planned_with_indexes("],
         "allowed_units": ["query_for_tenant_operation"],
         "message": "a query node evaluates statements only inside the operation handed to with_metrics_table"},
        {"file": "src/query/streaming.rs", "patterns": ["engine.execute(", "engine.execute_with_indexes(", "engine.execute_stream(", "engine.execute_planned(", "engine.execute_planned_with_indexes("],
         "allowed_units": ["streaming_operation"],
         "message": "the streaming executor evaluates its historical statement only inside the operation handed to with_metrics_table"},
        {"file": "src/query/mod.rs", "patterns": ["engine.execute(", "engine.execute_with_indexes(", "engine.execute_stream("],
         "allowed_units": [],
         "message": "a query node never calls the self-planning entry points (execute / execute_with_indexes / execute_stream plan the SQL text in a critical section of their own, against whatever `metrics` is bound by then); decided even when the operation unit's anchor is lost"},
        {"file": "src/query/streaming.rs", "patterns": ["engine.execute(", "engine.execute_with_indexes(", "engine.execute_stream("],
         "allowed_units": [],
         "message": "the streaming executor never calls the self-planning entry points (execute / execute_with_indexes / execute_stream plan the SQL text in a critical section of their own, against whatever `metrics` is bound by then); decided even when the operation unit's anchor is lost"},
    ],
    "verus": ["c10_isolation.rs.in", "c04_registration.rs.in"],
    "explanation": "The quantifier is over schedules; no schedule is explored. The property is reduced to a lock discipline whose every step is a per-function obligation on the real text, and the step from the discipline to all interleavings is the ASSUMED meaning of the lock: tokio::sync::Mutex gives mutual exclusion, so between this request's registration and its planning (one critical section) no other request changes what `metrics` resolves to; outside critical sections anybody may (acquire and release havoc the binding in the contracts). A planned DataFrame keeps the table provider it resolved (DataFusion: LogicalPlan::TableScan owns its source) - assumed, so execution outside the lock is not affected by later re-registration. Not covered: the pruning inputs (extract_time_range / extract_column_predicates) are planned, under the lock but in an earlier critical section, against whatever table the previous request left registered; this is sound for results only if all chunk files agree on the types of the columns a statement mentions (schema evolution across chunk sets could change a coerced literal and with it the selected chunk set). Defect F25 (the pinned tree planned after releasing the lock: wrong answers under concurrency, demonstrated) is repaired by /repo commit f9c4b52.",
    "assumptions": [
        "tokio::sync::Mutex::lock gives mutual exclusion and the guard `_guard` lives to the end of its block (Rust drop order); a second lock() by the holder never returns (modelled as a precondition !held)",
        "rely: other requests follow the same discipline (same code); while this request holds the lock the `metrics` binding does not change, at any other time it may change arbitrarily",
        "DataFusion: ctx.sql_with_options resolves table names at planning time and the returned DataFrame keeps the resolved provider; df.collect() scans exactly that provider",
        "register_metrics_table_for_chunks_locked binds `metrics` to exactly norm(chunk_paths) on success, or leaves it unbound (unit of c04_registration, discharged in the same run; its precondition book_ok -- the bookkeeping names what `metrics` is bound to, or `metrics` is unbound -- is the lock invariant: the unit re-establishes it on every exit, QueryEngine::new establishes it)",
        "the closure region units replace `with_metrics_table(&chunk_paths, sql, |p| async { body })` by `let p = df_in; { body }` (declared rewrite); the statement that reaches the closure is the one planned by with_metrics_table (unit with_metrics_table, via its run_operation shim)",
        "chunk files of one tenant agree on the types of the columns a statement mentions (pruning inputs are planned against a table left by an earlier request)",
        "QueryEngine::new registers the empty table before the engine value is shared",
    ],
}

PROPS["C16"] = {
    "level": "other",
    "technique": "Verus contract on the extracted CachedObjectStore::get (the cache is asked under the key of `location`, the miss path fetches `location` itself, the bytes and the range handed back are the whole object); Verus contracts on the extracted TieredCache::get_or_fetch (representation invariant: whatever L1 / L2 may hold under a key is the backing store's bytes of that key; a successful read returns exactly those bytes; inserts only under the requested key), TieredCache::invalidate and CachedObjectStore::get_opts / delete / rename (every request that carries any option of GetOptions -- range, ETag or date condition, version, head -- bypasses the cache, delete and rename invalidate); the cache tiers fail open (if reading the backing store cannot fail, get_or_fetch does not fail: an error of the disk tier is a miss); the disk tier's weighter, lifted out of TieredCache::new, never returns 0 (foyer asserts that)",
    "frame_scans": [{"file": "src/query/cached_store.rs", "patterns": ["self.cache.get_or_fetch(", "self.cache.get("],
                     "allowed_units": ["store_get"],
                     "message": "the tiered cache is read only by the whole-object GET (ranged / conditional reads and every other request go to the backing store)"}],
    "verus": ["c16_cache.rs.in"],
    "explanation": "Transparency is proved for every sequence of operations (invariant preserved by each operation) under the ASSUMED moka / foyer contract that get(k) returns only a value previously inserted under k (eviction = absence at any time). CachedObjectStore::get itself (closure / stream plumbing around get_or_fetch) enters through an assumed contract; concurrent readers of one key and eviction timing inside moka / foyer are not covered. Defects F56 (date-conditional / versioned / head reads answered from the cache), F57 (empty object panics with a disk tier) and F58 (disk tier error fails the read) were found by an audit of the unchanged code and repaired; each is now a postcondition.",
    "assumptions": [
        "moka::future::Cache and foyer::HybridCache return from get(k) only what was inserted under k, or nothing",
        "chunk objects are write-once: the backing store's bytes under a key never change (stored(k) is a function of the key)",
        "the fetch closure passed to get_or_fetch reads the backing store under the same key",
        "Arc, Bytes::from / to_vec preserve contents",
        "foyer HybridCacheBuilder chain (memory, eviction, storage engine, device, build) yields an empty cache that calls the weighter handed to it; foyer panics inside its own code (garbage over entry headers) are outside this check",
    ],
}

PROPS["C06"] = {
    "level": "other",
    "technique": "a second reading of append_to_buffer_and_maybe_flush under a rely (other writers may append while the lock is released during a flush): the buffer stays schema-homogeneous, i.e. compatibility is re-checked after every flush before the incoming batch is appended; Verus contracts on the extracted WriteBuffer (append / take / clear conserve the batch sequence and keep the two counters equal to the sums), Ingester::append_to_buffer_and_maybe_flush (an accepted batch is accounted for exactly once, after everything before it; BufferFull appends and drops nothing; flush-before-append on schema change), Ingester::flush_batches (exactly one upload under a fresh path, one registration whose entry carries the written data's row count, min and max timestamp, one legacy and one topic announcement, in this order) and extract_min_timestamp / extract_max_timestamp (true minimum / maximum for both supported column types)",
    "verus": ["c06_ingest.rs.in"],
    "explanation": "Sequential obligations proved for all batch sequences, thresholds and schemas; the buffer lock is read as ownership (take and append happen under the same write guard). Interleavings of concurrent writers and the timer flush are not explored (each path is proved separately: every take() is followed by exactly one flush_batches call with exactly the taken batches). Value preservation of concat_batches and the Parquet encoder is assumed. The all-null timestamp column yields min = max = 0 (flagged, not a violation of the stated property).",
    "assumptions": [
        "arrow concat_batches / Parquet writer preserve rows and values; arrow::compute::min / max return the true minimum / maximum of the non-null values",
        "generate_path (clock + UUIDv4) returns a path not used before",
        "buffered row / byte counts stay within usize",
        "RwLock write guard = exclusive ownership of the buffer for the guarded region",
        "fault-free scope: what happens to the taken batches when a flush fails is outside C06 (it is known finding F4 under C01)",
    ],
}

PROPS["C01"] = {
    "level": "other",
    "technique": "Verus contract on the extracted recovery Ingester::ensure_wal (three nested loops: every decodable entry newer than the mark ends up in the buffer or in registered chunks and is covered by last_wal_seq; a flush issued during recovery never persists a mark that covers an entry not completely in chunks; start-up truncation cuts only what the mark covers; at every exit, also failed ones, the mark is safe); Verus effect-order contracts on the extracted write path (WAL append before buffer append before the acknowledgement; a WAL failure buffers nothing; the write's sequence number is published only once its rows are buffered, so that a flush issued from inside the write cannot persist a mark covering it), on flush_batches (upload, registration, announcements, then WAL truncation, then the persisted mark; a failed flush never moves the mark; under quiescence the mark equals the flushed cover) and the WAL reader / header codec units of C05; two probes record the known findings F3 and F4",
    "frame_scans": [{"file": "src/ingester/mod.rs", "patterns": ["persist_flushed_seq(", ".truncate_before("],
                     "allowed_units": ["flush_batches", "ensure_wal", "flush_mark_sequential"],
                     "message": "the flushed mark is persisted and the log is truncated only by flush_batches and by recovery (ensure_wal)"}],
    "verus": ["c01_durability.rs.in", "c06_ingest.rs.in", "c05_wal_reader.rs.in", "c05_wal_fs.rs.in", "c01_recovery.rs.in"],
    "kani": ["c05_header"],
    "explanation": "Sequential crash-point core only: between every two effects of write and flush_batches the ordering obligations hold for all inputs and all failure points of the shimmed callees (each effect either happened or not). The schedule quantifier of C01 is NOT covered beyond one rely on the shared sequence cell, and exactly there the property fails today (known findings F3, F4, demonstrated on the real code under /verif/findings). Recovery (ensure_wal) is under contract over the WAL reader contract of C05; the timer / shutdown flush (run_flush_timer: tokio::select!) is not. OS-level durability of synced bytes is assumed.",
    "assumptions": [
        "recovery: WalEntry::batches() yields the entry's batches or an error; read_entries_after returns exactly the complete entries newer than the mark in ascending order (C05 units); flush_batches registers everything handed to it and persists mark = last_wal_seq on success, persists no mark on failure (unit flush_batches); an empty buffer accepts every schema",
        "WAL append returns Ok only after the entry is durable (sync_mode EveryWrite); synced bytes survive a crash",
        "object store put / catalog register_chunk either take effect or fail without effect",
        "known finding F3 (probe finding_F3_flush_mark) and F4 (probe finding_F4_append_flush_failure)",
    ],
}

PROPS["C05"]["verus"] = ["c05_wal_reader.rs.in", "c05_wal_lemmas.rs.in", "c05_wal_fs.rs.in"]
PROPS["C05"]["technique"] = "Verus contracts on the extracted WAL code: the reader equals a recursive reference parser for all byte strings (with termination); torn-tail theorem over the reader / codec contracts (a cut at any byte yields exactly the complete entries); over a ghost file system, open / append_payload / rotate / truncate_before / read_entries_after / last_sequence_* keep the log invariant (clean active segment, every sequence number on disk and the flushed mark below next_seq, increasing numbers) and open restarts above both the disk and the mark; Kani complete harnesses for the header codec"
PROPS["C05"]["assumptions"] += [
    "file system shims: read_dir + sort gives the segments by id; append-mode write_all writes everything or a prefix; set_len keeps a prefix; remove_file removes one file; tokio::fs::File is modelled synchronously (write_all = the bytes are in the file, all or a prefix); in reality write_all only queues them and the outcome arrives with the next operation -- the code now calls flush() after the payload for exactly that reason (F30) and the flush shim is where the outcome is reported; the flushed_seq mark file: persist_flushed_seq is std::fs::write (truncate, then write) -- a crash inside it leaves an empty or short file, which load_flushed_seq (unit) reads as 0, never as a value above the last completely persisted mark; the op-level units model a persist as atomic and a lower mark only causes re-delivery (that step is argued, not mechanised)",
    "facts imported into c05_wal_fs from the other two C05 groups: appending a complete frame to a clean segment keeps it clean and appends one entry (theorem_torn_tail, k = |frame|); the re-encoded length of what the reader returns is a clean prefix of the file (lemma_valid_prefix + codec contract)",
    "payloads are at most u32::MAX bytes; segment sizes, segment ids and sequence numbers stay far from overflow",
    "after a failed WAL write (I/O error) the log object must be reopened before further appends: the code does not enforce this (flagged; WAL disk faults are outside the crash model of C05)",
    "the disk found by open satisfies disk_ok (it was produced by earlier runs of this WAL plus crashes): per-segment increasing numbers, older segments below newer ones",
]
