"""Per-property configuration: which contract groups decide it, at which level, and what is assumed."""

TRUSTED_BASE = [
    "Verus 0.2026.09.13 + bundled Z3 (verification condition generation and SMT solving)",
    "Kani 0.68.0 + CBMC 6.11 + CaDiCaL (bit-precise symbolic execution of the extracted functions)",
    "the extractor /verif/vx (tokenizer, statement drops, async removal, declared rewrite rules, contract splicing)",
    "sequential reading of async code: `.await` points are not interleaving points unless a unit declares a rely",
    "assumed contracts of dependencies as listed under `assumptions` (external_body shims)",
]

PROPS = {}

PROPS["C05"] = {
    "level": "proof",
    "technique": "Verus contracts on the extracted WAL reader (equals a recursive reference parser for all byte strings, with termination) + torn-tail lemmas; Kani complete harnesses for the header codec",
    "verus": ["c05_wal_reader.rs.in"],
    "kani": ["c05_header"],
    "explanation": "",
    "assumptions": [
        "std::io::Read::read on a file returns 1..=n bytes, or 0 only at EOF; I/O errors while reading at recovery are outside the crash model",
        "crc32fast::Hasher computes a deterministic function of the bytes fed in",
        "synced bytes survive a crash; the unsynced suffix may be cut at any byte but is not reordered",
    ],
}
