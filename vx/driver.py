"""check driver: assemble units from /repo's working tree, run the back ends, classify, write evidence."""
from __future__ import annotations
import argparse
import fcntl
import hashlib
import json
import os
import re
import sys
import time
from typing import Dict, List, Optional

from . import registry
from .assemble import assemble, Assembled
from .rusttok import ExtractError
from .verus_backend import run_verus, VerusResult, Failure
from . import kani_backend

ROOT = os.path.dirname(os.path.dirname(os.path.abspath(__file__)))
REPO = os.environ.get("VERIF_REPO", "/repo")
CACHE = os.path.join(ROOT, ".cache")
ASSUME_SCAN = re.compile(r"\b(assume\s*\(|admit\s*\(|external_body|assume_specification|verifier::external|kani::assume|kani::stub|verifier::truncate|uninterp\s+spec)")


def load_known_findings() -> List[dict]:
    p = os.path.join(ROOT, "known_findings.jsonl")
    out = []
    if os.path.exists(p):
        for ln in open(p, encoding="utf-8"):
            ln = ln.strip()
            if ln.startswith("{"):
                out.append(json.loads(ln))
    return out


def obligation_id(prop: str, tpl: str, f: Failure) -> str:
    where = f.unit or ("fn:" + (f.function or "?"))
    return "%s/%s/%s/%s" % (prop, tpl.replace(".rs.in", ""), where, f.kind)


def finding_matches(kf: dict, prop: str, oid: str, text: str, function: Optional[str]) -> bool:
    if kf.get("status") != "known" or kf.get("property") != prop:
        return False
    m = kf.get("match", {})
    if m.get("always") or not any(k in m for k in ("obligation", "function", "text_contains")):
        return False        # an unprobed finding is reported on every run and can never match (= suppress) a failed obligation
    if "obligation" in m and m["obligation"] != oid:
        return False
    if "function" in m and m["function"] != (function or ""):
        return False
    if "text_contains" in m and m["text_contains"] not in text:
        return False
    return bool(m)


def scan_assumptions(text: str, label: str) -> List[str]:
    out = []
    lines = text.split("\n")
    for i, ln in enumerate(lines):
        if ASSUME_SCAN.search(ln) and not ln.strip().startswith("//"):
            # name the item the marker belongs to: next `fn`/`spec fn` line
            name = None
            for k in range(i, min(i + 6, len(lines))):
                mm = re.search(r"fn\s+([A-Za-z_][A-Za-z0-9_]*)", lines[k])
                if mm:
                    name = mm.group(1)
                    break
            tag = ASSUME_SCAN.search(ln).group(1).strip(" (")
            out.append("%s: %s %s" % (label, tag, name or ln.strip()[:60]))
    return sorted(set(out))


def write_replay(prop: str, entries: List[dict]) -> str:
    d = os.path.join(ROOT, "replay", "out")
    os.makedirs(d, exist_ok=True)
    h = hashlib.sha256(json.dumps(entries, sort_keys=True).encode()).hexdigest()[:10]
    p = os.path.join(d, "%s-%s.json" % (prop, h))
    with open(p, "w", encoding="utf-8") as f:
        json.dump({"property": prop, "violations": entries,
                   "how_to_replay": "./check --replay %s" % p}, f, indent=1)
    return p


def bite_tests(prop: str) -> dict:
    """Thorough tier: do the contracts still bite?  Every stored property-breaking change of this property
    (seeded/<prop>/m*/patch.diff and the second-round r2m*/patch.diff) is applied to a scratch copy of /repo's src under .cache (never to /repo) and the quick
    check is run on the copy.  Recorded in the evidence; never changes the exit code of the check of the real tree."""
    import glob, shutil, subprocess
    out = {"changes": [], "flagged": 0, "undecided": 0, "missed": 0}
    for d in sorted(glob.glob(os.path.join(ROOT, "seeded", prop, "m*")) + glob.glob(os.path.join(ROOT, "seeded", prop, "r2m*"))):
        patch = os.path.join(d, "patch.diff")
        if not os.path.isfile(patch):
            continue
        work = os.path.join(CACHE, "bite", prop, os.path.basename(d))
        shutil.rmtree(work, ignore_errors=True)
        os.makedirs(work)
        shutil.copytree(os.path.join(REPO, "src"), os.path.join(work, "src"))
        shutil.copy(os.path.join(REPO, "Cargo.lock"), os.path.join(work, "Cargo.lock"))
        ap = subprocess.run(["patch", "-p1", "-s", "-i", patch], cwd=work, capture_output=True, text=True)
        row = {"change": "%s/%s" % (prop, os.path.basename(d))}
        if ap.returncode != 0:
            row["outcome"] = "patch does not apply to the current tree"
        else:
            env = dict(os.environ, VERIF_REPO=work, VERIF_BITE_RUN="1", VERIF_TIER="quick")
            r = subprocess.run([os.path.join(ROOT, "check"), prop, "--tier", "quick"], capture_output=True, text=True, env=env)
            # a change whose code belongs to another property's units (seeded/<prop>/<m>/also_check) is also run against that check
            also = os.path.join(d, "also_check")
            if r.returncode != 1 and os.path.isfile(also):
                for q in open(also).read().split():
                    r2 = subprocess.run([os.path.join(ROOT, "check"), q, "--tier", "quick"], capture_output=True, text=True, env=env)
                    if r2.returncode == 1:
                        r = r2
                        row["flagged_by"] = q
                        break
            m = re.search(r"failed obligation: (\S+)", r.stdout)
            if r.returncode == 1:
                row["outcome"] = "flagged"
                row["obligation"] = m.group(1) if m else None
                out["flagged"] += 1
            elif r.returncode == 2:
                row["outcome"] = "undecided"
                out["undecided"] += 1
            else:
                row["outcome"] = "missed"
                out["missed"] += 1
        out["changes"].append(row)
        shutil.rmtree(work, ignore_errors=True)
    return out


def check_property(prop: str, tier: str, seed: int) -> int:
    t0 = time.time()
    cfg = registry.PROPS.get(prop)
    if cfg is None:
        print("unknown or unclaimed property %s" % prop)
        return 2
    os.makedirs(CACHE, exist_ok=True)
    lock = open(os.path.join(CACHE, "lock.%s%s" % (prop, ".bite" if os.environ.get("VERIF_BITE_RUN") else "")), "w")
    fcntl.flock(lock, fcntl.LOCK_EX)
    gen = os.path.join(CACHE, "gen-bite" if os.environ.get("VERIF_BITE_RUN") else "gen", prop)
    os.makedirs(gen, exist_ok=True)
    known = load_known_findings()

    undecided: List[str] = []
    violations: List[dict] = []
    known_hits: List[dict] = []
    units_ev: List[dict] = []
    obligations = 0
    discharged = 0
    samples: List[dict] = []
    assumptions: List[str] = list(cfg.get("assumptions", []))
    checker_cmds: List[str] = []
    backend_rows: List[dict] = []
    bounded: List[str] = []
    smt_ms = 0
    canary_ok = True

    # ------------------------------------------------------------------ Verus groups
    tpls = list(cfg.get("verus", []))
    if tier == "thorough":
        tpls += list(cfg.get("verus_thorough", []))
    for tpl in tpls:
        tpath = os.path.join(ROOT, "contracts", "verus", tpl)
        try:
            asm = assemble(REPO, tpath, prop)
        except ExtractError as e:
            undecided.append("%s: %s" % (tpl, e))
            continue
        undecided += ["%s: %s" % (tpl, x) for x in getattr(asm, "skipped", [])]
        out = os.path.join(gen, tpl.replace(".rs.in", ".rs"))
        r = run_verus(asm, out, rlimit=int(cfg.get("rlimit", 40)))
        checker_cmds.append(r.cmd)
        smt_ms += r.smt_ms
        if tier == "thorough" and not r.undecided:
            # proof-stability pass: other Z3 seed, doubled resource limit; a unit that is discharged under one
            # seed and not the other is unstable => undecided, never a violation
            r2 = run_verus(asm, out.replace(".rs", "_seed2.rs"), rlimit=2 * int(cfg.get("rlimit", 40)),
                           extra=["--smt-option", "smt.random_seed=%d" % (seed + 7)])
            checker_cmds.append(r2.cmd)
            smt_ms += r2.smt_ms
            f1 = set((f.function or "?") for f in r.failures)
            f2 = set((f.function or "?") for f in r2.failures)
            if r2.undecided:
                undecided += ["%s (stability pass): %s" % (tpl, x) for x in r2.undecided]
            elif f1 != f2:
                undecided.append("%s: unstable proof, differs between solver seeds: %s" % (tpl, ",".join(sorted(f1 ^ f2))))
        for u in asm.units:
            units_ev.append({"unit": u.uid, "file": u.file, "item": u.item, "lines": [u.line_start, u.line_end],
                             "sha256": u.sha256, "logging_statements_dropped": u.drops, "awaits_removed": u.awaits,
                             "rewrites": [{"rule": a, "fired": n} for a, n in u.rewrites], "engine": "verus",
                             "template": tpl, "note": u.note})
        assumptions += scan_assumptions(asm.text, tpl)
        undecided += ["%s: %s" % (tpl, x) for x in r.undecided]
        # canaries: every canary_* function must be reported as failing
        missing = [c for c in r.canaries_expected if c not in r.canaries_failed]
        if missing and not r.undecided:
            undecided.append("%s: vacuity canary did not fail: %s" % (tpl, ",".join(missing)))
            canary_ok = False
        n_canary = len(set(r.canaries_failed))
        real_fail = [f for f in r.failures if not f.canary]
        # proof units = verified + errors, minus canaries
        n_probe_failed = len(set(f.function for f in real_fail if (f.function or "").startswith("finding_")))
        units_total = r.verified + r.errors - n_canary - n_probe_failed
        failed_fns = set((f.function or "?") for f in real_fail)
        obligations += max(units_total, 0)
        discharged += max(r.verified, 0)
        for fb in r.functions:
            if fb.get("mode") in ("exec", "proof") and not str(fb.get("function", "")).split("::")[-1].startswith("canary_"):
                backend_rows.append({"obligation_group": fb["function"], "backend": "verus/z3", "ms": fb.get("ms"),
                                     "rlimit": fb.get("rlimit"), "discharged": bool(fb.get("success"))})
        for f in real_fail:
            oid = obligation_id(prop, tpl, f)
            uinfo = next((u for u in asm.units if u.uid == f.unit), None)
            src_line = None
            if uinfo and f.text:
                for k, ol in enumerate(uinfo.orig_text.split("\n")):
                    if ol.strip() and ol.strip() == f.text.strip():
                        src_line = uinfo.line_start + k
                        break
            entry = {"obligation": oid, "kind": f.kind, "message": f.message, "clause_or_statement": f.text,
                     "related": f.related, "unit": f.unit, "function": f.function,
                     "source": ({"file": uinfo.file, "item": uinfo.item, "line": src_line,
                                 "lines": [uinfo.line_start, uinfo.line_end]} if uinfo else None),
                     "backend": "verus", "verifier_output": f.rendered, "counterexample": None,
                     "assembled_file": out}
            hit = next((kf for kf in known if finding_matches(kf, prop, oid, f.text + " " + " ".join(f.related), f.function)), None)
            if hit:
                known_hits.append({"finding": hit, "entry": entry})
            else:
                violations.append(entry)
        # samples: a few contract clauses of discharged units
        for u in asm.units[:3]:
            seg = asm.text.split("\n")[u.asm_start - 1:u.asm_end]
            clause = [s.strip() for s in seg if re.match(r"\s*(requires|ensures|invariant|decreases)", s)]
            samples.append({"unit": u.uid, "source": "%s:%d-%d" % (u.file, u.line_start, u.line_end),
                            "contract_head": clause[:4]})

    # ------------------------------------------------------------------ frame scans (call-site frame obligations)
    # A frame scan states: the only places in FILE where one of the token sequences occurs are inside units that are
    # under contract for this property.  It is a syntactic obligation over the whole file (all of it is read, not a sample).
    for fs in cfg.get("frame_scans", []):
        fpath = os.path.join(REPO, fs["file"])
        try:
            src_txt = open(fpath, encoding="utf-8").read()
        except OSError as e:
            undecided.append("frame scan: cannot read %s: %s" % (fs["file"], e))
            continue
        from . import rusttok as _rt
        toks = [t for t in _rt.tokenize(src_txt)]
        # stop at the test module: test code is not part of the property
        cut = src_txt.find("#[cfg(test)]")
        spans = [(u["lines"][0], u["lines"][1]) for u in units_ev if u["file"] == fs["file"] and u["unit"] in fs["allowed_units"]]
        # functions exempted by name (each one is listed as an assumption of the property)
        for fname in fs.get("allowed_functions", []):
            for mfn in re.finditer(r"\bfn\s+%s\s*[(<]" % re.escape(fname), src_txt):
                k0 = src_txt.find("{", mfn.end())
                if k0 < 0:
                    continue
                bi = next((ix for ix, t in enumerate(toks) if t.start == k0), None)
                if bi is None:
                    continue
                ci = _rt.match_close(toks, bi)
                spans.append((src_txt.count("\n", 0, mfn.start()) + 1, src_txt.count("\n", 0, toks[ci].end) + 1))
        obligations += 1
        bad = []
        for pat in fs["patterns"]:
            ptoks = [t.text for t in _rt.tokenize(pat)]
            for i in range(len(toks) - len(ptoks) + 1):
                if [t.text for t in toks[i:i + len(ptoks)]] == ptoks:
                    off = toks[i].start
                    if cut >= 0 and off > cut:
                        continue
                    line = src_txt.count("\n", 0, off) + 1
                    if not any(a <= line <= b for a, b in spans):
                        bad.append((pat, line))
        # an allowed unit that could not be extracted on this run has no span: its text cannot be told from text outside
        # every unit, so the scan is undecided (lost anchor), never an alarm
        missing_units = [n for n in fs["allowed_units"] if not any(u["file"] == fs["file"] and u["unit"] == n for u in units_ev)]
        if bad and missing_units and undecided:
            undecided.append("frame scan %s: allowed unit(s) %s not extracted on this run; %d occurrence(s) cannot be attributed" % (fs["file"], ", ".join(missing_units), len(bad)))
        elif bad:
            for pat, line in bad:
                violations.append({"obligation": "%s/frame/%s" % (prop, os.path.basename(fs["file"])), "kind": "frame", "message": fs["message"],
                                   "clause_or_statement": "`%s` at %s:%d is outside %s" % (pat, fs["file"], line, ", ".join(fs["allowed_units"]) or "every place where it is allowed (none in this file)"),
                                   "related": [], "unit": None, "function": None, "source": {"file": fs["file"], "line": line}, "backend": "frame-scan",
                                   "verifier_output": "token sequence `%s` found at %s:%d" % (pat, fs["file"], line), "counterexample": None, "location_text": src_txt.split("\n")[line - 1].strip()})
        else:
            discharged += 1
            backend_rows.append({"obligation_group": "frame scan %s" % fs["file"], "backend": "token scan", "ms": 0, "discharged": True})

    # ------------------------------------------------------------------ Kani groups
    kgroups = list(cfg.get("kani", []))
    if tier == "thorough":
        kgroups += list(cfg.get("kani_thorough", []))
    for g in kgroups:
        try:
            kr = kani_backend.run_group(REPO, ROOT, CACHE, g, prop, tier)
        except ExtractError as e:
            undecided.append("kani/%s: %s" % (g, e))
            continue
        checker_cmds.append(kr.cmd)
        undecided += ["kani/%s: %s" % (g, x) for x in kr.undecided]
        assumptions += kr.assumptions
        units_ev += kr.units
        bounded += kr.bounded
        for h in kr.harnesses:
            if h["canary"]:
                if h["status"] != "FAILED":
                    undecided.append("kani/%s: canary harness %s did not fail" % (g, h["name"]))
                    canary_ok = False
                continue
            obligations += 1
            backend_rows.append({"obligation_group": "kani/%s::%s" % (g, h["name"]), "backend": "kani/cbmc",
                                 "ms": int(h.get("seconds", 0) * 1000), "checks": h.get("checks"),
                                 "discharged": h["status"] == "SUCCESSFUL", "complete": h.get("complete"),
                                 "bound": h.get("bound")})
            if h["status"] == "SUCCESSFUL":
                discharged += 1
                if len(samples) < 8:
                    samples.append({"harness": h["name"], "engine": "kani", "checks": h.get("checks"),
                                    "complete": h.get("complete"), "bound": h.get("bound")})
            elif h["status"] == "FAILED":
                oid = "%s/kani:%s/%s/%s" % (prop, g, h["name"], "assertion")
                entry = {"obligation": oid, "kind": "kani-check", "message": "; ".join(h.get("failed_checks", [])[:6]),
                         "clause_or_statement": "; ".join(h.get("failed_checks", [])[:3]), "related": [],
                         "unit": h.get("unit"), "function": h["name"], "source": h.get("source"),
                         "backend": "kani", "verifier_output": h.get("output_tail", ""),
                         "counterexample": h.get("counterexample"), "replay": h.get("replay")}
                hit = next((kf for kf in known if finding_matches(kf, prop, oid, entry["message"], h["name"])), None)
                if hit:
                    known_hits.append({"finding": hit, "entry": entry})
                    if h["name"].startswith("finding_"):
                        obligations -= 1      # a probe harness of a listed finding is not an obligation of the property
                        backend_rows[-1]["known_finding_probe"] = True
                else:
                    violations.append(entry)
            else:
                undecided.append("kani/%s: harness %s: %s" % (g, h["name"], h["status"]))

    # ------------------------------------------------------------------ classify
    wall = time.time() - t0
    # known findings that are listed but did not fire: nothing is printed (they suppress nothing)
    _seen_kf = set()
    # findings demonstrated on the real code that no obligation of this family can express (e.g. a dropped future):
    # listed with match {"always": true}; they suppress nothing (no obligation fails because of them) and are reported on
    # every run of their property
    for kf in known:
        if kf.get("status") == "known" and kf.get("property") == prop and kf.get("match", {}).get("always") and not os.environ.get("VERIF_BITE_RUN"):
            known_hits.append({"finding": kf, "entry": {"obligation": "%s/unprobed/%s" % (prop, kf.get("id", "?"))}})
    for kh in known_hits:
        _t = kh["finding"].get("text", kh["entry"]["obligation"])
        if _t in _seen_kf:
            continue
        _seen_kf.add(_t)
        print("KNOWN-FINDING: property=%s %s" % (prop, _t))
    rc = 0
    replay_path = None
    if violations:
        # try to attach a replay on the real code
        from . import replay as replay_mod
        for v in violations:
            try:
                replay_mod.attach(prop, v, REPO, ROOT, CACHE)
            except Exception as e:   # replay is best effort; the violation stands
                v["replay_error"] = str(e)
        replay_path = write_replay(prop, violations)
        any_input = any(v.get("counterexample") for v in violations)
        print("VIOLATION property=%s replay=%s%s" % (prop, replay_path, "" if any_input else " no-failing-input-found"))
        for v in violations[:10]:
            print("  failed obligation: %s :: %s :: %s" % (v["obligation"], v["message"][:120], (v["clause_or_statement"] or "")[:160]))
        rc = 1
    elif undecided:
        print("UNDECIDED property=%s (not a violation; the check could not decide):" % prop)
        for u in undecided[:12]:
            print("  - " + u[:600])
        rc = 2

    level = cfg["level"]
    if level == "proof" and (bounded or undecided):
        level_run = "other"
    else:
        level_run = level
    expl = cfg.get("explanation", "") or ""
    if not expl.strip():
        expl = "Every obligation generated from the extracted real text of the units listed under functions_under_contract was discharged by the named back end for all inputs and iterations (no bound)."
    if bounded:
        expl += " Bounded stand-ins (not counted as proof): " + "; ".join(bounded) + "."
    if undecided:
        expl += " Undecided on this run: " + "; ".join(u[:160] for u in undecided[:4]) + "."
    ev = {
        "property_id": prop,
        "tier": tier,
        "seed": seed,
        "level": level_run,
        "coverage": {
            "obligations": obligations,
            "discharged": min(discharged, obligations) if not violations else min(discharged, obligations),
            "checker_cmd": " ; ".join(checker_cmds) if checker_cmds else "(none ran)",
            "trusted_base": cfg.get("trusted_base", registry.TRUSTED_BASE),
            "explanation": expl,
            "functions_under_contract": units_ev,
            "per_obligation_group": backend_rows,
            "solver_ms_verus": smt_ms,
            "bounded_stand_ins": bounded,
            "undecided": undecided,
            "known_findings_reported": sorted(set(k["finding"].get("text") for k in known_hits)),
            "vacuity_canaries_ok": canary_ok,
            "samples": samples[:10] if samples else [{"note": "no unit ran"}],
            "exhaustive": False,
        },
        "assumptions": sorted(set(assumptions)),
        "wall_s": round(wall, 2),
        "violations": len(violations),
    }
    if tier == "thorough" and not os.environ.get("VERIF_BITE_RUN"):
        ev["coverage"]["contract_bite_tests"] = bite_tests(prop)
    if os.environ.get("VERIF_BITE_RUN"):
        return rc
    os.makedirs(os.path.join(ROOT, "evidence"), exist_ok=True)
    with open(os.path.join(ROOT, "evidence", "%s.json" % prop), "w", encoding="utf-8") as f:
        json.dump(ev, f, indent=1)
    if rc == 0:
        print("OK property=%s obligations=%d discharged=%d level=%s wall=%.1fs" % (prop, obligations, discharged, level_run, wall))
    return rc


def main(argv: List[str]) -> int:
    ap = argparse.ArgumentParser(prog="check")
    ap.add_argument("prop", nargs="?")
    ap.add_argument("--tier", default=os.environ.get("VERIF_TIER", "quick"), choices=["quick", "thorough"])
    ap.add_argument("--replay")
    ap.add_argument("--all", action="store_true")
    a = ap.parse_args(argv)
    seed = int(os.environ.get("VERIF_SEED", "0") or 0)
    if a.replay:
        from . import replay as replay_mod
        return replay_mod.run_file(a.replay, REPO, ROOT, CACHE)
    if a.all:
        rc = 0
        for p in sorted(registry.PROPS):
            r = check_property(p, a.tier, seed)
            rc = max(rc, r)
        return rc
    if not a.prop:
        ap.print_help()
        return 2
    return check_property(a.prop, a.tier, seed)
