"""Kani back end: the real functions are extracted mechanically (same extractor as for Verus)
into a small scratch crate next to hand-written harnesses and verified with `cargo kani`.

A group lives in contracts/kani/<group>/ (Cargo.toml + lib.rs.in).  Harness metadata is the
`//@harness <complete|bounded: why|canary> [unit=<uid>] [replay=<scenario>]` line preceding each
`#[kani::proof]` function.  `complete` = loop-free (or loops bounded by a constant of the code
itself, with unwinding assertions on) over the full symbolic input domain; `bounded` harnesses
are reported as bounded stand-ins and never counted as proof.
"""
from __future__ import annotations
import hashlib
import json
import os
import re
import shutil
import subprocess
import time
from dataclasses import dataclass, field
from typing import Dict, List, Optional

from .assemble import assemble
from .rusttok import ExtractError


@dataclass
class KaniGroupResult:
    group: str
    cmd: str
    wall_s: float
    harnesses: List[dict] = field(default_factory=list)
    undecided: List[str] = field(default_factory=list)
    assumptions: List[str] = field(default_factory=list)
    units: List[dict] = field(default_factory=list)
    bounded: List[str] = field(default_factory=list)


_H = re.compile(r"//@harness\s+(complete|canary|bounded)\s*:?\s*(.*)$")


def _harness_meta(text: str) -> Dict[str, dict]:
    out: Dict[str, dict] = {}
    lines = text.split("\n")
    pend = None
    for ln in lines:
        m = _H.search(ln.strip())
        if m:
            kv = dict(re.findall(r"(\w+)=(\S+)", m.group(2)))
            pend = {"kind": m.group(1), "why": re.sub(r"\w+=\S+", "", m.group(2)).strip(), **kv}
            continue
        fm = re.match(r"\s*(?:pub\s+)?fn\s+([A-Za-z_][A-Za-z0-9_]*)", ln)
        if fm and pend is not None:
            out[fm.group(1)] = pend
            pend = None
    return out


def _env() -> dict:
    e = dict(os.environ)
    e["CARGO_NET_OFFLINE"] = "true"
    e.pop("RUSTUP_TOOLCHAIN", None)
    return e


def _parse_terse(out: str) -> Dict[str, dict]:
    """Map harness (last path segment) -> {status, seconds, checks, failed_checks, tail}."""
    res: Dict[str, dict] = {}
    thread_h: Dict[str, str] = {}
    cur_thread = None
    blocks: Dict[str, List[str]] = {}
    single = None
    for ln in out.split("\n"):
        m = re.match(r"Thread (\d+): Checking harness (\S+?)\.\.\.", ln)
        if m:
            thread_h[m.group(1)] = m.group(2)
            continue
        m = re.match(r"Checking harness (\S+?)\.\.\.", ln)
        if m:
            single = m.group(1)
            blocks[single] = []
            cur_thread = None
            continue
        m = re.match(r"Thread (\d+):\s*$", ln)
        if m:
            cur_thread = m.group(1)
            h = thread_h.get(cur_thread)
            if h:
                blocks[h] = []
            continue
        if ln.startswith("Manual Harness Summary") or ln.startswith("Complete - "):
            cur_thread = None
            single = None
            continue
        h = thread_h.get(cur_thread) if cur_thread is not None else single
        if h and h in blocks:
            blocks[h].append(ln)
    for h, lines in blocks.items():
        txt = "\n".join(lines)
        st = "UNKNOWN"
        m = re.search(r"VERIFICATION:- (SUCCESSFUL|FAILED)", txt)
        if m:
            st = m.group(1)
        secs = 0.0
        m = re.search(r"Verification Time: ([0-9.]+)s", txt)
        if m:
            secs = float(m.group(1))
        checks = None
        m = re.search(r"\*\* (\d+) of (\d+) failed", txt)
        if m:
            checks = int(m.group(2))
        failed = re.findall(r"Failed Checks: (.*)", txt)
        # unwinding assertion failure / unsupported construct => undecided, not a violation
        if st == "FAILED" and failed and all(re.search(r"unwinding assertion|is not currently supported|unsupported", f, re.I) for f in failed):
            st = "UNDETERMINED (unwinding bound or unsupported construct)"
        if st == "FAILED" and not failed:
            # e.g. only cover failures or CBMC internal problem
            if re.search(r"cover properties satisfied", txt) and not re.search(r"\*\* [1-9]\d* of \d+ failed", txt):
                st = "UNDETERMINED (unsatisfied cover)"
        res[h.split("::")[-1]] = {"status": st, "seconds": secs, "checks": checks, "failed_checks": failed,
                                   "output_tail": txt[-1800:], "full": h}
    return res


def _playback(crate_dir: str, harness: str, timeout_s: int) -> Optional[List[List[int]]]:
    cmd = ["cargo", "kani", "--harness", harness, "-Z", "concrete-playback", "--concrete-playback=print",
           "-Z", "function-contracts", "-Z", "stubbing"]
    try:
        p = subprocess.run(cmd, cwd=crate_dir, capture_output=True, text=True, timeout=timeout_s, env=_env())
    except subprocess.TimeoutExpired:
        return None
    m = re.search(r"let concrete_vals: Vec<Vec<u8>> = vec!\[(.*?)\n\s*\];", p.stdout, re.S)
    if not m:
        return None
    vals = []
    for vm in re.finditer(r"vec!\[([0-9, ]*)\]", m.group(1)):
        vals.append([int(x) for x in vm.group(1).replace(" ", "").split(",") if x])
    return vals

def native_playback(crate_dir: str, harness: str, vals: List[List[int]], timeout_s: int = 900) -> dict:
    """Re-run a Kani counterexample natively: the harness is executed as an ordinary test on the concrete `any()` values,
    against the function text extracted from /repo for this run (the scratch crate's lib.rs).  Reproduced = the harness
    assertion (or a panic inside the real function) fires."""
    lib = os.path.join(crate_dir, "lib.rs")
    try:
        src = open(lib, encoding="utf-8").read()
    except OSError as e:
        return {"reproduced": None, "note": "scratch crate not found: %s" % e}
    name = "kani_concrete_playback_%s" % harness
    vec = ", ".join("vec![%s]" % ", ".join(str(b) for b in v) for v in vals)
    test = ("\n    #[test]\n    fn %s() {\n        let concrete_vals: Vec<Vec<u8>> = vec![%s];\n"
            "        kani::concrete_playback_run(concrete_vals, %s);\n    }\n" % (name, vec, harness))
    k = src.rstrip().rfind("}")
    if k < 0 or name in src:
        patched = src
    else:
        patched = src[:k] + test + src[k:]
    open(lib, "w", encoding="utf-8").write(patched)
    cmd = ["cargo", "kani", "playback", "-Z", "concrete-playback", "--", name]
    try:
        p = subprocess.run(cmd, cwd=crate_dir, capture_output=True, text=True, timeout=timeout_s, env=_env())
    except subprocess.TimeoutExpired:
        open(lib, "w", encoding="utf-8").write(src)
        return {"reproduced": None, "note": "native playback timed out"}
    open(lib, "w", encoding="utf-8").write(src)
    out = p.stdout + "\n" + p.stderr
    failed = re.search(r"test result: FAILED|panicked at", out) is not None
    ran = re.search(r"running 1 test", out) is not None
    msg = ""
    m = re.search(r"panicked at [^\n]*\n([^\n]*)", out)
    if m:
        msg = m.group(1).strip()
    if "det vals" in msg or "det vals" in out[-600:]:
        # the recorded values do not drive this harness to the end (playback artefact): not a reproduction
        return {"reproduced": None, "command": " ".join(cmd), "panic": msg, "note": "concrete values incomplete for native playback"}
    return {"reproduced": bool(failed and ran) if ran else None, "command": " ".join(cmd), "panic": msg, "output_tail": out[-600:]}



def run_group(repo: str, root: str, cache: str, group: str, prop: str, tier: str, timeout_s: int = 1500) -> KaniGroupResult:
    gdir = os.path.join(root, "contracts", "kani", group)
    tpl = os.path.join(gdir, "lib.rs.in")
    asm = assemble(repo, tpl)
    crate = os.path.join(cache, "kani", group)
    os.makedirs(crate, exist_ok=True)
    new_text = asm.text
    lib = os.path.join(crate, "lib.rs")
    old = open(lib, encoding="utf-8").read() if os.path.exists(lib) else None
    if old != new_text:
        with open(lib, "w", encoding="utf-8") as f:
            f.write(new_text)
    shutil.copy(os.path.join(gdir, "Cargo.toml"), os.path.join(crate, "Cargo.toml"))
    if "[dependencies]" in open(os.path.join(gdir, "Cargo.toml")).read():
        lock_src = os.path.join(repo, "Cargo.lock")
        if os.path.exists(lock_src) and not os.path.exists(os.path.join(crate, "Cargo.lock")):
            shutil.copy(lock_src, os.path.join(crate, "Cargo.lock"))
    meta = _harness_meta(new_text)
    res = KaniGroupResult(group=group, cmd="", wall_s=0.0)
    for u in asm.units:
        res.units.append({"unit": u.uid, "file": u.file, "item": u.item, "lines": [u.line_start, u.line_end],
                          "sha256": u.sha256, "logging_statements_dropped": u.drops, "awaits_removed": u.awaits,
                          "rewrites": [{"rule": a, "fired": n} for a, n in u.rewrites], "engine": "kani",
                          "template": "kani/%s/lib.rs.in" % group, "note": u.note})
    for ln in new_text.split("\n"):
        s = ln.strip()
        if s.startswith("//"):
            continue
        if "kani::assume" in s:
            res.assumptions.append("kani/%s: %s" % (group, s[:140]))
        if "kani::stub" in s:
            res.assumptions.append("kani/%s: %s" % (group, s[:140]))

    # result cache keyed by crate content (the crate is regenerated from /repo on every run; an
    # identical crate gives an identical verdict, so only the solver run is skipped)
    key = hashlib.sha256((new_text + open(os.path.join(gdir, "Cargo.toml")).read() + tier).encode()).hexdigest()[:24]
    cpath = os.path.join(cache, "kani-results", "%s-%s.json" % (group, key))
    extra = []
    hs = sorted(meta)
    if tier != "thorough":
        hs = [h for h in hs if meta[h].get("tier") != "thorough"]
    cmd = ["cargo", "kani", "-j", "12", "--output-format=terse", "-Z", "function-contracts", "-Z", "stubbing"]
    for h in hs:
        cmd += ["--harness", h]
    res.cmd = "cd %s && CARGO_NET_OFFLINE=true %s" % (crate, " ".join(cmd))
    parsed = None
    cached = False
    if os.path.exists(cpath) and os.environ.get("VERIF_NO_CACHE") != "1":
        try:
            parsed = json.load(open(cpath))
            cached = True
        except Exception:
            parsed = None
    t0 = time.time()
    if parsed is None:
        try:
            p = subprocess.run(cmd, cwd=crate, capture_output=True, text=True, timeout=timeout_s, env=_env())
        except subprocess.TimeoutExpired:
            res.undecided.append("cargo kani timed out after %ds" % timeout_s)
            return res
        out = p.stdout + "\n" + p.stderr
        parsed = _parse_terse(out)
        if not parsed:
            res.undecided.append("cargo kani produced no harness results (exit %d): %s" % (p.returncode, out[-1500:]))
            return res
        for h, r in parsed.items():
            if r["status"] == "FAILED" and meta.get(h, {}).get("kind") != "canary":
                r["counterexample"] = _playback(crate, h, 600)
                if r["counterexample"]:
                    r["native_replay"] = native_playback(crate, h, r["counterexample"])
        os.makedirs(os.path.dirname(cpath), exist_ok=True)
        json.dump(parsed, open(cpath, "w"))
    res.wall_s = time.time() - t0
    for h in hs:
        m = meta[h]
        r = parsed.get(h)
        if r is None:
            res.undecided.append("harness %s produced no result" % h)
            continue
        row = {"name": h, "canary": m["kind"] == "canary", "status": r["status"], "seconds": r["seconds"],
               "checks": r["checks"], "failed_checks": r.get("failed_checks", []), "output_tail": r.get("output_tail", ""),
               "complete": m["kind"] == "complete", "bound": m.get("why") if m["kind"] == "bounded" else None,
               "unit": m.get("unit"), "replay": m.get("replay"), "cached": cached}
        if r.get("counterexample"):
            row["counterexample"] = {"harness": h, "kani_any_bytes_in_call_order": r["counterexample"], "scenario": m.get("replay"),
                                     "replayed_natively_on_extracted_real_function": r.get("native_replay")}
        if m["kind"] == "bounded":
            res.bounded.append("kani/%s::%s bounded: %s" % (group, h, m.get("why", "")))
        res.harnesses.append(row)
    return res
