"""Regenerate MANIFEST.json from the registry (run: python3 -m vx.manifest)."""
import json, os
from . import registry

ROOT = os.path.dirname(os.path.dirname(os.path.abspath(__file__)))
ALL = ["C%02d" % i for i in range(1, 21)]


def main():
    checks = []
    for pid in sorted(registry.PROPS):
        c = registry.PROPS[pid]
        checks.append({
            "property_id": pid,
            "quick_cmd": "./check %s --tier quick" % pid,
            "thorough_cmd": "./check %s --tier thorough" % pid,
            "evidence_file": "/verif/evidence/%s.json" % pid,
            "replay_cmd_template": "./check --replay {path}",
            "engine": "vx (extractor + Verus" + (" + Kani" if c.get("kani") or c.get("kani_thorough") else "") + ")",
            "level_claimed": {"category": c["level"], "text": c.get("level_text", c.get("explanation", "")),
                              "design_ref": c.get("design_ref", "DESIGN.md §4 " + pid)},
            "level_note": c.get("level_note", "; ".join(c.get("assumptions", []))),
            "technique": c["technique"],
        })
    na = []
    for pid in ALL:
        if pid not in registry.PROPS:
            na.append({"property_id": pid, "reason": registry.NOT_APPLICABLE.get(pid, "no contract units built for this property yet; not claimed")})
    m = {
        "version": 1,
        "setup_cmd": "./setup.sh",
        "hooks": registry.HOOKS,
        "engines": [
            {"name": "vx-verus", "path": "vx/verus_backend.py", "serves_properties": sorted(p for p in registry.PROPS if registry.PROPS[p].get("verus")),
             "kind_free_text": "contract-based deductive verification: real function text extracted from /repo on every run, contracts spliced in, discharged by Verus/Z3"},
            {"name": "vx-kani", "path": "vx/kani_backend.py", "serves_properties": sorted(p for p in registry.PROPS if registry.PROPS[p].get("kani") or registry.PROPS[p].get("kani_thorough")),
             "kind_free_text": "bit-precise harnesses / function contracts on extracted real leaf functions, discharged by Kani/CBMC; loop-free full-domain harnesses are complete, others labelled bounded"},
        ],
        "checks": checks,
        "not_applicable": na,
        "notes": registry.NOTES,
    }
    with open(os.path.join(ROOT, "MANIFEST.json"), "w") as f:
        json.dump(m, f, indent=1)
    print("MANIFEST.json written: %d checks, %d not applicable" % (len(checks), len(na)))


if __name__ == "__main__":
    main()
