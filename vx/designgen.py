"""Regenerate the per-property section of DESIGN.md (between the GENERATED markers) from the registry,
the templates and the last evidence files (run: python3 -m vx.designgen)."""
import json, os, re
from . import registry

ROOT = os.path.dirname(os.path.dirname(os.path.abspath(__file__)))
BEGIN = "<!-- BEGIN GENERATED per-property (python3 -m vx.designgen) -->"
END = "<!-- END GENERATED -->"


def units_of(tpl):
    p = os.path.join(ROOT, "contracts", "verus", tpl)
    out = []
    for line in open(p):
        m = re.match(r"//@unit\??\s+(\S+)\s+(.*)", line)
        if m:
            kv = dict(re.findall(r"(\w+)=(\S+)", m.group(2)))
            tgt = kv.get("fn") or kv.get("macro") or "region"
            if kv.get("impl"):
                tgt = kv["impl"] + "::" + tgt
            out.append("%s (%s)" % (tgt, kv.get("file", "?").replace("src/", "")))
    return out


def harnesses_of(group):
    p = os.path.join(ROOT, "contracts", "kani", group, "lib.rs.in")
    out, kind = [], None
    for line in open(p):
        m = re.match(r"\s*//@harness\s+(.*)", line)
        if m:
            kind = m.group(1).strip()
        m = re.match(r"\s*fn\s+(\w+)\s*\(", line)
        if m and kind:
            out.append("%s [%s]" % (m.group(1), kind))
            kind = None
    return out


def main():
    props = {}
    for l in open(os.path.join(ROOT, "properties.jsonl")):
        d = json.loads(l)
        props[d["id"]] = d
    lines = [BEGIN, ""]
    for pid in ["C%02d" % i for i in range(1, 21)]:
        title = props[pid]["title"]
        lines.append("### %s — %s" % (pid, title))
        lines.append("")
        if pid not in registry.PROPS:
            lines.append("**not applicable.** " + registry.NOT_APPLICABLE.get(pid, ""))
            lines.append("")
            continue
        c = registry.PROPS[pid]
        ev = {}
        try:
            ev = json.load(open(os.path.join(ROOT, "evidence", pid + ".json")))
        except Exception:
            pass
        cov = ev.get("coverage", {})
        lines.append("*claimed level*: **%s** — last run: %s obligations, %s discharged." % (c["level"], cov.get("obligations", "?"), cov.get("discharged", "?")))
        lines.append("")
        lines.append("*what is decided*: " + c["technique"] + ".")
        lines.append("")
        if c.get("explanation"):
            lines.append("*what is not*: " + c["explanation"])
            lines.append("")
        for tpl in c.get("verus", []):
            lines.append("* Verus `contracts/verus/%s`: %s" % (tpl, "; ".join(units_of(tpl)) or "lemmas only"))
        for g in c.get("kani", []) + c.get("kani_thorough", []):
            lines.append("* Kani `contracts/kani/%s`: %s" % (g, "; ".join(harnesses_of(g))))
        lines.append("")
        lines.append("*assumed (reported in the evidence)*:")
        for a in c.get("assumptions", []):
            lines.append("  - " + a)
        lines.append("")
    lines.append(END)
    path = os.path.join(ROOT, "DESIGN.md")
    s = open(path).read()
    a, b = s.index(BEGIN), s.index(END) + len(END)
    s = s[:a] + "\n".join(lines) + s[b:]
    open(path, "w").write(s)
    print("DESIGN.md per-property section regenerated")


if __name__ == "__main__":
    main()
