"""Rust-aware tokenizer and item/region locator used by the extractor.

Only lexical structure is understood: comments (nested), string / raw string / byte string /
char literals, lifetimes, numbers, identifiers and single-character punctuation.  That is
enough to (a) find `fn name` items and match their braces without being fooled by braces in
strings or comments, (b) match rewrite patterns on token sequences independent of layout.
"""
from __future__ import annotations
import re
from dataclasses import dataclass
from typing import List, Optional, Tuple


class ExtractError(Exception):
    """Lost anchor / construct not found: the unit cannot be assembled (=> undecided)."""


@dataclass
class Tok:
    kind: str   # id, num, str, char, life, punct, comment
    text: str
    start: int
    end: int


_ID = re.compile(r"[A-Za-z_][A-Za-z0-9_]*")
_NUM = re.compile(r"[0-9][0-9A-Za-z_]*(\.[0-9][0-9A-Za-z_]*)?")


def tokenize(src: str, keep_comments: bool = False) -> List[Tok]:
    toks: List[Tok] = []
    i, n = 0, len(src)
    while i < n:
        c = src[i]
        if c.isspace():
            i += 1
            continue
        if src.startswith("//", i):
            j = src.find("\n", i)
            j = n if j < 0 else j
            if keep_comments:
                toks.append(Tok("comment", src[i:j], i, j))
            i = j
            continue
        if src.startswith("/*", i):
            depth, j = 1, i + 2
            while j < n and depth:
                if src.startswith("/*", j):
                    depth += 1
                    j += 2
                elif src.startswith("*/", j):
                    depth -= 1
                    j += 2
                else:
                    j += 1
            if keep_comments:
                toks.append(Tok("comment", src[i:j], i, j))
            i = j
            continue
        # raw strings  r"..", r#".."#, br#".."#
        m = re.match(r"(b?r)(#*)\"", src[i:i + 40])
        if m:
            hashes = m.group(2)
            close = '"' + hashes
            j = src.find(close, i + len(m.group(0)))
            if j < 0:
                raise ExtractError("unterminated raw string")
            j += len(close)
            toks.append(Tok("str", src[i:j], i, j))
            i = j
            continue
        if c == '"' or (c == "b" and i + 1 < n and src[i + 1] == '"'):
            j = i + (2 if c == "b" else 1)
            while j < n and src[j] != '"':
                j += 2 if src[j] == "\\" else 1
            j += 1
            toks.append(Tok("str", src[i:j], i, j))
            i = j
            continue
        if c == "'" or (c == "b" and i + 1 < n and src[i + 1] == "'"):
            k = i + (1 if c == "b" else 0)
            # char literal: '\x', 'c' ; lifetime: 'ident (no closing quote right after one char)
            if k + 1 < n and src[k + 1] == "\\":
                j = k + 2
                while j < n and src[j] != "'":
                    j += 1
                j += 1
                toks.append(Tok("char", src[i:j], i, j))
                i = j
                continue
            if k + 2 < n and src[k + 2] == "'":
                j = k + 3
                toks.append(Tok("char", src[i:j], i, j))
                i = j
                continue
            m2 = _ID.match(src, k + 1)
            if m2 and c == "'":
                toks.append(Tok("life", src[i:m2.end()], i, m2.end()))
                i = m2.end()
                continue
            # multi-byte char literal such as 'é'
            j = src.find("'", k + 1)
            if j < 0:
                raise ExtractError("unterminated char literal")
            j += 1
            toks.append(Tok("char", src[i:j], i, j))
            i = j
            continue
        m = _ID.match(src, i)
        if m:
            toks.append(Tok("id", m.group(0), i, m.end()))
            i = m.end()
            continue
        m = _NUM.match(src, i)
        if m:
            # do not swallow the `..` of a range (`0..4`) nor a method call on a literal (`1.max(2)`)
            txt = m.group(0)
            if "." in txt:
                dot = txt.index(".")
                after = txt[dot + 1:dot + 2]
                if not after.isdigit():
                    txt = txt[:dot]
            if src.startswith("..", i + len(txt.split(".")[0])) and "." in txt:
                txt = txt.split(".")[0]
            toks.append(Tok("num", txt, i, i + len(txt)))
            i += len(txt)
            continue
        toks.append(Tok("punct", c, i, i + 1))
        i += 1
    return toks


OPEN = {"(": ")", "[": "]", "{": "}"}
CLOSE = {")": "(", "]": "[", "}": "{"}


def match_close(toks: List[Tok], i: int) -> int:
    """toks[i] is an opening bracket; return index of its matching closer."""
    assert toks[i].kind == "punct" and toks[i].text in OPEN, toks[i]
    depth = 0
    for j in range(i, len(toks)):
        t = toks[j]
        if t.kind != "punct":
            continue
        if t.text in OPEN:
            depth += 1
        elif t.text in CLOSE:
            depth -= 1
            if depth == 0:
                return j
    raise ExtractError("unbalanced bracket at offset %d" % toks[i].start)


@dataclass
class FnItem:
    name: str
    start: int        # offset of first char of the item (attributes / `pub` / `async` / `fn`)
    sig_start: int    # offset of `fn`
    body_open: int    # offset of `{`
    body_close: int   # offset of matching `}`
    async_: bool
    impl_of: Optional[str]
    line: int


def _line_of(src: str, off: int) -> int:
    return src.count("\n", 0, off) + 1


def find_fns(src: str) -> List[FnItem]:
    """All `fn` items (free, in impl blocks, nested) with the impl type they sit in, if any."""
    toks = tokenize(src)
    out: List[FnItem] = []
    # impl block ranges
    impls: List[Tuple[int, int, str]] = []
    i = 0
    while i < len(toks):
        t = toks[i]
        if t.kind == "id" and t.text == "impl":
            # header up to `{` at depth 0 (generics use < >, which we do not nest on; skip parens)
            j = i + 1
            header: List[Tok] = []
            while j < len(toks) and not (toks[j].kind == "punct" and toks[j].text in "{;"):
                if toks[j].kind == "punct" and toks[j].text in "([":
                    j = match_close(toks, j)
                header.append(toks[j])
                j += 1
            if j < len(toks) and toks[j].text == "{":
                k = match_close(toks, j)
                ids = [h.text for h in header if h.kind == "id"]
                # `impl<T> Trait for Type<T>`  → type is first id after `for`; else the first
                # id that is not a generic parameter introduced in impl<...>
                name = None
                if "for" in ids:
                    name = ids[ids.index("for") + 1] if ids.index("for") + 1 < len(ids) else None
                else:
                    # skip leading generics
                    hk = 0
                    if header and header[0].text == "<":
                        depth = 0
                        for hk, h in enumerate(header):
                            if h.text == "<":
                                depth += 1
                            elif h.text == ">":
                                depth -= 1
                                if depth == 0:
                                    break
                        hk += 1
                    for h in header[hk:]:
                        if h.kind == "id":
                            name = h.text
                            break
                impls.append((toks[j].start, toks[k].end, name or "?"))
        i += 1
    for i, t in enumerate(toks):
        if t.kind == "id" and t.text == "fn" and i + 1 < len(toks) and toks[i + 1].kind == "id":
            # must be an item: the token after the name is `(` or `<`
            if not (i + 2 < len(toks) and toks[i + 2].text in "(<"):
                continue
            name = toks[i + 1].text
            # find body `{` at bracket depth 0 ( `;` first => declaration without body )
            j = i + 2
            body = None
            while j < len(toks):
                tj = toks[j]
                if tj.kind == "punct" and tj.text in "([":
                    j = match_close(toks, j)
                elif tj.kind == "punct" and tj.text == "{":
                    body = j
                    break
                elif tj.kind == "punct" and tj.text == ";":
                    break
                j += 1
            if body is None:
                continue
            close = match_close(toks, body)
            # walk back over qualifiers
            s = i
            is_async = False
            while s > 0 and toks[s - 1].kind == "id" and toks[s - 1].text in ("pub", "async", "const", "unsafe", "extern"):
                if toks[s - 1].text == "async":
                    is_async = True
                s -= 1
            # `pub(crate)`
            if s > 0 and toks[s - 1].text == ")":
                p = s - 1
                while p > 0 and toks[p].text != "(":
                    p -= 1
                if p > 0 and toks[p - 1].kind == "id" and toks[p - 1].text == "pub":
                    s = p - 1
            impl_of = None
            for (a, b, nm) in impls:
                if a <= t.start < b:
                    impl_of = nm   # innermost wins because impls are appended outer-first? keep last match
            out.append(FnItem(name, toks[s].start, t.start, toks[body].start, toks[close].start,
                              is_async, impl_of, _line_of(src, t.start)))
    return out


def find_fn(src: str, name: str, impl_of: Optional[str] = None, nth: int = 1) -> FnItem:
    c = [f for f in find_fns(src) if f.name == name and (impl_of is None or f.impl_of == impl_of)]
    if len(c) < nth:
        raise ExtractError("function %s%s (occurrence %d) not found" % ((impl_of + "::") if impl_of else "", name, nth))
    return c[nth - 1]


# ---------------------------------------------------------------------------------------
# token-pattern rewriting

@dataclass
class Match:
    start: int   # char offsets in the text
    end: int
    caps: dict


def _tok_eq(a: Tok, b: Tok) -> bool:
    return a.text == b.text and (a.kind == b.kind or {a.kind, b.kind} <= {"id", "punct", "num"})


def compile_pattern(pat: str):
    """Pattern language: Rust tokens; `$name` captures a non-empty balanced token run
    (minimal); `$name:id` captures exactly one identifier token; `$name:tt` exactly one token
    tree (a bracketed group or a single token)."""
    toks = tokenize(pat)
    items = []
    i = 0
    while i < len(toks):
        t = toks[i]
        if t.kind == "punct" and t.text == "$" and i + 1 < len(toks) and toks[i + 1].kind == "id" and toks[i + 1].start == t.end:
            name = toks[i + 1].text
            kind = "run"
            i += 2
            if i + 1 < len(toks) and toks[i].text == ":" and toks[i].start == toks[i - 1].end and toks[i + 1].kind == "id" and toks[i + 1].text in ("id", "tt", "run", "opt"):
                kind = toks[i + 1].text
                i += 2
            items.append(("var", name, kind))
        else:
            items.append(("lit", t))
            i += 1
    return items


def _match_here(items, pi, toks, ti, caps, stop_at_depth_exit=True):
    """Backtracking matcher. Returns (end_token_index, caps) or None."""
    if pi == len(items):
        return ti, caps
    it = items[pi]
    if it[0] == "lit":
        if ti < len(toks) and _tok_eq(it[1], toks[ti]):
            return _match_here(items, pi + 1, toks, ti + 1, caps)
        return None
    _, name, kind = it
    if kind == "id":
        if ti < len(toks) and toks[ti].kind == "id":
            c2 = dict(caps)
            c2[name] = (ti, ti + 1)
            return _match_here(items, pi + 1, toks, ti + 1, c2)
        return None
    if kind == "tt":
        if ti >= len(toks):
            return None
        if toks[ti].kind == "punct" and toks[ti].text in OPEN:
            e = match_close(toks, ti) + 1
        elif toks[ti].kind == "punct" and toks[ti].text in CLOSE:
            return None
        else:
            e = ti + 1
        c2 = dict(caps)
        c2[name] = (ti, e)
        return _match_here(items, pi + 1, toks, e, c2)
    # run / opt: minimal balanced run (opt may be empty)
    j = ti
    if kind == "opt":
        c2 = dict(caps)
        c2[name] = (ti, ti)
        r = _match_here(items, pi + 1, toks, ti, c2)
        if r:
            return r
    while j < len(toks):
        t = toks[j]
        if t.kind == "punct" and t.text in CLOSE:
            return None          # would leave the enclosing group
        if t.kind == "punct" and t.text in OPEN:
            try:
                j = match_close(toks, j)
            except ExtractError:
                return None
        j += 1
        c2 = dict(caps)
        c2[name] = (ti, j)
        r = _match_here(items, pi + 1, toks, j, c2)
        if r:
            return r
    return None


def find_matches(text: str, pat: str) -> List[Match]:
    items = compile_pattern(pat)
    toks = tokenize(text)
    out: List[Match] = []
    ti = 0
    while ti < len(toks):
        r = _match_here(items, 0, toks, ti, {})
        if r and r[0] > ti:
            end_ti, caps = r
            capt = {}
            for k, (a, b) in caps.items():
                capt[k] = text[toks[a].start:toks[b - 1].end] if b > a else ""
            out.append(Match(toks[ti].start, toks[end_ti - 1].end, capt))
            ti = end_ti
        else:
            ti += 1
    return out


def rewrite(text: str, pat: str, repl: str, nested: bool = True, max_rounds: int = 12) -> Tuple[str, int]:
    """Replace every match of `pat` by `repl` (with $name substituted). Returns (text, count)."""
    total = 0
    for _ in range(max_rounds):
        ms = find_matches(text, pat)
        if not ms:
            break
        out, last = [], 0
        for m in ms:
            out.append(text[last:m.start])
            r = repl
            for k in sorted(m.caps, key=len, reverse=True):
                r = r.replace("$" + k, m.caps[k])
            out.append(r)
            last = m.end
        out.append(text[last:])
        new = "".join(out)
        total += len(ms)
        if new == text or not nested:
            text = new
            break
        text = new
        # stop if the replacement itself still matches only because it contains the pattern
        if find_matches(repl, pat):
            break
    return text, total


# ---------------------------------------------------------------------------------------
# statement-level helpers on a function body

LOG_MACROS = {"trace", "debug", "info", "warn", "error"}
METRIC_MACROS = {"counter", "gauge", "histogram"}


def drop_logging(text: str) -> Tuple[str, int]:
    """Remove `tracing` macro statements (`warn!(...);` etc., optionally path-qualified with
    `tracing::`).  Refuses (raises) when the argument list contains `?`, `.await`, or an
    assignment, i.e. anything that could have an effect."""
    toks = tokenize(text)
    cuts: List[Tuple[int, int]] = []
    i = 0
    while i < len(toks) - 2:
        t = toks[i]
        if t.kind == "id" and t.text in METRIC_MACROS and toks[i + 1].text == "!" and toks[i + 2].text == "(" and not (i > 0 and toks[i - 1].text == "."):
            # metrics::counter!(...).increment(1);  gauge!(..).set(x);  histogram!(..).record(x);
            close = match_close(toks, i + 2)
            s0 = i
            if s0 >= 3 and toks[s0 - 1].text == ":" and toks[s0 - 2].text == ":" and toks[s0 - 3].kind == "id":
                s0 -= 3
            e = close
            ok = True
            while e + 3 < len(toks) and toks[e + 1].text == "." and toks[e + 2].kind == "id" and toks[e + 3].text == "(":
                if toks[e + 2].text not in ("increment", "set", "record", "decrement", "absolute"):
                    ok = False
                    break
                e = match_close(toks, e + 3)
            args = toks[i + 3:e]
            if any((a.kind == "punct" and a.text == "?") or (a.kind == "id" and a.text == "await") for a in args):
                raise ExtractError("metrics macro with `?`/.await in arguments at offset %d" % t.start)
            if ok and e + 1 < len(toks) and toks[e + 1].text == ";":
                cuts.append((toks[s0].start, toks[e + 1].end))
                i = e + 2
                continue
            if ok:
                cuts.append((toks[s0].start, -toks[e].end))
                i = e + 1
                continue
        if t.kind == "id" and t.text in LOG_MACROS and toks[i + 1].text == "!" and toks[i + 2].text == "(":
            # not a method / field named the same: previous token must not be `.`
            if i > 0 and toks[i - 1].text == ".":
                i += 1
                continue
            close = match_close(toks, i + 2)
            args = toks[i + 3:close]
            for k, a in enumerate(args):
                if a.kind == "punct" and a.text == "?" :
                    raise ExtractError("logging macro with `?` in arguments at offset %d" % t.start)
                if a.kind == "id" and a.text == "await":
                    raise ExtractError("logging macro with .await in arguments at offset %d" % t.start)
                if a.kind == "punct" and a.text == "=" and k + 1 < len(args) and args[k + 1].text != "=" and (k == 0 or args[k - 1].text not in "=!<>%?"):
                    # `key = value` structured field is fine only when key is an identifier
                    if not (k > 0 and args[k - 1].kind == "id"):
                        raise ExtractError("logging macro with assignment at offset %d" % t.start)
            s = i
            # path prefix  tracing::warn!
            if s >= 3 and toks[s - 1].text == ":" and toks[s - 2].text == ":" and toks[s - 3].kind == "id":
                s -= 3
            e = close
            if e + 1 < len(toks) and toks[e + 1].text == ";":
                e += 1
                cuts.append((toks[s].start, toks[e].end))
            else:
                # expression position (e.g. match arm `Err(e) => warn!(..),`): replace by ()
                cuts.append((toks[s].start, -toks[e].end))
            i = close + 1
            continue
        i += 1
    if not cuts:
        return text, 0
    out, last = [], 0
    for (a, b) in cuts:
        out.append(text[last:a])
        if b < 0:
            out.append("()")
            b = -b
        last = b
    out.append(text[last:])
    return "".join(out), len(cuts)


def strip_async(text: str) -> Tuple[str, int]:
    toks = tokenize(text)
    cuts = []
    for i, t in enumerate(toks):
        if t.kind == "id" and t.text == "await" and i > 0 and toks[i - 1].text == ".":
            cuts.append((toks[i - 1].start, t.end))
        if t.kind == "id" and t.text == "async" and i + 1 < len(toks) and toks[i + 1].text in ("fn", "move", "{"):
            if toks[i + 1].text == "fn":
                cuts.append((t.start, toks[i + 1].start))
    out, last = [], 0
    for a, b in cuts:
        out.append(text[last:a])
        last = b
    out.append(text[last:])
    return "".join(out), len(cuts)


def strip_comments(text: str) -> str:
    toks = tokenize(text, keep_comments=True)
    out, last = [], 0
    for t in toks:
        if t.kind == "comment":
            out.append(text[last:t.start])
            last = t.end
    out.append(text[last:])
    return "".join(out)


def loop_headers(text: str) -> List[Tuple[int, str]]:
    """Offsets of the `{` that opens the body of each `while` / `loop` / `for` loop in `text`,
    in source order, with the loop keyword."""
    toks = tokenize(text)
    out = []
    for i, t in enumerate(toks):
        if t.kind == "id" and t.text in ("while", "loop", "for"):
            if t.text == "for" and i > 0 and toks[i - 1].kind == "id" and toks[i - 1].text == "impl":
                continue
            if t.text == "for" and i + 1 < len(toks) and toks[i + 1].text == "<":
                continue   # higher-ranked `for<'a>`
            # label `'a: loop` irrelevant.  find `{` at depth 0 (skip parens/brackets; a struct
            # literal cannot appear unparenthesised in a loop header)
            j = i + 1
            ok = None
            while j < len(toks):
                tj = toks[j]
                if tj.kind == "punct" and tj.text in "([":
                    j = match_close(toks, j)
                elif tj.kind == "punct" and tj.text == "{":
                    ok = j
                    break
                elif tj.kind == "punct" and tj.text in ";}":
                    break
                j += 1
            if ok is not None:
                out.append((toks[ok].start, t.text))
    return out


def statement_starts(text: str, prefix: str) -> List[int]:
    """Offsets at which a token run equal to `prefix` starts *at statement position*, i.e. the
    previous token is one of `{ } ; ,` or `=>`, or start of text."""
    ptoks = tokenize(prefix)
    toks = tokenize(text)
    out = []
    for i in range(len(toks) - len(ptoks) + 1):
        if all(_tok_eq(ptoks[k], toks[i + k]) for k in range(len(ptoks))):
            prev = toks[i - 1].text if i > 0 else "{"
            if prev in ("{", "}", ";", ",") or (prev == ">" and i > 1 and toks[i - 2].text == "="):
                out.append(toks[i].start)
    return out


def for_to_while(text: str, k: int, seq_tpl: str, elem_tpl: str, expect_iter: Optional[str] = None, seen: Optional[list] = None) -> str:
    """Rewrite the k-th loop (which must be a `for PAT in EXPR {`) into an index loop over a
    materialised sequence:

        let __s_k = <seq_tpl with $iter>;  let mut __i_k: usize = 0;
        while __i_k < __s_k.len() {  let PAT = <elem_tpl with $s,$i>;  __i_k += 1;  ...body... }

    The increment sits at the top of the body so `continue` keeps its meaning."""
    toks = tokenize(text)
    heads = loop_headers(text)
    if len(heads) < k:
        raise ExtractError("for2while: loop %d not found" % k)
    brace_off, kw = heads[k - 1]
    if kw != "for":
        raise ExtractError("for2while: loop %d is a `%s`, not a `for`" % (k, kw))
    # locate the `for` token belonging to this header: last `for` before brace_off that is a loop header
    bi = next(i for i, t in enumerate(toks) if t.start == brace_off)
    fi = bi
    while fi >= 0 and not (toks[fi].kind == "id" and toks[fi].text == "for"):
        fi -= 1
    # find `in` at depth 0 between fi and bi
    j = fi + 1
    in_i = None
    while j < bi:
        tj = toks[j]
        if tj.kind == "punct" and tj.text in OPEN:
            j = match_close(toks, j)
        elif tj.kind == "id" and tj.text == "in":
            in_i = j
            break
        j += 1
    if in_i is None:
        raise ExtractError("for2while: no `in` in loop header %d" % k)
    pat = text[toks[fi + 1].start:toks[in_i - 1].end]
    it = text[toks[in_i + 1].start:toks[bi - 1].end]
    if seen is not None:
        seen.append(" ".join(t.text for t in tokenize(it)))
    # the iterable of the real loop is replaced by seq_tpl: unless seq_tpl quotes it ($iter), it must be the iterable the
    # template was written for -- a changed iterable (.skip(1), .rev(), another collection) is never silently replaced
    if expect_iter is not None and [t.text for t in tokenize(it)] != [t.text for t in tokenize(expect_iter)]:
        raise ExtractError("for2while: loop %d iterates over `%s`, the template was written for `%s`" % (k, " ".join(t.text for t in tokenize(it)), expect_iter))
    s_name, i_name = "__s_%d" % k, "__i_%d" % k
    # integer range `A..B` (exclusive): plain counter loop, no materialised sequence
    itoks = toks[in_i + 1:bi]
    dd = None
    depth = 0
    for q in range(len(itoks) - 1):
        if itoks[q].kind == "punct" and itoks[q].text in OPEN:
            depth += 1
        elif itoks[q].kind == "punct" and itoks[q].text in CLOSE:
            depth -= 1
        elif depth == 0 and itoks[q].text == "." and itoks[q + 1].text == "." and itoks[q + 1].start == itoks[q].end:
            dd = q
            break
    if dd is not None and seq_tpl == "$iter":
        if dd + 2 < len(itoks) and itoks[dd + 2].text == "=":
            raise ExtractError("for2while: inclusive ranges are not supported (loop %d)" % k)
        lo = text[itoks[0].start:itoks[dd - 1].end] if dd > 0 else "0"
        hi = text[itoks[dd + 2].start:itoks[-1].end]
        head = "let __hi_%d = %s; let mut %s = %s;\nwhile %s < __hi_%d " % (k, hi, i_name, lo, i_name, k)
        first = "{ let %s = %s; %s += 1;" % (pat, i_name, i_name)
        return text[:toks[fi].start] + head + first + text[toks[bi].end:]
    seq = seq_tpl.replace("$iter", it)
    elem = elem_tpl.replace("$s", s_name).replace("$i", i_name)
    head = "let %s = %s; let mut %s: usize = 0;\nwhile %s < %s.len() " % (s_name, seq, i_name, i_name, s_name)
    first = "{ let %s = %s; %s += 1;" % (pat, elem, i_name)
    return text[:toks[fi].start] + head + first + text[toks[bi].end:]
