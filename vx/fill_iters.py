"""One-off maintenance tool: add `iter=`...`` to every `//@ for2while` directive that replaces the loop's iterable
(seq= without $iter), recording the iterable the real loop has on the current tree.  Run on a tree on which every check passes."""
import glob, os, re, sys
from . import assemble as A

ROOT = os.path.dirname(os.path.dirname(os.path.abspath(__file__)))
REPO = os.environ.get("VERIF_REPO", "/repo")

def main():
    n = 0
    for tpl in sorted(glob.glob(os.path.join(ROOT, "contracts", "verus", "*.rs.in"))):
        A.F2W_LOG.clear()
        try:
            A.assemble(REPO, tpl)
        except Exception as e:      # noqa
            print("skip %s: %s" % (os.path.basename(tpl), e)); continue
        log = {(u, k): it for (_t, u, k, it, exp) in A.F2W_LOG if it}
        lines = open(tpl).read().split("\n")
        uid = None
        for i, ln in enumerate(lines):
            m = re.match(r"//@unit\??\s+(\S+)", ln)
            if m:
                uid = m.group(1)
            m = re.match(r"//@\s*for2while\??\s+(\d+)(.*)$", ln)
            if m and " iter=`" not in ln and "$iter" not in ln and (uid, int(m.group(1))) in log:
                it = log[(uid, int(m.group(1)))]
                if "`" in it:
                    print("cannot quote iterable of %s/%s loop %s: %s" % (tpl, uid, m.group(1), it)); continue
                lines[i] = ln + " iter=`%s`" % it
                n += 1
        open(tpl, "w").write("\n".join(lines))
    print("added iter= to %d directives" % n)

if __name__ == "__main__":
    main()
