"""Assemble a Verus / Kani input file from a template and the *current* text of /repo.

A template is ordinary Rust (spec functions, shims with assumed contracts, lemmas) plus
`//@unit … //@end` blocks.  Each block is replaced by the real text of the named function
(or region of a function), re-read from the working tree on every run, with only the
declared, mechanical transformations applied:

  drops          tracing macro statements (refused if their arguments could have an effect)
  sequentialise  `async fn` -> `fn`, `.await` removed
  rw: P ==> R    token-pattern rewrite (layout independent); must fire at least once unless `rw?:`
  ret: name      `-> T` becomes `-> (name: T)` so the contract can mention the result
  sig: ...       replace the signature (needed for regions, which are lifted into functions)
  spec:          contract clauses spliced between signature and body
  loop k:        loop invariants / decreases spliced before the body of the k-th loop
  before/after k `prefix`:   (k = `*`: every such statement) proof hint spliced before/after the k-th statement starting with
                 the given token prefix (statement position only — never keyed on operators
                 or constants inside an expression)

Anything that cannot be located raises ExtractError => the check reports UNDECIDED (exit 2),
never a pass and never a violation.
"""
from __future__ import annotations
import hashlib
import os
import re
from dataclasses import dataclass, field
from typing import Dict, List, Optional, Tuple

from . import rusttok as rt
from .rusttok import ExtractError


@dataclass
class UnitInfo:
    uid: str
    file: str
    item: str
    line_start: int
    line_end: int
    sha256: str
    drops: int = 0
    awaits: int = 0
    rewrites: List[Tuple[str, int]] = field(default_factory=list)
    obligations: List[str] = field(default_factory=list)
    asm_start: int = 0     # line span in the assembled file
    asm_end: int = 0
    orig_text: str = ""
    props: List[str] = field(default_factory=list)
    note: str = ""


@dataclass
class Assembled:
    text: str
    units: List[UnitInfo]
    template: str


_KV = re.compile(r"(\w+)=(`[^`]*`|\S+)")


def _parse_kv(s: str) -> Dict[str, str]:
    out = {}
    for m in _KV.finditer(s):
        v = m.group(2)
        if v.startswith("`"):
            v = v[1:-1]
        out[m.group(1)] = v
    return out


def _stmt_end(text: str, start: int) -> int:
    """End offset (exclusive) of the statement starting at `start`."""
    toks = [t for t in rt.tokenize(text) if t.start >= start]
    i = 0
    while i < len(toks):
        t = toks[i]
        if t.kind == "punct" and t.text in rt.OPEN:
            j = i
            # match within the sliced token list
            depth = 0
            while j < len(toks):
                if toks[j].kind == "punct" and toks[j].text in rt.OPEN:
                    depth += 1
                elif toks[j].kind == "punct" and toks[j].text in rt.CLOSE:
                    depth -= 1
                    if depth == 0:
                        break
                j += 1
            if t.text == "{":
                nxt = toks[j + 1].text if j + 1 < len(toks) else "}"
                if nxt not in ("else", ".", ";", "?", ")", ",") :
                    return toks[j].end
            i = j + 1
            continue
        if t.kind == "punct" and t.text == ";":
            return t.end
        if t.kind == "punct" and t.text in rt.CLOSE:
            return t.start
        i += 1
    return len(text)


def _wrap_ret(sig: str, name: str) -> str:
    toks = rt.tokenize(sig)
    # find `->` at bracket depth 0 after the parameter list
    i = 0
    depth = 0
    arrow = None
    while i < len(toks) - 1:
        t = toks[i]
        if t.kind == "punct" and t.text in "([":
            i = rt.match_close(toks, i)
        elif t.text == "-" and toks[i + 1].text == ">" and toks[i + 1].start == t.end:
            arrow = i
            break
        i += 1
    if arrow is None:
        return sig  # unit-returning function
    # return type runs to `where` at depth 0 or end
    j = arrow + 2
    end = len(sig)
    k = j
    while k < len(toks):
        if toks[k].kind == "id" and toks[k].text == "where":
            end = toks[k].start
            break
        if toks[k].kind == "punct" and toks[k].text in "([":
            k = rt.match_close(toks, k)
        k += 1
    ty = sig[toks[j].start:end].rstrip()
    return sig[:toks[j].start] + "(" + name + ": " + ty + ")" + (" " + sig[end:] if end < len(sig) else "")


def _find_macro_body(src: str, name: str) -> rt.FnItem:
    """Locate `macro_rules! name { (...) => {{ BODY }}; }` and return BODY's brace span as if it
    were a function body (single-rule macros whose transcriber is a block)."""
    toks = rt.tokenize(src)
    for i, t in enumerate(toks):
        if t.kind == "id" and t.text == "macro_rules" and i + 3 < len(toks) and toks[i + 1].text == "!" and toks[i + 2].text == name and toks[i + 3].text == "{":
            end = rt.match_close(toks, i + 3)
            j = i + 4
            while j < end:
                if toks[j].text == "=" and toks[j + 1].text == ">" and toks[j + 2].text == "{":
                    outer = j + 2
                    inner = outer + 1 if toks[outer + 1].text == "{" else outer
                    close = rt.match_close(toks, inner)
                    return rt.FnItem(name, toks[i].start, toks[i].start, toks[inner].start, toks[close].start, False, None,
                                     src.count("\n", 0, toks[i].start) + 1)
                j += 1
    raise ExtractError("macro_rules! %s not found" % name)


def _apply_unit(repo: str, header: str, body_lines: List[str], tpl_name: str) -> Tuple[str, UnitInfo]:
    hm = re.match(r"//@unit\s+(\S+)\s+(.*)$", header.strip())
    if not hm:
        raise ExtractError("bad unit header in %s: %s" % (tpl_name, header))
    uid, kv = hm.group(1), _parse_kv(hm.group(2))
    path = os.path.join(repo, kv["file"])
    try:
        src = open(path, encoding="utf-8").read()
    except OSError as e:
        raise ExtractError("cannot read %s: %s" % (path, e))
    if "macro" in kv:
        fn = _find_macro_body(src, kv["macro"])
        kv["fn"] = "macro_rules! " + kv["macro"]
    else:
        fn = rt.find_fn(src, kv["fn"], kv.get("impl"), int(kv.get("nth", "1")))
    item_text = src[fn.start:fn.body_close + 1]
    sig = src[fn.start:fn.body_open].rstrip()
    body = src[fn.body_open:fn.body_close + 1]        # includes braces
    info = UnitInfo(uid=uid, file=kv["file"], item=(kv.get("impl", "") + "::" if kv.get("impl") else "") + kv["fn"],
                    line_start=fn.line, line_end=src.count("\n", 0, fn.body_close) + 1,
                    sha256="", props=[p for p in kv.get("props", "").split(",") if p])

    # ---- parse directive sections
    sections: List[Tuple[str, str, List[str]]] = []   # (kind, arg, lines)
    cur: Optional[Tuple[str, str, List[str]]] = None
    opts = {"keep_logging": False, "keep_async": False, "keep_comments": False}
    region = None
    for ln in body_lines:
        s = ln.strip()
        if s.startswith("//@"):
            d = s[3:].strip()
            cur = None
            if d.startswith("sigrw:"):
                rule = d.split(":", 1)[1]
                p, r = rule.split("==>", 1)
                sections.append(("sigrw", p.strip(), [r.strip()]))
            elif d.startswith("attr:"):
                # attribute(s) put in front of the unit's signature (e.g. #[verifier::loop_isolation(false)])
                sections.append(("attr", d[5:].strip(), []))
            elif d.startswith("guard:"):
                # `guard: self.F.write() as LK w` / `... .read() as LK r`: lock guards keep their scope.  The `let X = <expr>;`
                # becomes `self.LK.acquire_w(); let X = &mut self.F;` and `self.LK.release_w();` is inserted where the guard
                # is dropped: at the end of the enclosing block and before every `return` inside it.
                mg = re.match(r"guard:\s*(.+?)\s+as\s+(\w+)\s+([wrx])\s*$", d)
                if not mg:
                    raise ExtractError("bad guard rule in %s/%s: %s" % (tpl_name, uid, d))
                sections.append(("guard", mg.group(1).strip(), [mg.group(2), mg.group(3)]))
            elif d.startswith("rwin:"):
                # scoped rewrite: `rwin: OUTER (capturing $in) ==> INNER ==> REPL` applies INNER ==> REPL only inside
                # the text captured as $in by each match of OUTER
                parts = d.split(":", 1)[1].split("==>")
                if len(parts) != 3:
                    raise ExtractError("bad rwin rule in %s/%s: %s" % (tpl_name, uid, d))
                sections.append(("rwin", parts[0].strip(), [parts[1].strip(), parts[2].strip()]))
            elif d.startswith("rw?:") or d.startswith("rw:"):
                optional = d.startswith("rw?:")
                rule = d.split(":", 1)[1]
                if "==>" not in rule:
                    raise ExtractError("bad rw rule in %s/%s: %s" % (tpl_name, uid, d))
                p, r = rule.split("==>", 1)
                sections.append(("rw?" if optional else "rw", p.strip(), [r.strip()]))
            elif d.startswith("lift:") or d.startswith("lift?:"):
                rule = d.split(":", 1)[1]
                if "==>" not in rule or "~~>" not in rule:
                    raise ExtractError("bad lift rule in %s/%s: %s" % (tpl_name, uid, d))
                p, rest = rule.split("==>", 1)
                r, fn_txt = rest.split("~~>", 1)
                cur = ("lift?" if d.startswith("lift?:") else "lift", p.strip(), [r.strip(), fn_txt.strip()])
                sections.append(cur)
            elif d.startswith("sig:"):
                sections.append(("sig", d[4:].strip(), []))
            elif d.startswith("for2while"):
                m = re.match(r"for2while\??\s+(\d+)(.*)$", d)
                if not m:
                    raise ExtractError("bad for2while in %s/%s: %s" % (tpl_name, uid, d))
                kvs = _parse_kv(m.group(2))
                sections.append(("for2while?" if d.startswith("for2while?") else "for2while", m.group(1), [kvs.get("seq", "$iter"), kvs.get("elem", "&$s[$i]"), kvs.get("iter", "")]))
            elif d.startswith("ret:"):
                sections.append(("ret", d[4:].strip(), []))
            elif d.startswith("tail:"):
                sections.append(("tail", d[5:].strip(), []))
            elif d.startswith("region"):
                region = _parse_kv(d[6:])
                region["_raw"] = d
            elif d.startswith("spec:"):
                cur = ("spec", "", [])
                sections.append(cur)
            elif d.startswith("loop-start") or d.startswith("loop-end"):
                kind0 = "loop-start" if d.startswith("loop-start") else "loop-end"
                k = d[len(kind0):].strip().rstrip(":").strip()
                cur = (kind0, k, [])
                sections.append(cur)
            elif d.startswith("after-loop"):
                k = d[len("after-loop"):].strip().rstrip(":").strip()
                cur = ("after-loop", k, [])
                sections.append(cur)
            elif d.startswith("loop"):
                opt = d.startswith("loop?")
                k = d[5 if opt else 4:].strip().rstrip(":").strip()
                cur = ("loop?" if opt else "loop", k, [])
                sections.append(cur)
            elif d.startswith("before") or d.startswith("after"):
                # `before K `prefix` [in L]:` -- the K-th statement starting with prefix (inside the body of loop L, if given)
                m = re.match(r"(before|after)\s+(\d+|\*)\s+`([^`]*)`(?:\s+in\s+(\d+))?\s*:?", d)
                if not m:
                    raise ExtractError("bad hint anchor in %s/%s: %s" % (tpl_name, uid, d))
                cur = (m.group(1), m.group(2) + "\x00" + m.group(3) + "\x00" + (m.group(4) or ""), [])
                sections.append(cur)
            elif d.startswith("keep-logging"):
                opts["keep_logging"] = True
            elif d.startswith("keep-async"):
                opts["keep_async"] = True
            elif d.startswith("note:"):
                info.note = d[5:].strip()
            elif d.startswith("obligation:"):
                info.obligations.append(d[11:].strip())
            elif d.startswith("#"):
                pass
            else:
                raise ExtractError("unknown directive in %s/%s: %s" % (tpl_name, uid, d))
        elif cur is not None:
            cur[2].append(ln)
        elif s:
            raise ExtractError("stray text in unit block %s/%s: %s" % (tpl_name, uid, s))

    # ---- region
    if region is not None:
        inner = body[1:-1]
        def _anchor(spec: str, default_k: int = 1) -> Tuple[str, int]:
            m = re.match(r"^(.*?)(?:#(\d+))?$", spec, re.S)
            return m.group(1), int(m.group(2) or default_k)
        a_pref, a_k = _anchor(region["from"])
        starts = rt.statement_starts(inner, a_pref)
        if len(starts) < a_k:
            raise ExtractError("%s: region start anchor `%s`#%d not found in %s" % (uid, a_pref, a_k, info.item))
        a = starts[a_k - 1]
        if "to" in region:
            b_pref, b_k = _anchor(region["to"])
            ends = [e for e in rt.statement_starts(inner, b_pref) if e > a]
            if len(ends) < b_k:
                raise ExtractError("%s: region end anchor `%s`#%d not found in %s" % (uid, b_pref, b_k, info.item))
            b = ends[b_k - 1]
            if region.get("inclusive", "no") in ("yes", "true", "1"):
                b = _stmt_end(inner, b)
        elif "through" in region:
            b_pref, b_k = _anchor(region["through"])
            ends = [e for e in rt.statement_starts(inner, b_pref) if e >= a]
            if len(ends) < b_k:
                raise ExtractError("%s: region end anchor `%s`#%d not found in %s" % (uid, b_pref, b_k, info.item))
            b = _stmt_end(inner, ends[b_k - 1])
        else:
            b = len(inner)
        region_text = inner[a:b]
        base_off = fn.body_open + 1 + a
        info.line_start = src.count("\n", 0, base_off) + 1
        info.line_end = src.count("\n", 0, fn.body_open + 1 + b) + 1
        info.item += " [region]"
        tails = [arg for kind, arg, lines in sections if kind == "tail"]
        body = "{\n" + region_text.rstrip() + "\n" + "\n".join(tails) + ("\n" if tails else "") + "}"
        item_text = region_text
    info.sha256 = hashlib.sha256(item_text.encode()).hexdigest()
    info.orig_text = item_text

    # ---- mechanical transformations on signature and body
    body = rt.strip_comments(body)
    if not opts["keep_logging"]:
        body, info.drops = rt.drop_logging(body)
    if not opts["keep_async"]:
        body, n1 = rt.strip_async(body)
        sig, n2 = rt.strip_async(sig)
        info.awaits = n1 + n2
    # attributes and doc comments in front of the signature are dropped (cfg/inline/doc only)
    sig = rt.strip_comments(sig)
    sig = re.sub(r"#\[[^\]]*\]\s*", "", sig).strip()

    for kind, arg, lines in sections:
        if kind == "sig":
            sig = arg
    for kind, arg, lines in sections:
        if kind == "sigrw":
            sig2, n = rt.rewrite(sig, arg, lines[0])
            if n == 0:
                raise ExtractError("%s: signature rewrite pattern not found in %s (%s): %s" % (uid, info.item, info.file, arg))
            info.rewrites.append(("signature: " + arg + " ==> " + lines[0], n))
            sig = sig2
    for kind, arg, lines in sections:
        if kind == "guard":
            body, n_g = _apply_guard(uid, body, arg, lines[0], lines[1])
            info.rewrites.append(("guard scope: " + arg + " as " + lines[0] + " (" + lines[1] + ")", n_g))
    for kind, arg, lines in sections:
        if kind == "rwin":
            ms = rt.find_matches(body, arg)
            n_total = 0
            for m in sorted(ms, key=lambda m: -m.start):
                cap = m.caps.get("in")
                if cap is None:
                    raise ExtractError("%s: rwin pattern has no $in capture: %s" % (uid, arg))
                new_cap, n = rt.rewrite(cap, lines[0], lines[1])
                n_total += n
                seg = body[m.start:m.end]
                k = seg.find(cap)
                if k >= 0 and n:
                    body = body[:m.start] + seg[:k] + new_cap + seg[k + len(cap):] + body[m.end:]
            info.rewrites.append(("inside `" + arg + "`: " + lines[0] + " ==> " + lines[1], n_total))
            continue
        if kind in ("rw", "rw?"):
            whole = sig + "\x01" + body
            whole2, n = rt.rewrite(whole, arg, lines[0])
            if n == 0 and kind == "rw" and os.environ.get("VERIF_STRICT_RW"):
                # self-test mode: on the tree a template was written for, every `rw:` rule must fire
                raise ExtractError("%s: rewrite pattern not found in %s (%s): %s" % (uid, info.item, info.file, arg))
            # otherwise a rule that does not fire is recorded (fired = 0) and skipped: the construct it translates is
            # not there; if it is there in another form the verifier rejects it (undecided), it is never passed silently
            info.rewrites.append((arg + " ==> " + lines[0], n))
            if "\x01" not in whole2:
                raise ExtractError("%s: rewrite crossed signature/body boundary: %s" % (uid, arg))
            sig, body = whole2.split("\x01", 1)
    f2w_skipped = set()
    for kind, arg, lines in sections:
        if kind in ("for2while", "for2while?"):
            try:
                seen_it: list = []
                if not lines[2] and "$iter" not in lines[0] and os.environ.get("VERIF_STRICT_RW"):
                    raise ExtractError("%s: for2while %s replaces the loop's iterable without naming it (iter=`...`)" % (uid, arg))
                body = rt.for_to_while(body, int(arg), lines[0], lines[1], lines[2] or None, seen_it)
                F2W_LOG.append((tpl_name, uid, int(arg), seen_it[0] if seen_it else None, lines[2]))
                info.rewrites.append(("for-to-while loop %s: seq=%s elem=%s%s" % (arg, lines[0], lines[1], (" (the real loop iterates over `%s`: checked)" % lines[2]) if lines[2] else ""), 1))
            except ExtractError:
                if kind == "for2while":
                    raise
                f2w_skipped.add(int(arg))
                info.rewrites.append(("for-to-while loop %s (optional): not applicable" % arg, 0))
    lifted: List[str] = []
    for kind, arg, lines in sections:
        if kind in ("lift", "lift?"):
            ms = rt.find_matches(body, arg)
            if not ms and kind == "lift?":
                info.rewrites.append(("closure-lift (optional): " + arg, 0))
                continue
            if not ms:
                raise ExtractError("%s: closure-lift pattern not found in %s (%s): %s" % (uid, info.item, info.file, arg))
            fn_txt = lines[1] + "\n" + "\n".join(lines[2:])
            for k, m in enumerate(ms):
                t = fn_txt
                for cname in sorted(m.caps, key=len, reverse=True):
                    t = t.replace("$" + cname, m.caps[cname])
                if len(ms) > 1:
                    t = t.replace("$#", str(k + 1))
                else:
                    t = t.replace("$#", "")
                lifted.append(t)
            if len(ms) > 1 and "$#" in lines[0]:
                # number the call sites in order
                out_b, last = [], 0
                for k, m in enumerate(ms):
                    r = lines[0].replace("$#", str(k + 1))
                    for cname in sorted(m.caps, key=len, reverse=True):
                        r = r.replace("$" + cname, m.caps[cname])
                    out_b.append(body[last:m.start]); out_b.append(r); last = m.end
                out_b.append(body[last:])
                body = "".join(out_b)
            else:
                body, _n = rt.rewrite(body, arg, lines[0].replace("$#", ""), nested=False)
            info.rewrites.append(("closure-lift: " + arg + " ==> " + lines[0], len(ms)))
    for kind, arg, lines in sections:
        if kind == "ret":
            sig = _wrap_ret(sig, arg)

    # ---- splices (computed on the transformed body; applied from the end backwards)
    inserts: List[Tuple[int, str]] = []
    for kind, arg, lines in sections:
        txt = "\n".join(lines)
        if kind in ("loop", "loop?"):
            heads = rt.loop_headers(body)
            k = int(arg)
            if kind == "loop?" and (len(heads) < k or k in f2w_skipped):
                continue      # the loop is gone / has another shape: leave it without a contract (Verus then demands one)
            if len(heads) < k:
                raise ExtractError("%s: loop %d not found in %s (has %d loops)" % (uid, k, info.item, len(heads)))
            inserts.append((heads[k - 1][0], "\n" + txt + "\n"))
            # Verus parses a block that directly follows a loop with clauses as part of the
            # clauses: separate a following bare block with an empty statement
            toks_l = rt.tokenize(body)
            bi_l = next(i for i, t in enumerate(toks_l) if t.start == heads[k - 1][0])
            ci_l = rt.match_close(toks_l, bi_l)
            if ci_l + 1 < len(toks_l) and toks_l[ci_l + 1].text == "{":
                inserts.append((toks_l[ci_l].end, ";"))
        elif kind in ("loop-start", "loop-end"):
            heads = rt.loop_headers(body)
            k = int(arg)
            if len(heads) < k:
                raise ExtractError("%s: loop %d not found in %s (has %d loops)" % (uid, k, info.item, len(heads)))
            toks_b = rt.tokenize(body)
            bi = next(i for i, t in enumerate(toks_b) if t.start == heads[k - 1][0])
            ci = rt.match_close(toks_b, bi)
            if kind == "loop-end":
                inserts.append((toks_b[ci].start, "\n" + txt + "\n"))
            else:
                off = toks_b[bi].end
                # after the prologue generated by for2while (`let PAT = ..; __i_k += 1;`)
                marker = "__i_%d += 1;" % k
                pos = body.find(marker, off, toks_b[ci].start)
                if pos >= 0 and body[off:pos].count(";") <= 1:
                    off = pos + len(marker)
                inserts.append((off, "\n" + txt + "\n"))
        elif kind == "after-loop":
            heads = rt.loop_headers(body)
            k = int(arg)
            if len(heads) < k:
                raise ExtractError("%s: loop %d not found in %s (has %d loops)" % (uid, k, info.item, len(heads)))
            toks_b = rt.tokenize(body)
            bi = next(i for i, t in enumerate(toks_b) if t.start == heads[k - 1][0])
            ci = rt.match_close(toks_b, bi)
            inserts.append((toks_b[ci].end, "\n" + txt + "\n"))
        elif kind in ("before", "after"):
            k_s, pref, in_loop = (arg.split("\x00") + [""])[:3]
            # `*` = every statement starting with the prefix (none is fine): a hint wanted at every exit of one shape
            k = 0 if k_s == "*" else int(k_s)
            starts = rt.statement_starts(body, pref)
            if in_loop:
                heads = rt.loop_headers(body)
                lk = int(in_loop)
                if len(heads) < lk:
                    raise ExtractError("%s: loop %d not found in %s (has %d loops)" % (uid, lk, info.item, len(heads)))
                toks_h = rt.tokenize(body)
                bi_h = next(i for i, t in enumerate(toks_h) if t.start == heads[lk - 1][0])
                lo, hi = toks_h[bi_h].start, toks_h[rt.match_close(toks_h, bi_h)].end
                starts = [x for x in starts if lo <= x < hi]
            if len(starts) < k:
                raise ExtractError("%s: hint anchor `%s` #%d not found in %s" % (uid, pref, k, info.item))
            for off in (starts if k == 0 else [starts[k - 1]]):
                if kind == "after":
                    off = _stmt_end(body, off)
                inserts.append((off, "\n" + txt + "\n"))
    for off, txt in sorted(inserts, key=lambda x: -x[0]):
        body = body[:off] + txt + body[off:]
    spec = "\n".join("\n".join(l) for k, a, l in sections if k == "spec")
    attrs = " ".join(a for k, a, l in sections if k == "attr")
    if attrs:
        sig = attrs + " " + sig
    out = sig + "\n" + spec + ("\n" if spec else "") + body + "\n"
    if lifted:
        out += "\n" + "\n".join(lifted) + "\n"
    out += _requires_canary(uid, sig, spec)
    return out, info


_SPEC_KW = ("requires", "ensures", "decreases", "returns", "recommends", "opens_invariants", "no_unwind")


def _requires_canary(uid: str, sig: str, spec: str) -> str:
    """Vacuity guard: a unit with a `requires` clause gets a twin `canary_req_<uid>` with the same signature
    and the same precondition whose body asserts false.  It must FAIL; if it verifies the precondition is
    unsatisfiable and every obligation of the unit was discharged vacuously."""
    if uid.startswith("canary") or not spec.strip():
        return ""
    toks = rt.tokenize(spec)
    depth, marks = 0, []
    prev = None
    for t in toks:
        if t.text in "([{":
            depth += 1
        elif t.text in ")]}":
            depth -= 1
        elif depth == 0 and t.kind == "id" and t.text in _SPEC_KW and not (prev is not None and prev.text == "."):
            marks.append(t)
        prev = t
    req = None
    for i, t in enumerate(marks):
        if t.text == "requires":
            end = marks[i + 1].start if i + 1 < len(marks) else len(spec)
            req = spec[t.start:end].rstrip().rstrip(",")
            break
    if not req:
        return ""
    m = re.search(r"\bfn\s+([A-Za-z_][A-Za-z0-9_]*)", sig)
    if not m:
        return ""
    csig = sig[:m.start(1)] + "canary_req_" + re.sub(r"[^A-Za-z0-9_]", "_", uid) + sig[m.end(1):]
    return "\n" + csig + "\n    " + req + ",\n{ assert(false); vstd::pervasive::unreached() }\n"


F2W_LOG: list = []


def _postfix_start(toks, q: int) -> int:
    """Index of the first token of the postfix expression that ends just before token q (a `?`)."""
    i = q - 1
    while i >= 0:
        t = toks[i]
        if t.text in (")", "]"):
            d = 0
            while i >= 0:
                if toks[i].text in (")", "]", "}"):
                    d += 1
                elif toks[i].text in ("(", "[", "{"):
                    d -= 1
                    if d == 0:
                        break
                i -= 1
            if i < 0:
                raise ExtractError("unbalanced expression before `?`")
            # a call / index: the callee precedes; a parenthesised primary: stop here
            if i > 0 and (toks[i - 1].kind == "id" or toks[i - 1].text in (")", "]", "?", ">")) and toks[i - 1].text not in ("return", "in", "if", "match", "while", "else", "let", "mut"):
                i -= 1
                if toks[i].text == ">":
                    raise ExtractError("turbofish before `?` is not supported in a guard scope")
                continue
            return i
        if t.text == "?":
            i -= 1
            continue
        if t.kind in ("id", "num", "str", "char"):
            if i > 0 and toks[i - 1].text == ".":
                i -= 2
                continue
            if i > 1 and toks[i - 1].text == ":" and toks[i - 2].text == ":":
                i -= 3
                continue
            return i
        raise ExtractError("cannot find the start of the expression before `?` (token `%s`)" % t.text)
    raise ExtractError("cannot find the start of the expression before `?`")


def _apply_guard(uid: str, body: str, expr: str, lk: str, mode: str) -> Tuple[str, int]:
    """See the `guard:` directive.  Raises ExtractError (=> undecided) for shapes it cannot place a release for.
    Modes w / r: parking_lot RwLock guards over a field (`let g = self.F.write();` => acquire + `let g = &mut self.F;`).
    Mode x: an exclusive guard that protects no field of its own (`let _g = self.L.lock();` => `self.<lk>_acquire();`
    and `self.<lk>_release();` on every exit of the guard's scope: scope end, tail expression, `return`, `?`)."""
    etoks = [t.text for t in rt.tokenize(expr)]
    mfield = re.match(r"self\s*\.\s*(\w+)\s*\.", expr)
    if not mfield:
        raise ExtractError("%s: guard expression must start with self.<field>.: %s" % (uid, expr))
    field = mfield.group(1)
    count = 0
    while True:
        toks = rt.tokenize(body)
        hit = None
        for i, t in enumerate(toks):
            if t.kind == "id" and t.text == "let":
                j = i + 1
                if j < len(toks) and toks[j].text == "mut":
                    j += 1
                if j + 1 < len(toks) and toks[j].kind == "id" and toks[j + 1].text == "=":
                    seg = [x.text for x in toks[j + 2:j + 2 + len(etoks)]]
                    k = j + 2 + len(etoks)
                    if seg == etoks and k < len(toks) and toks[k].text == ";":
                        hit = (i, j, k)
                        break
        if hit is None:
            break
        i, j, k = hit
        name = toks[j].text
        # enclosing block
        depth, ob = 0, None
        for q in range(i - 1, -1, -1):
            if toks[q].text == "}":
                depth += 1
            elif toks[q].text == "{":
                if depth == 0:
                    ob = q
                    break
                depth -= 1
        if ob is None:
            raise ExtractError("%s: guard `%s` has no enclosing block" % (uid, name))
        cb = rt.match_close(toks, ob)
        last = toks[cb - 1].text
        if mode == "x":
            rel = "self.%s_release();" % lk
        else:
            rel = "self.%s.release_%s();" % (lk, mode)
        edits = []
        tail_start = None
        if last not in (";", "}", "{"):
            d2, ls = 0, k
            for z in range(k + 1, cb):
                tz = toks[z].text
                if tz in "([{":
                    d2 += 1
                elif tz in ")]}":
                    d2 -= 1
                    if tz == "}" and d2 == 0 and z + 1 < cb:
                        nx = toks[z + 1]
                        if nx.kind in ("id", "num", "str", "char") and nx.text not in ("else", "as"):
                            ls = z      # a block statement ended; what follows starts a new statement / the tail
                        elif nx.text not in (".", "else", ";", ")", ",", "?", "as"):
                            ls = -1
                elif tz == ";" and d2 == 0:
                    ls = z
            if ls < 0:
                raise ExtractError("%s: cannot delimit the tail expression of the scope of guard `%s`" % (uid, name))
            tail_start = ls + 1
            # a data guard (w / r) may be released in front of the tail's value only if the tail does not use the guarded data
            if mode != "x" and any(tt.kind == "id" and tt.text == name for tt in toks[tail_start:cb]):
                raise ExtractError("%s: the scope of guard `%s` ends in a tail expression that uses the guard; cannot place the release" % (uid, name))
        q = k + 1
        while q < cb:
            t = toks[q]
            if t.text == "?":
                if mode != "x":
                    raise ExtractError("%s: `?` inside the scope of guard `%s`; cannot place the release" % (uid, name))
                try:
                    es = _postfix_start(toks, q)
                except ExtractError as e:
                    raise ExtractError("%s: guard `%s`: %s" % (uid, name, e))
                if es <= k:
                    raise ExtractError("%s: guard `%s`: expression before `?` starts outside the guard scope" % (uid, name))
                edits.append((toks[es].start, toks[es].start, "(match "))
                edits.append((t.start, t.end, " { Ok(__v) => __v, Err(__e) => { " + rel + " return Err(__e); } })"))
            if t.kind == "id" and t.text == "return":
                d2, e = 0, None
                for z in range(q, cb):
                    if toks[z].text in "([{":
                        d2 += 1
                    elif toks[z].text in ")]}":
                        d2 -= 1
                    elif toks[z].text == ";" and d2 == 0:
                        e = z
                        break
                if e is None:
                    raise ExtractError("%s: unterminated return inside guard scope" % uid)
                edits.append((toks[q].start, toks[q].start, "{ " + rel + " "))
                edits.append((toks[e].end, toks[e].end, " }"))
            q += 1
        if tail_start is not None:
            edits.append((toks[tail_start].start, toks[tail_start].start, "let __guard_tail = "))
            edits.append((toks[cb].start, toks[cb].start, "; " + rel + " __guard_tail "))
        else:
            edits.append((toks[cb].start, toks[cb].start, " " + rel + " "))
        if mode == "x" and name == "_":
            # `let _ = <guard expr>;` drops the guard in the same statement: acquired and released at once
            body = body[:toks[i].start] + "self.%s_acquire(); %s" % (lk, rel) + body[toks[k].end:]
            count += 1
            continue
        if mode == "x":
            acq = "self.%s_acquire(); let %s = ();" % (lk, name)
        else:
            acq = "self.%s.acquire_%s(); let %s = %sself.%s;" % (lk, mode, name, "&mut " if mode == "w" else "&", field)
        edits.append((toks[i].start, toks[k].end, acq))
        for a, b, txt in sorted(edits, key=lambda x: -x[0]):
            body = body[:a] + txt + body[b:]
        count += 1
    return body, count


def _extract_item(repo: str, header: str, tpl_name: str) -> Tuple[str, UnitInfo]:
    """`//@item <id> file=F kind=const|static|struct|enum|type name=N [attrs=keep]` — copy a
    non-function item verbatim (attributes and doc comments dropped unless attrs=keep)."""
    hm = re.match(r"//@item\s+(\S+)\s+(.*)$", header.strip())
    if not hm:
        raise ExtractError("bad item header in %s: %s" % (tpl_name, header))
    uid, kv = hm.group(1), _parse_kv(hm.group(2))
    path = os.path.join(repo, kv["file"])
    try:
        src = open(path, encoding="utf-8").read()
    except OSError as e:
        raise ExtractError("cannot read %s: %s" % (path, e))
    toks = rt.tokenize(src)
    kind, name = kv["kind"], kv["name"]
    for i, t in enumerate(toks):
        if t.kind == "id" and t.text == kind and i + 1 < len(toks) and toks[i + 1].kind == "id" and toks[i + 1].text == name:
            # only top-level-ish items: previous token is not `.`/`::`
            s = i
            while s > 0 and toks[s - 1].kind == "id" and toks[s - 1].text in ("pub",):
                s -= 1
            if s > 0 and toks[s - 1].text == ")" :
                p2 = s - 1
                while p2 > 0 and toks[p2].text != "(":
                    p2 -= 1
                if p2 > 0 and toks[p2 - 1].kind == "id" and toks[p2 - 1].text == "pub":
                    s = p2 - 1
            # end: `;` at depth 0 or closing brace of the first `{` at depth 0
            j = i + 2
            end = None
            while j < len(toks):
                tj = toks[j]
                if tj.kind == "punct" and tj.text in "([":
                    j = rt.match_close(toks, j)
                elif tj.kind == "punct" and tj.text == "{":
                    j = rt.match_close(toks, j)
                    if kind in ("struct", "enum", "union"):
                        end = toks[j].end
                        break
                elif tj.kind == "punct" and tj.text == ";":
                    end = tj.end
                    break
                j += 1
            if end is None:
                continue
            text = src[toks[s].start:end]
            info = UnitInfo(uid=uid, file=kv["file"], item="%s %s" % (kind, name),
                            line_start=src.count("\n", 0, toks[s].start) + 1, line_end=src.count("\n", 0, end) + 1,
                            sha256=hashlib.sha256(text.encode()).hexdigest(), orig_text=text,
                            props=[p for p in kv.get("props", "").split(",") if p])
            text = rt.strip_comments(text)
            if kv.get("attrs") != "keep":
                text = re.sub(r"#\[[^\]]*\]\s*", "", text)
            for rule in [v for k, v in kv.items() if k.startswith("rw")]:
                pat, rep = rule.split("==>", 1)
                text, n = rt.rewrite(text, pat.strip(), rep.strip())
                info.rewrites.append((rule, n))
            if kv.get("derive"):
                text = "#[derive(%s)]\n" % kv["derive"] + text
            if kv.get("vis") == "pub" and not text.startswith("pub"):
                text = "pub " + text
            return text + "\n", info
    raise ExtractError("item %s %s not found in %s" % (kind, name, kv["file"]))


def assemble(repo: str, template_path: str, prop: Optional[str] = None) -> Assembled:
    """`prop`: the property being checked; known-finding probes (units named finding_*) that are not tagged with it
    (props=...) are left out, so a finding is reported only under the properties it belongs to."""
    tpl = open(template_path, encoding="utf-8").read().split("\n")
    out: List[str] = []
    units: List[UnitInfo] = []
    skipped: List[str] = []
    i = 0
    name = os.path.basename(template_path)
    while i < len(tpl):
        ln = tpl[i]
        if ln.strip().startswith("//@include"):
            inc = ln.strip().split(None, 1)[1].strip()
            ipath = os.path.join(os.path.dirname(template_path), inc)
            try:
                sub = assemble(repo, ipath, prop)
            except OSError as e:
                raise ExtractError("cannot include %s: %s" % (inc, e))
            base = len(out)
            skipped.extend(getattr(sub, 'skipped', []))
            for u in sub.units:
                u.asm_start += base
                u.asm_end += base
                units.append(u)
            out.extend(sub.text.split("\n"))
            i += 1
            continue
        if ln.strip().startswith("//@item"):
            text, info = _extract_item(repo, ln, name)
            info.asm_start = len(out) + 1
            out.extend(text.split("\n"))
            info.asm_end = len(out)
            units.append(info)
            i += 1
            continue
        if ln.strip().startswith("//@unit"):
            j = i + 1
            block: List[str] = []
            while j < len(tpl) and not tpl[j].strip().startswith("//@end"):
                block.append(tpl[j])
                j += 1
            if j >= len(tpl):
                raise ExtractError("unterminated //@unit in %s" % name)
            optional = ln.strip().startswith("//@unit?")
            hm0 = re.match(r"//@unit\??\s+(\S+)\s+(.*)$", ln.strip())
            if hm0 and hm0.group(1).startswith("finding_") and prop:
                tagged = [x for x in _parse_kv(hm0.group(2)).get("props", "").split(",") if x]
                if tagged and prop not in tagged:
                    out.append("// probe %s belongs to %s; not part of the %s check" % (hm0.group(1), ",".join(tagged), prop))
                    i = j + 1
                    continue
            try:
                text, info = _apply_unit(repo, ln.replace("//@unit?", "//@unit", 1), block, name)
            except ExtractError as e:
                if optional and "not found" in str(e) and "function" in str(e):
                    out.append("// optional unit skipped: %s" % e)
                    i = j + 1
                    continue
                # a unit that cannot be extracted (lost anchor) is left out and reported undecided; the other units of
                # the template are still checked (units only see each other through shims)
                out.append("// unit not extracted: %s" % str(e).replace("\n", " "))
                skipped.append(str(e))
                i = j + 1
                continue
            info.asm_start = len(out) + 1
            out.extend(text.split("\n"))
            info.asm_end = len(out)
            units.append(info)
            i = j + 1
            continue
        out.append(ln)
        i += 1
    a = Assembled("\n".join(out), units, name)
    a.skipped = skipped
    return a
