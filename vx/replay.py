"""Replay of counterexamples against the real crate (filled in per scenario)."""
from __future__ import annotations
import json
import os
from typing import Optional

SCENARIOS = {}


def attach(prop: str, violation: dict, repo: str, root: str, cache: str) -> None:
    """If the violation carries a counterexample with a known scenario, run it on the real code
    and record whether it reproduced.  Never raises for an unknown scenario."""
    cx = violation.get("counterexample")
    if not cx:
        return
    sc = cx.get("scenario")
    fn = SCENARIOS.get(sc)
    if fn is None:
        violation["replay_on_real_code"] = "no scenario registered for this harness; counterexample bytes attached"
        return
    violation["replay_on_real_code"] = fn(cx, repo, root, cache)


def run_file(path: str, repo: str, root: str, cache: str) -> int:
    d = json.load(open(path))
    print("replay file for property %s: %d failed obligation(s)" % (d.get("property"), len(d.get("violations", []))))
    rc = 0
    for v in d.get("violations", []):
        print("- obligation %s" % v.get("obligation"))
        print("  %s: %s" % (v.get("kind"), v.get("message")))
        print("  at: %s" % (v.get("clause_or_statement") or ""))
        if v.get("source"):
            print("  source: %s" % json.dumps(v["source"]))
        cx = v.get("counterexample")
        if cx:
            print("  counterexample: %s" % json.dumps({k: cx[k] for k in cx if k != "replayed_natively_on_extracted_real_function"})[:400])
            nr = cx.get("replayed_natively_on_extracted_real_function")
            if nr:
                print("  replayed natively (harness run as a test on these values, on the function text extracted from /repo): reproduced=%s %s" % (nr.get("reproduced"), nr.get("panic", "")))
                if nr.get("reproduced"):
                    rc = 1
            sc = SCENARIOS.get(cx.get("scenario"))
            if sc:
                r = sc(cx, repo, root, cache)
                print("  replay on real code: %s" % r)
                if isinstance(r, dict) and r.get("reproduced"):
                    rc = 1
        else:
            print("  no failing input found by the verifier (deductive failure); verifier output follows")
            print("    " + (v.get("verifier_output") or "").replace("\n", "\n    ")[:1500])
            rc = 1
    return rc
