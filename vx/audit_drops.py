"""Lists every rewrite rule whose left side captures source text ($x) that its right side does not reproduce: the places
where the extraction DROPS real text.  Each must be either benign (message text, telemetry, logging) or covered by another
unit / declared as an assumption.  Usage: python3 -m vx.audit_drops"""
import glob, os, re
ROOT = os.path.dirname(os.path.dirname(os.path.abspath(__file__)))
def main():
    pats = [os.path.join(ROOT, "contracts", "verus", "*.rs.in"), os.path.join(ROOT, "contracts", "verus", "*.inc"), os.path.join(ROOT, "contracts", "kani", "*", "*.in")]
    for f in sorted(sum((glob.glob(p) for p in pats), [])):
        for i, l in enumerate(open(f).read().split("\n")):
            m = re.match(r"//@\s*(rw\??|rwin|lift\??|sigrw):\s*(.*)$", l)
            if not m or "==>" not in m.group(2):
                continue
            lhs, rhs = m.group(2).split("==>", 1)
            dropped = sorted(c for c in set(re.findall(r"\$([a-zA-Z_][a-zA-Z0-9_]*)", lhs)) if ("$" + c) not in rhs)
            if dropped:
                print("%s:%d drops %s :: %s" % (os.path.relpath(f, ROOT), i + 1, ",".join("$" + d for d in dropped), l[:200]))
if __name__ == "__main__":
    main()
