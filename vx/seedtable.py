"""Regenerate the seeded-changes table of DESIGN.md from seeded/*/*/{meta.json,confirm.json,check_result.txt}
(run: python3 -m vx.seedtable)."""
import glob, json, os, re

ROOT = os.path.dirname(os.path.dirname(os.path.abspath(__file__)))
BEGIN, END = "<!-- BEGIN SEEDED -->", "<!-- END SEEDED -->"


def main():
    rows = ["| property / change | what was changed (function) | confirmed (suite passes, demo fails only on the change) | outcome of the check | failing obligation |", "|---|---|---|---|---|"]
    n = {"VIOLATION": 0, "UNDECIDED": 0, "OK": 0}
    for d in sorted(glob.glob(os.path.join(ROOT, "seeded", "C*", "m*")) + glob.glob(os.path.join(ROOT, "seeded", "C*", "r2m*")), key=lambda x: (x.split(os.sep)[-2], x.split(os.sep)[-1].startswith("r2"), x.split(os.sep)[-1])):
        p, m = d.split(os.sep)[-2:]
        try:
            meta = json.load(open(os.path.join(d, "meta.json")))
        except Exception:
            meta = {}
        try:
            conf = json.load(open(os.path.join(d, "confirm.json")))
            confirmed = "yes" if conf.get("confirmed") else "NO: " + ",".join(conf.get("existing_tests_failing_on_mutant", []))[:60]
        except Exception:
            confirmed = "by the seeding agent only" if meta else "-"
        res, obl = "not run", ""
        try:
            txt = open(os.path.join(d, "check_result.txt")).read()
            if "VIOLATION property=" in txt:
                res = "**VIOLATION**"
                n["VIOLATION"] += 1
                mo = re.search(r"failed obligation: (\S+) ::", txt)
                obl = mo.group(1) if mo else ""
            elif "UNDECIDED" in txt:
                res = "undecided (exit 2)"
                n["UNDECIDED"] += 1
                mo = re.search(r"\n.*?- (.*)", txt)
                obl = (mo.group(1)[:90] if mo else "")
            elif re.search(r"\] OK property=", txt):
                res = "missed (exit 0)"
                n["OK"] += 1
        except Exception:
            pass
        fn = ", ".join(meta.get("functions", []))[:70] if meta else ""
        summ = (meta.get("summary", "") or "").replace("|", "/").replace("\n", " ")[:170]
        rows.append("| %s/%s | %s (%s) | %s | %s | `%s` |" % (p, m, summ, fn, confirmed, res, obl))
    rows.append("")
    rows.append("Totals: %d reported as VIOLATION, %d undecided (exit 2: the changed code left the verifier's reach), %d missed." % (n["VIOLATION"], n["UNDECIDED"], n["OK"]))
    path = os.path.join(ROOT, "DESIGN.md")
    s = open(path).read()
    a, b = s.index(BEGIN) + len(BEGIN), s.index(END)
    s = s[:a] + "\n" + "\n".join(rows) + "\n" + s[b:]
    open(path, "w").write(s)
    print("DESIGN.md seeded table regenerated:", n)


if __name__ == "__main__":
    main()
